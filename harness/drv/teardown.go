package drv

import (
	"fmt"
	"math/rand"
	"net"
	"regexp"
	"strconv"
	"strings"
	"time"

	"verifharness/envx"
	"verifharness/gw"
	"verifharness/tsgu"
	"verifharness/wsraw"
)

// TdScript ends the client side of a tunnel in one way at one point.
type TdScript struct {
	Script
	Point    string `json:"point"`    // accepted | hs | created | authorized | channel | opened
	Cause    string `json:"cause"`    // close-channel | protocol-error | unframeable | fin:<conn> | rst:<conn>
	Inflight string `json:"inflight"` // none | c2b | b2c | both
}

var gaugeRe = regexp.MustCompile(`(?m)^(rdpgw_(?:websocket|legacy)_connections) ([0-9.e+-]+)$`)

func (i *Inst) gauges() (map[string]float64, error) {
	h, err := i.NewBrowser("", "").Get(i.BaseURL() + "/metrics")
	if err != nil {
		return nil, err
	}
	out := map[string]float64{}
	for _, m := range gaugeRe.FindAllStringSubmatch(h.Body, -1) {
		v, _ := strconv.ParseFloat(m[2], 64)
		out[m[1]] = v
	}
	return out, nil
}

func sameGauges(a, b map[string]float64) bool {
	for k, v := range a {
		if b[k] != v {
			return false
		}
	}
	return len(a) == len(b)
}

func census(e gw.Event) int {
	n := 0
	for k, v := range e.By {
		if strings.Contains(k, "protocol.") {
			n += v
		}
	}
	return n
}

const tdBound = 3 * time.Second

// RunTeardown executes the scenario and records what was released within the bound.
func (i *Inst) RunTeardown(s *TdScript, tw *TraceWriter, rng *rand.Rand) error {
	p := i.P
	// the baseline is taken from a quiet gateway: whatever earlier scripts left behind has finished releasing (every
	// handler invocation the gateway entered has returned, and the gauges have stopped moving)
	i.waitAllHandlersGone(10 * time.Second)
	g0, err := i.quietGauges()
	if err != nil {
		return err
	}
	c0, err := p.Goroutines("base-" + s.ID)
	if err != nil {
		return err
	}
	pc := i.NewProtoCtx(s.Script, rng)
	if s.Point == "pre" {
		return i.teardownPre(s, tw, pc, g0, c0)
	}
	t, rep, err := i.Open(pc.OpenOpts())
	if err != nil {
		return fmt.Errorf("open: %w", err)
	}
	if t == nil {
		return fmt.Errorf("open refused: %d", rep.Status)
	}
	defer t.Close()
	be := i.Backends["A"]
	n0 := be.NConns()
	start := p.Mark()
	order := []string{"accepted", "hs", "created", "authorized", "channel", "opened"}
	npre := 0
	for k, o := range order {
		if o == s.Point {
			npre = k
		}
	}
	steps := s.Steps
	if npre > len(steps) {
		npre = len(steps)
	}
	for _, st := range steps[:npre] {
		pkt, _, err := pc.Build(st)
		if err != nil {
			return err
		}
		r, err := t.Step(pkt)
		if err != nil {
			return err
		}
		if r.End {
			return fmt.Errorf("set-up step %v ended the tunnel", st["k"])
		}
	}
	var bc *envx.BConn
	hadHost := npre >= 4
	if hadHost {
		if !be.WaitConn(n0+1, 5*time.Second) {
			return fmt.Errorf("host saw no connection")
		}
		bc = be.Conn(n0)
	}
	// data in flight
	if hadHost && (s.Inflight == "b2c" || s.Inflight == "both") {
		burst := make([]byte, 300000)
		rng.Read(burst)
		go bc.Send(burst)
		time.Sleep(2 * time.Millisecond)
	}
	if hadHost && (s.Inflight == "c2b" || s.Inflight == "both") {
		for k := 0; k < 5; k++ {
			pl := make([]byte, 2000)
			rng.Read(pl)
			t.SendRaw(tsgu.Data(uint16(len(pl)), pl))
		}
	}
	// the client has stopped reading while the host keeps sending: the relay ends up inside Tunnel.Write, holding the
	// writer lock, blocked on the full socket - and stays there until that client connection ends
	if hadHost && s.Inflight == "stalled" {
		stop, err := i.stallRelay(t, bc, start)
		if err != nil {
			return err
		}
		defer stop()
	}
	// the client has sent a second RDG_OUT_DATA request under the tunnel's connection identifier: that connection is a
	// client-facing connection of the tunnel as well, and the tunnel is still the one registry entry it was
	var out2 *wsraw.LegacyOut
	if s.Inflight == "reout" {
		if t.In == nil {
			return fmt.Errorf("a second OUT request needs the legacy transport")
		}
		m := p.Mark()
		o2, rep2, err := wsraw.DialLegacyOut(i.dialOpts(pc.OpenOpts(), t.Cid))
		if err != nil || o2 == nil {
			return fmt.Errorf("second OUT: %v %v", err, rep2)
		}
		out2 = o2
		defer out2.Close()
		if idx, _ := p.Wait(m, 5*time.Second, func(e gw.Event) bool { return e.Cid == t.Cid && e.Pt == "legacy.out.published" }); idx < 0 {
			return fmt.Errorf("second OUT was not taken up")
		}
	}
	// the cause
	closedByClient := map[string]bool{}
	switch {
	case s.Cause == "close-channel":
		t.SendRaw(tsgu.CloseChannel(0))
	case s.Cause == "protocol-error":
		if s.Point == "accepted" {
			t.SendRaw(tsgu.TunnelAuth("x"))
		} else {
			t.SendRaw(tsgu.Handshake(1, 0, 0, 0))
		}
	case s.Cause == "unframeable":
		t.SendRaw(tsgu.Header(tsgu.PktData, 3))
	case s.Cause == "unframeable-huge":
		// a length field beyond anything the protocol allows, followed by a few bytes only: the client then waits
		t.SendRaw(append(tsgu.Header(tsgu.PktData, []uint32{0x20001, 0xffffffff, 0x7fffffff}[rng.Intn(3)]), make([]byte, 10)...))
	case strings.HasPrefix(s.Cause, "shut:"):
		// half close: the client sends FIN on the connection it writes on and keeps the socket open
		var c net.Conn
		if s.Cause[5:] == "ws" && t.WS != nil {
			c = t.WS.C
		} else if s.Cause[5:] == "in" && t.In != nil {
			c = t.In.C
		}
		if tc, ok := c.(*net.TCPConn); ok {
			tc.CloseWrite()
		} else {
			return fmt.Errorf("cause %q needs a plain TCP connection", s.Cause)
		}
	case strings.HasPrefix(s.Cause, "fin:") || strings.HasPrefix(s.Cause, "rst:"):
		which := s.Cause[4:]
		rst := strings.HasPrefix(s.Cause, "rst:")
		closedByClient[which] = true
		switch which {
		case "ws":
			if rst {
				t.WS.Reset()
			} else {
				t.WS.Close()
			}
		case "in":
			if rst {
				t.In.Reset()
			} else {
				t.In.Close()
			}
		case "out":
			if rst {
				t.Out.Reset()
			} else {
				t.Out.Close()
			}
		}
	default:
		return fmt.Errorf("unknown cause %q", s.Cause)
	}
	// the client goes on sending after it ended its side by a packet (as one that has not noticed yet): the end is the
	// end all the same
	if s.Inflight == "keeps-sending" {
		stopSend := make(chan struct{})
		defer close(stopSend)
		go func() {
			for {
				select {
				case <-stopSend:
					return
				case <-time.After(200 * time.Millisecond):
				}
				t.SendRaw(tsgu.Data(10, []byte("0123456789")))
			}
		}()
	}
	t0 := time.Now()
	deadline := t0.Add(tdBound)
	left := func() time.Duration {
		d := time.Until(deadline)
		if d < time.Millisecond {
			d = time.Millisecond
		}
		return d
	}
	// loop exit / relay exit / unregister
	loopIdx, _ := p.Wait(start, left(), func(e gw.Event) bool { return e.Cid == t.Cid && e.Pt == "proc.exit" })
	unregIdx, _ := p.Wait(start, left(), func(e gw.Event) bool { return e.Cid == t.Cid && e.Pt == "unreg.end" })
	relayDone := true
	panicked := false
	if hadHost {
		idx, _ := p.Wait(start, left(), func(e gw.Event) bool { return e.Cid == t.Cid && e.Pt == "relay.exit" })
		relayDone = idx >= 0
	}
	hostClosed := true
	if hadHost {
		hostClosed = bc.WaitClosed(left()) != "" && bc.FullyClosed(left())
	}
	// client-facing connections the client did not close itself must be closed by the gateway
	connsClosed := true
	check := func(name string, wait func(time.Duration) string) {
		if closedByClient[name] {
			return
		}
		if r := wait(left()); r == "timeout" {
			connsClosed = false
		}
	}
	if t.WS != nil {
		check("ws", t.WS.WaitEOF)
	} else {
		check("in", t.In.WaitEOF)
		check("out", t.Out.WaitEOF)
		if out2 != nil {
			check("out2", out2.WaitEOF)
		}
	}
	gaugesBack, goroutinesBack := false, false
	for {
		if !gaugesBack {
			if g, err := i.gauges(); err == nil && sameGauges(g0, g) {
				gaugesBack = true
			}
		}
		if !goroutinesBack {
			if c, err := p.Goroutines("after-" + s.ID); err == nil && census(c) <= census(c0) {
				goroutinesBack = true
			}
		}
		if (gaugesBack && goroutinesBack) || time.Now().After(deadline) {
			break
		}
		time.Sleep(20 * time.Millisecond)
	}
	for _, e := range p.Since(start) {
		if e.Cid == t.Cid && e.Panicking {
			panicked = true
		}
	}
	causeLabel := s.Cause
	if s.Inflight == "stalled" {
		causeLabel += "@stalled"
	}
	if s.Inflight == "reout" {
		causeLabel += "@reout"
	}
	if s.Inflight == "keeps-sending" {
		causeLabel += "@keeps-sending"
	}
	tw.Line(M{"ev": "teardown", "script": s.ID, "transport": s.Transport, "point": s.Point, "cause": causeLabel, "inflight": s.Inflight, "hadHost": hadHost,
		"hostClosed": hostClosed, "connsClosed": connsClosed, "loopExited": loopIdx >= 0, "relayDone": relayDone, "unregistered": unregIdx >= 0,
		"gaugesBack": gaugesBack, "goroutinesBack": goroutinesBack, "panicked": panicked, "ms": int(time.Since(t0) / time.Millisecond)})
	// leave the instance clean for the next script: force everything shut and wait until the gateway has let go
	t.Close()
	if bc != nil {
		bc.Close()
	}
	i.waitHandlersGone(t.Cid, start, 5*time.Second)
	return nil
}

// waitHandlersGone waits until every handler invocation the gateway entered for cid since mark has returned.
func (i *Inst) waitHandlersGone(cid string, mark int, d time.Duration) bool {
	deadline := time.Now().Add(d)
	for {
		in, out := 0, 0
		for _, e := range i.P.Since(mark) {
			if e.Cid == cid {
				switch e.Pt {
				case "gw.enter":
					in++
				case "gw.exit":
					out++
				}
			}
		}
		if in > 0 && out >= in {
			return true
		}
		if time.Now().After(deadline) {
			return false
		}
		time.Sleep(10 * time.Millisecond)
	}
}

// waitAllHandlersGone waits until every handler invocation the gateway has entered so far has returned.
func (i *Inst) waitAllHandlersGone(d time.Duration) bool {
	deadline := time.Now().Add(d)
	for {
		in, out := 0, 0
		for _, e := range i.P.Since(0) {
			switch e.Pt {
			case "gw.enter":
				in++
			case "gw.exit":
				out++
			}
		}
		if out >= in {
			return true
		}
		if time.Now().After(deadline) {
			return false
		}
		time.Sleep(10 * time.Millisecond)
	}
}

// quietGauges reads the connection gauges until two readings 40 ms apart agree.
func (i *Inst) quietGauges() (map[string]float64, error) {
	g, err := i.gauges()
	if err != nil {
		return nil, err
	}
	for k := 0; k < 100; k++ {
		time.Sleep(40 * time.Millisecond)
		g2, err := i.gauges()
		if err != nil {
			return nil, err
		}
		if sameGauges(g, g2) {
			return g2, nil
		}
		g = g2
	}
	return g, nil
}


// teardownPre ends a legacy tunnel right after the IN request was accepted,
// before the client sent its first bytes (the gateway is still in its drain).
func (i *Inst) teardownPre(s *TdScript, tw *TraceWriter, pc *ProtoCtx, g0 map[string]float64, c0 gw.Event) error {
	p := i.P
	cid := i.R.NextCid("t")
	d := i.dialOpts(pc.OpenOpts(), cid)
	start := p.Mark()
	out, rep, err := wsraw.DialLegacyOut(d)
	if err != nil || out == nil {
		return fmt.Errorf("open OUT: %v %v", err, rep)
	}
	defer out.Close()
	if idx, _ := p.Wait(start, 10*time.Second, func(e gw.Event) bool { return e.Cid == cid && e.Pt == "legacy.out.published" }); idx < 0 {
		return fmt.Errorf("OUT not published")
	}
	in, rep2, err := wsraw.DialLegacyIn(d)
	if err != nil || in == nil {
		return fmt.Errorf("open IN: %v %v", err, rep2)
	}
	if idx, _ := p.Wait(start, 10*time.Second, func(e gw.Event) bool { return e.Cid == cid && e.Pt == "legacy.in.attached" }); idx < 0 {
		in.Close()
		return fmt.Errorf("IN not attached")
	}
	closedByClient := map[string]bool{}
	switch s.Cause {
	case "fin:in":
		in.Close()
		closedByClient["in"] = true
	case "rst:in":
		in.Reset()
		closedByClient["in"] = true
	case "fin:out":
		out.Close()
		closedByClient["out"] = true
	case "rst:out":
		out.Reset()
		closedByClient["out"] = true
	default:
		in.Close()
		return fmt.Errorf("cause %q not applicable before the preamble", s.Cause)
	}
	t0 := time.Now()
	deadline := t0.Add(tdBound)
	left := func() time.Duration {
		if d := time.Until(deadline); d > time.Millisecond {
			return d
		}
		return time.Millisecond
	}
	connsClosed := true
	if !closedByClient["out"] && out.WaitEOF(left()) == "timeout" {
		connsClosed = false
	}
	if !closedByClient["in"] && in.WaitEOF(left()) == "timeout" {
		connsClosed = false
	}
	// a tunnel that was registered has to be unregistered; a loop that started has to end
	registered, unregistered, loopStarted, loopExited := false, false, false, false
	gaugesBack, goroutinesBack := false, false
	for {
		for _, e := range p.Since(start) {
			if e.Cid != cid {
				continue
			}
			switch e.Pt {
			case "reg.end":
				registered = true
			case "unreg.end":
				unregistered = true
			case "proc.recv", "tr.reading":
				loopStarted = true
			case "proc.exit":
				loopExited = true
			}
		}
		if !gaugesBack {
			if g, err := i.gauges(); err == nil && sameGauges(g0, g) {
				gaugesBack = true
			}
		}
		if !goroutinesBack {
			if c, err := p.Goroutines("after-" + s.ID); err == nil && census(c) <= census(c0) {
				goroutinesBack = true
			}
		}
		if (gaugesBack && goroutinesBack && (!registered || unregistered)) || time.Now().After(deadline) {
			break
		}
		time.Sleep(20 * time.Millisecond)
	}
	// the connection id must be usable again: once the tunnel has ended (both of its requests have returned) nothing
	// of it may linger in the pairing cache.  (A tunnel that has not ended by now is reported by the flags above; asking
	// for its identifier again would only tell that it is still there.)
	idReusable := true
	if !i.waitHandlersGone(cid, start, left()) {
		// not ended within the bound
	} else if o2, _, _ := wsraw.DialLegacyOut(d); o2 != nil {
		m2 := p.Mark()
		i2, _, _ := wsraw.DialLegacyIn(d)
		if i2 != nil {
			i2.WriteChunk(make([]byte, 100))
			if idx, _ := p.Wait(m2, 2*time.Second, func(e gw.Event) bool { return e.Cid == cid && e.Pt == "tr.reading" }); idx < 0 {
				idReusable = false
			}
			i2.Close()
		} else {
			idReusable = false
		}
		o2.Close()
		i.waitAllHandlersGone(5 * time.Second)
	}
	in.Close()
	tw.Line(M{"ev": "teardown", "script": s.ID, "transport": s.Transport, "point": s.Point, "cause": s.Cause, "inflight": s.Inflight, "hadHost": false,
		"hostClosed": true, "connsClosed": connsClosed && idReusable, "loopExited": !loopStarted || loopExited, "relayDone": true, "unregistered": !registered || unregistered,
		"gaugesBack": gaugesBack, "goroutinesBack": goroutinesBack, "panicked": false, "ms": int(time.Since(t0) / time.Millisecond), "idReusable": idReusable})
	return nil
}


// stallRelay makes the host of tunnel t stream continuously while the client does not read, and returns once the relay
// goroutine has been sitting inside Tunnel.Write (holding the writer lock, blocked on full socket buffers) for a while.
func (i *Inst) stallRelay(t *TunConn, bc *envx.BConn, start int) (stop func(), err error) {
	p := i.P
	stopSend := make(chan struct{})
	stop = func() { close(stopSend) }
	go func() {
		buf := make([]byte, 1<<16)
		for {
			select {
			case <-stopSend:
				return
			default:
			}
			if bc.Send(buf) != nil {
				return
			}
		}
	}()
	relayWrites := func() (begins, ends int) {
		for _, e := range p.Since(start) {
			if e.Cid == t.Cid && e.Role == "relay" {
				switch e.Pt {
				case "tun.write.begin":
					begins++
				case "tun.write.end":
					ends++
				}
			}
		}
		return
	}
	lastEnds, since := -1, time.Now()
	for limit := time.Now().Add(20 * time.Second); time.Now().Before(limit); {
		b, e := relayWrites()
		if e != lastEnds {
			lastEnds, since = e, time.Now()
		} else if b == e+1 && time.Since(since) > 250*time.Millisecond {
			return stop, nil
		}
		time.Sleep(20 * time.Millisecond)
	}
	stop()
	return func() {}, fmt.Errorf("the relay did not block in its write to a client that does not read (stalled scenario could not be set up)")
}

package forge

import (
	"bytes"
	"compress/flate"
	"crypto/aes"
	"crypto/cipher"
	"crypto/hmac"
	"crypto/rand"
	"crypto/sha256"
	"encoding/binary"
	"strings"
)

// JWEDir builds a compact JWE with direct key agreement and A128CBC-HS256
// (RFC 7516 / 7518 §5.2), optionally DEFLATE-compressing the plaintext. key
// must be 32 bytes (MAC key || ENC key). headerJSON is the protected header.
func JWEDir(key []byte, headerJSON string, plaintext []byte, deflate bool) string {
	if len(key) != 32 {
		k := make([]byte, 32)
		copy(k, key)
		key = k
	}
	macKey, encKey := key[:16], key[16:]
	pt := plaintext
	if deflate {
		var buf bytes.Buffer
		w, _ := flate.NewWriter(&buf, 1)
		w.Write(plaintext)
		w.Close()
		pt = buf.Bytes()
	}
	pad := aes.BlockSize - len(pt)%aes.BlockSize
	pt = append(append([]byte{}, pt...), bytes.Repeat([]byte{byte(pad)}, pad)...)
	iv := make([]byte, 16)
	rand.Read(iv)
	blk, _ := aes.NewCipher(encKey)
	ct := make([]byte, len(pt))
	cipher.NewCBCEncrypter(blk, iv).CryptBlocks(ct, pt)
	aad := []byte(B64([]byte(headerJSON)))
	al := make([]byte, 8)
	binary.BigEndian.PutUint64(al, uint64(len(aad))*8)
	m := hmac.New(sha256.New, macKey)
	m.Write(aad)
	m.Write(iv)
	m.Write(ct)
	m.Write(al)
	tag := m.Sum(nil)[:16]
	return strings.Join([]string{string(aad), "", B64(iv), B64(ct), B64(tag)}, ".")
}

const HdrJWE = `{"alg":"dir","cty":"JWT","enc":"A128CBC-HS256","zip":"DEF"}`

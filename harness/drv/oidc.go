package drv

import (
	"encoding/base64"
	"encoding/json"
	"sync"
	"fmt"
	"math/rand"
	"net"
	"net/http"
	"net/url"
	"strings"
	"time"

	"verifharness/envx"
	"verifharness/forge"
	"verifharness/tsgu"
)

// OiScript is a browser scenario against the real binary in openid mode.
type OiScript struct {
	ID    string    `json:"id"`
	Kind  string    `json:"kind"` // callback | cookie | connect
	Cfg   ScriptCfg `json:"cfg"`
	State string    `json:"state"` // issued | unknown | expired | reused
	Login string    `json:"login"` // ok | refuse | noidtoken | badsig | wrongiss | wrongaud | expired | nousername
	Mut   string    `json:"mut"`   // none | subst | trunc | foreign | empty | garbage
	// connect
	Session string   `json:"session"` // new | unauth | authed
	Param   string   `json:"param"`   // absent | listed | listed2 | unlisted | qtok-ok | qtok-unlisted | qtok-forged | qtok-expired | qtok-wrongiss | garbage
	User    string   `json:"user"`
	XFF     string   `json:"xff"`
	PeerIP  string   `json:"peerIP"`
	Replay  bool     `json:"replay"`
	Pos     int      `json:"pos"`
	UserSym []string `json:"userSym"`
	// LoginXFF: the address the session logged in from when that is not the address the file is requested from (a
	// client that moved after logging in): the token is bound to the address of the REQUEST it is issued for
	LoginXFF string `json:"loginXFF,omitempty"`
}

func loginFor(cls, user string) *envx.Login {
	l := &envx.Login{Sub: user, Claims: map[string]interface{}{"preferred_username": user}}
	switch cls {
	case "refuse":
		l.RefuseCode = true
	case "noidtoken":
		l.NoIDToken = true
	case "badsig":
		l.BadSig = true
	case "wrongiss":
		l.Issuer = "http://evil.example"
	case "subissuer", "issuerslash":
		// issuers that are not the provider's but look like it: a path below it, the same with a slash appended
		l.Issuer = "<" + cls + ">"
	case "noaud":
		l.Audience = "<absent>"
	case "emptyaud":
		l.Audience = "<empty-list>"
	case "wrongaud":
		l.Audience = "some-other-client"
	case "expired":
		l.ExpiredID = true
	case "expired-just":
		// expired a few seconds ago - later than the moment the gateway process was started
		l.ExpiredID = true
		l.ExpiredBy = 3 * time.Second
	case "nousername":
		l.Claims = map[string]interface{}{"email": "x@example.org"}
	case "manyclaims":
		// every claim a user name may be taken from is present, with a different value each; the user name is the one of
		// the first claim in the documented order (preferred_username, unique_name, upn, username)
		l.Claims = map[string]interface{}{"preferred_username": user, "unique_name": "un-" + user, "upn": "upn-" + user, "username": "administrator", "email": "x@example.org"}
	case "laterclaims":
		// (the first two are absent here: the user name is the upn claim)
		l.Claims = map[string]interface{}{"upn": user, "username": "administrator", "email": "x@example.org", "name": "Somebody Else"}
	}
	return l
}

// startLogin requests /connect and returns the IdP authorization URL and the state value.
func startLogin(b *Browser, query string) (authURL, state string, hop *Hop, err error) {
	u := b.I.BaseURL() + "/connect"
	if query != "" {
		u += "?" + query
	}
	h, err := b.Get(u)
	if err != nil {
		return "", "", nil, err
	}
	if h.Status != 302 {
		return "", "", h, nil
	}
	lu, err := url.Parse(h.Location)
	if err != nil {
		return "", "", h, err
	}
	return h.Location, lu.Query().Get("state"), h, nil
}

// callbackURL asks the IdP for a code (login behaviour l) and returns the
// callback URL the IdP redirects to, rebased to the real gateway address.
func callbackURL(b *Browser, authURL string, l *envx.Login) (string, error) {
	switch l.Issuer {
	case "<subissuer>":
		l.Issuer = b.I.IdP.URL + "/tenants/other"
	case "<issuerslash>":
		l.Issuer = b.I.IdP.URL + "/"
	}
	id := b.I.IdP.Register(l)
	h, err := b.Get(authURL + "&verif_login=" + id)
	if err != nil {
		return "", err
	}
	if h.Status != 302 {
		return "", fmt.Errorf("IdP answered %d", h.Status)
	}
	return b.rebase(h.Location), nil
}

func withState(cb, state string) string {
	u, _ := url.Parse(cb)
	q := u.Query()
	q.Set("state", state)
	u.RawQuery = q.Encode()
	return u.String()
}

// RunOidc executes one scenario and appends its trace event.
func (i *Inst) RunOidc(s *OiScript, tw *TraceWriter, rng *rand.Rand) error {
	store := i.Cfg.Store
	if store == "" {
		store = "cookie"
	}
	user := s.User
	if user == "" {
		user = "user1"
	}
	switch s.Kind {
	case "callback":
		if s.Login == "expired-just" {
			// the gateway has to be older than the token's expiry
			if age := time.Since(i.Started); age < 6*time.Second {
				time.Sleep(6*time.Second - age)
			}
		}
		b := i.NewBrowser("", "")
		authURL, state, _, err := startLogin(b, "")
		if err != nil || authURL == "" {
			return fmt.Errorf("no redirect to the IdP: %v", err)
		}
		useState := state
		switch s.State {
		case "unknown":
			useState = fmt.Sprintf("%032x", rng.Int63())
		case "expired":
			time.Sleep(125 * time.Second)
		case "expired-after-failed":
			// the state is used for a failing callback half-way through its two minutes (the IdP refuses the code); that
			// must not give it a new lease: 130 s after it was issued it is expired
			time.Sleep(70 * time.Second)
			if cb, err := callbackURL(b, authURL, loginFor("refuse", user)); err == nil {
				b.Get(withState(cb, state))
			}
			time.Sleep(60 * time.Second)
		case "reused":
			cb, err := callbackURL(b, authURL, loginFor("ok", user))
			if err != nil {
				return err
			}
			if h, err := b.Get(cb); err != nil || h.Status != 302 {
				return fmt.Errorf("first login failed")
			}
			// forget the session so that the second callback alone decides
			b = i.NewBrowser("", "")
		}
		cb, err := callbackURL(b, authURL, loginFor(s.Login, user))
		if err != nil {
			return err
		}
		h, err := b.Get(withState(cb, useState))
		if err != nil {
			return err
		}
		after, err := b.Get(i.BaseURL() + "/connect")
		if err != nil {
			return err
		}
		authed := after.Status == 200 && strings.Contains(after.Body, "gatewayaccesstoken")
		userIsClaim := false
		if authed {
			f, _ := ParseRDP(after.Body)
			userIsClaim = f["username"] == user
		}
		tw.Line(M{"ev": "callback", "script": s.ID, "cls": s.State + "." + s.Login, "store": store, "state": s.State, "login": s.Login, "status": h.Status,
			"authedAfter": authed, "userIsClaim": userIsClaim, "afterStatus": after.Status})
	case "cookie":
		b := i.NewBrowser("", "")
		br := b
		br.LoginID = i.IdP.Register(loginFor("ok", user))
		hops, err := br.Connect("", 6)
		if err != nil || hops[len(hops)-1].Status != 200 {
			return fmt.Errorf("login failed: %v", err)
		}
		u, _ := url.Parse(i.BaseURL())
		var sc *http.Cookie
		for _, c := range b.C.Jar.Cookies(u) {
			if c.Name == "RDPGWSESSION" {
				sc = c
			}
		}
		if sc == nil {
			return fmt.Errorf("no session cookie")
		}
		val := sc.Value
		mutated := val
		switch s.Mut {
		case "none":
		case "subst":
			pos := s.Pos % len(val)
			bts := []byte(val)
			for {
				c := b64alpha[rng.Intn(len(b64alpha))]
				if c != bts[pos] {
					bts[pos] = c
					break
				}
			}
			mutated = string(bts)
		case "trunc":
			mutated = val[:1+s.Pos%(len(val)-1)]
		case "anonymous":
			// the session cookie of another browser that was sent to the identity provider but never came back: it is
			// presented right after the logged-in session above was used, and again
			ab := i.NewBrowser("", "")
			if _, err := ab.Get(i.BaseURL() + "/connect"); err != nil {
				return err
			}
			for _, c := range ab.C.Jar.Cookies(u) {
				if c.Name == "RDPGWSESSION" {
					mutated = c.Value
				}
			}
			for k := 0; k < 3; k++ {
				if hh, err := b.Get(i.BaseURL() + "/connect"); err != nil || hh.Status != 200 {
					return fmt.Errorf("logged-in session stopped working")
				}
				xb := i.NewBrowser("", "")
				xb.C.Jar.SetCookies(u, []*http.Cookie{{Name: "RDPGWSESSION", Value: mutated, Path: "/"}})
				if hh, err := xb.Get(i.BaseURL() + "/connect"); err == nil && hh.Status == 200 {
					break // the last request below shows it again
				}
			}
		case "empty":
			mutated = ""
		case "garbage":
			g := make([]byte, 40+rng.Intn(200))
			for k := range g {
				g[k] = b64alpha[rng.Intn(len(b64alpha))]
			}
			mutated = string(g)
		case "foreign", "foreign-sameconfig":
			// a cookie produced by another gateway instance: one with other configured keys, or (sameconfig) one started
			// from the very same configuration - which is one that leaves the session keys to the gateway
			cfg2 := i.Cfg
			if s.Mut == "foreign" {
				cfg2.KeyOverride = map[string]string{"sess": "ANOTHER-SESSION-KEY-0123456789-ab", "sessenc": "ANOTHER-SESSENC-KEY-0123456789-a"}
			}
			j, err := i.R.NewInst(cfg2)
			if err != nil {
				return err
			}
			b2 := j.NewBrowser("", "")
			b2.LoginID = j.IdP.Register(loginFor("ok", user))
			h2, err := b2.Connect("", 6)
			u2, _ := url.Parse(j.BaseURL())
			for _, c := range b2.C.Jar.Cookies(u2) {
				if c.Name == "RDPGWSESSION" {
					mutated = c.Value
				}
			}
			j.Stop()
			if err != nil || h2[len(h2)-1].Status != 200 {
				return fmt.Errorf("login on the other instance failed")
			}
		}
		// whom the cookie is presented to: this gateway - or (foreign-sameconfig-later) a gateway started from the same
		// configuration AFTER this one issued the cookie
		target := i
		if s.Mut == "foreign-sameconfig-later" {
			j, err := i.R.NewInst(i.Cfg)
			if err != nil {
				return err
			}
			defer j.Stop()
			target = j
		}
		tu, _ := url.Parse(target.BaseURL())
		nb := target.NewBrowser("", "")
		nb.C.Jar.SetCookies(tu, []*http.Cookie{{Name: "RDPGWSESSION", Value: mutated, Path: "/"}})
		h, err := nb.Get(target.BaseURL() + "/connect")
		if err != nil {
			return err
		}
		authed := h.Status == 200 && strings.Contains(h.Body, "gatewayaccesstoken")
		same := false
		if authed {
			f, _ := ParseRDP(h.Body)
			same = f["username"] == user
		}
		tw.Line(M{"ev": "cookie", "script": s.ID, "cls": s.Mut, "store": store, "mut": s.Mut, "status": h.Status, "authed": authed, "sameUser": same, "changed": mutated != val})
	case "connect":
		return i.runConnect(s, tw, rng, store, user)
	case "burst":
		return i.runBurst(s, tw, rng, store)
	case "usertokx":
		// the running gateway (its keys come from its configuration file) is asked about user tokens made by the harness's
		// own writer: encrypted only / signed and encrypted, with the configured keys / with another signing key
		now := time.Now().Unix()
		for _, f := range []struct{ kind, mode, sigKey string }{{"enc-only", "enc", "none"}, {"signed-encrypted", "signenc", "gw"}, {"signed-other-key", "signenc", "other"}} {
			payload := forge.Claims(map[string]interface{}{"sub": "forged-user", "iss": "rdpgw", "exp": now + 300})
			sigAlg := "none"
			if f.mode == "signenc" {
				key := []byte(KeyUserSign)
				if f.sigKey == "other" {
					key = []byte("another-signing-key-0123456789ab")
				}
				payload = []byte(forge.JWS("HS256", key, `{"alg":"HS256"}`, payload))
				sigAlg = "HS256"
			}
			tok := forge.JWEDir([]byte(KeyUserEnc), forge.HdrJWE, payload, true)
			h, err := i.NewBrowser("", "").Get(i.BaseURL() + "/tokeninfo?access_token=" + url.QueryEscape(tok))
			if err != nil {
				return err
			}
			tw.Line(M{"ev": "usertokx", "script": s.ID, "cls": i.Cfg.UserTok + "." + f.kind, "store": store, "vm": i.Cfg.UserTok, "status": h.Status,
				"tok": userRec("jwe", f.mode, "gw", f.sigKey, sigAlg, "dir+A128CBC-HS256", "rdpgw", true, 300, "none")})
		}
	default:
		return fmt.Errorf("unknown kind %q", s.Kind)
	}
	return nil
}

func (i *Inst) runConnect(s *OiScript, tw *TraceWriter, rng *rand.Rand, store, user string) error {
	cfg := i.Cfg
	b := i.NewBrowser(s.PeerIP, s.XFF)
	var sessionAT string
	switch s.Session {
	case "unauth":
		if _, err := b.Get(i.BaseURL() + "/connect"); err != nil {
			return err
		}
	case "othermech":
		// the browser has authenticated at the GATEWAY endpoint with another enabled mechanism (basic credentials the
		// backend confirms) and keeps whatever cookie came back: that is not an OpenID login
		if i.Users["7"] != "" {
			b.GetWith(i.BaseURL()+"/remoteDesktopGateway/", [][2]string{{"Authorization", "Basic " + base64.StdEncoding.EncodeToString([]byte("7:"+i.Users["7"]))}})
			b.GetWith(i.BaseURL()+"/remoteDesktopGateway/", [][2]string{{"Authorization", "Basic " + base64.StdEncoding.EncodeToString([]byte("7:"+i.Users["7"]))}})
		}
	case "authed":
		l := loginFor("ok", user)
		lb := b
		if s.LoginXFF != "" {
			lb = i.NewBrowser("", s.LoginXFF)
		}
		lb.LoginID = i.IdP.Register(l)
		// log in with a request that certainly passes host selection problems by: plain /connect may fail with 400 after login, which is fine
		hops, err := lb.Connect("", 6)
		if err != nil {
			return err
		}
		_ = hops
		sessionAT = l.AccessToken
		lb.LoginID = ""
		if lb != b {
			// the session cookie moves with the client
			for _, base := range []string{"http://127.0.0.1", "https://127.0.0.1", "http://[::1]", "https://[::1]"} {
				u, _ := url.Parse(fmt.Sprintf("%s:%d/", base, i.P.Port))
				if cs := lb.C.Jar.Cookies(u); len(cs) > 0 {
					b.C.Jar.SetCookies(u, cs)
				}
			}
		}
	}
	// the host parameter
	now := time.Now().Unix()
	qtok := func(key []byte, iss, sub string, exp int64) string {
		return forge.JWS("HS256", key, forge.Header("HS256"), forge.Claims(map[string]interface{}{"iss": iss, "sub": sub, "exp": now + exp}))
	}
	entry := func(k int) string {
		if len(cfg.Hosts) == 0 {
			return ""
		}
		return i.Conc(cfg.Hosts[k%len(cfg.Hosts)])
	}
	param := []string{}
	var paramSym [][]string
	qOk, qSub := false, []string{}
	switch s.Param {
	case "absent":
	case "listed":
		param = []string{entry(0)}
		paramSym = [][]string{cfg.Hosts[0]}
	case "listed2":
		param = []string{entry(1)}
		paramSym = [][]string{cfg.Hosts[1%len(cfg.Hosts)]}
	case "near-otherport", "near-noport", "near-case", "near-supername":
		// near-misses of the first configured entry that name another endpoint (or the same one in a spelling the
		// policy does not list): same name with another port, the name alone, another letter case, a longer name
		e0 := cfg.Hosts[0]
		var ps []string
		colon := -1
		for k, x := range e0 {
			if x == ":" {
				colon = k
			}
		}
		switch {
		case s.Param == "near-otherport" && colon >= 0:
			ps = append(append([]string{}, e0[:colon+1]...), "PE")
		case s.Param == "near-noport" && colon >= 0:
			ps = append([]string{}, e0[:colon]...)
		case s.Param == "near-case":
			for _, x := range e0 {
				if x == "HL" {
					x = "HLU"
				}
				ps = append(ps, x)
			}
		case s.Param == "near-supername" && colon >= 0:
			ps = append(append(append([]string{}, e0[:colon]...), "0"), e0[colon:]...)
		default:
			ps = append([]string{}, e0...)
		}
		param = []string{i.Conc(ps)}
		paramSym = [][]string{ps}
	case "unlisted":
		param = []string{"10.66.66.66:3389"}
		paramSym = [][]string{{"10.66.66.66:3389"}}
	case "garbage":
		param = []string{"garbage-host:1"}
		paramSym = [][]string{{"garbage-host:1"}}
	case "qtok-ok":
		param = []string{qtok([]byte(KeyQuery), QueryIssuer, entry(0), 300)}
		qOk, qSub = true, cfg.Hosts[0]
		paramSym = [][]string{{"qtok"}}
	case "qtok-unlisted":
		param = []string{qtok([]byte(KeyQuery), QueryIssuer, "10.66.66.66:3389", 300)}
		qOk, qSub = true, []string{"10.66.66.66:3389"}
		paramSym = [][]string{{"qtok"}}
	case "qtok-near":
		// a validly signed query token whose subject is the first entry's name with another port
		e0 := cfg.Hosts[0]
		ps := append([]string{}, e0...)
		if n := len(ps); n >= 2 && ps[n-2] == ":" {
			ps[n-1] = "PE"
		} else {
			ps = append(ps, ":", "PE")
		}
		param = []string{qtok([]byte(KeyQuery), QueryIssuer, i.Conc(ps), 300)}
		qOk, qSub = true, ps
		paramSym = [][]string{{"qtok"}}
	case "qtok-forged":
		param = []string{qtok([]byte("some-other-query-key-0123456789ab"), QueryIssuer, entry(0), 300)}
		qOk, qSub = false, cfg.Hosts[0]
		paramSym = [][]string{{"qtok"}}
	case "qtok-expired":
		param = []string{qtok([]byte(KeyQuery), QueryIssuer, entry(0), -600)}
		qOk, qSub = false, cfg.Hosts[0]
		paramSym = [][]string{{"qtok"}}
	case "qtok-ageing":
		// a validly signed query token that expired 48 s ago is presented (whatever the answer: verifiers allow some clock
		// skew), and the SAME token again 15 s later, when it expired more than a minute ago: the answer to the second
		// presentation is that of an expired token (it depends on the token and the clock, not on the first answer)
		param = []string{qtok([]byte(KeyQuery), QueryIssuer, entry(0), -48)}
		if s.Session == "authed" {
			b.Get(i.BaseURL() + "/connect?host=" + url.QueryEscape(param[0]))
			time.Sleep(15 * time.Second)
		}
		qOk, qSub = false, cfg.Hosts[0]
		paramSym = [][]string{{"qtok"}}
	case "qtok-wrongiss":
		param = []string{qtok([]byte(KeyQuery), "someone-else", entry(0), 300)}
		qOk, qSub = false, cfg.Hosts[0]
		paramSym = [][]string{{"qtok"}}
	}
	if len(paramSym) == 1 && len(paramSym[0]) == 1 && paramSym[0][0] == "qtok" {
		i.Sym["qtok"] = param[0] // the symbol stands for this request's query token text
	}
	u := i.BaseURL() + "/connect"
	if len(param) > 0 {
		u += "?host=" + url.QueryEscape(param[0])
	}
	h, err := b.Get(u)
	if err != nil {
		return err
	}
	toIdp := h.Status == 302 && strings.HasPrefix(h.Location, i.IdP.URL+"/auth")
	hasToken := strings.Contains(h.Body, "gatewayaccesstoken")
	peer := s.PeerIP
	if peer == "" {
		peer = "127.0.0.1"
	}
	userSym := []string{user}
	hosts := cfg.Hosts
	if hosts == nil {
		hosts = [][]string{}
	}
	ev := M{"ev": "connect", "script": s.ID, "cls": cfg.Sel + "." + s.Session + "." + s.Param, "store": store, "session": s.Session, "sel": cfg.Sel, "hosts": hosts,
		"param": paramSymOrEmpty(paramSym), "qOk": qOk, "qSub": qSub, "user": userSym, "status": h.Status, "toIdp": toIdp, "hasToken": hasToken,
		"xff": xffList(s.XFF), "peer": addrRec(peer), "fileHost": []string{}, "claimHostIsFileHost": false, "claimUserOk": false, "claimAddr": "", "claimAtIsSession": false,
		"gatewayNamed": false, "replayed": false, "tunnelAccepted": false, "expIn": 0}
	if h.Status == 200 {
		f, _ := ParseRDP(h.Body)
		tok := f["gatewayaccesstoken"]
		claims, _ := forge.PayloadClaims(tok)
		hint := append([][]string{userSym}, cfg.Hosts...)
		hint = append(hint, paramSym...)
		ev["fileHost"] = i.Abs(f["full address"], hint)
		wantUser := user
		if cfg.Split {
			wantUser = strings.SplitN(user, "@", 2)[0]
		}
		wantDomain := ""
		if cfg.Split {
			if p := strings.SplitN(user, "@", 2); len(p) == 2 {
				wantDomain = p[1]
			}
		}
		domainOk := f["domain"] == wantDomain
		ev["claimHostIsFileHost"] = fmt.Sprint(claims["remoteServer"]) == f["full address"]
		// the login name written into the file may be rendered from a template; the token's subject is the session's
		// user name itself
		wantFileUser := wantUser
		if cfg.Template != "" {
			wantFileUser = strings.ReplaceAll(cfg.Template, "{{ username }}", wantUser)
		}
		ev["claimUserOk"] = fmt.Sprint(claims["sub"]) == wantUser && (cfg.NoUser || f["username"] == wantFileUser || strings.Contains(cfg.Template, "{{ token }}")) && (cfg.NoUser || domainOk)
		ev["claimAddr"] = fmt.Sprint(claims["clientIp"])
		ev["claimAtIsSession"] = fmt.Sprint(claims["accessToken"]) == sessionAT && sessionAT != ""
		gwHost := strings.TrimPrefix(strings.TrimPrefix(i.BaseURL(), "http://"), "https://")
		ev["gatewayNamed"] = f["gatewayhostname"] == gwHost
		if v, ok := claims["exp"].(float64); ok {
			ev["expIn"] = int(int64(v) - time.Now().Unix())
		}
		if _, _, e := net.SplitHostPort(f["full address"]); s.Replay && e == nil {
			// present the file's host and token, unmodified, from the same address
			// (only a host:port address can be presented in a channel-create request)
			ev["replayed"] = true
			ev["tunnelAccepted"] = i.replayFile(f["full address"], tok, s.PeerIP, s.XFF)
		}
	}
	tw.Line(ev)
	return nil
}

func paramSymOrEmpty(p [][]string) [][]string {
	if p == nil {
		return [][]string{}
	}
	return p
}

// replayFile runs handshake..channel-create with the file's host and token.
func (i *Inst) replayFile(fullAddress, tok, peerIP, xff string) bool {
	t, _, err := i.Open(OpenOpts{Transport: "ws", LocalIP: peerIP, XFF: xff})
	if err != nil || t == nil {
		return false
	}
	defer t.Close()
	ok := func(r Reaction, e error) bool { return e == nil && len(r.Resps) == 1 && r.Resps[0].Status == 0 }
	if !ok(t.Step(tsgu.Handshake(1, 0, 0, 2))) {
		return false
	}
	if !ok(t.Step(tsgu.TunnelCreate(2, tok, true))) {
		return false
	}
	if !ok(t.Step(tsgu.TunnelAuth("c"))) {
		return false
	}
	host, port := fullAddress, 3389
	if k := strings.LastIndex(fullAddress, ":"); k > 0 {
		host = fullAddress[:k]
		fmt.Sscanf(fullAddress[k+1:], "%d", &port)
	}
	host = strings.TrimSuffix(strings.TrimPrefix(host, "["), "]")
	r, e := t.Step(tsgu.ChannelCreate(host, uint16(port)))
	// accepted by the gateway's own checks = a connection attempt was made (the host itself may be down)
	return e == nil && len(r.Dials) == 1
}


// runBurst: several logged-in sessions (different users, hosts and client addresses) download at the same time; every
// file must name its own session's user and host and carry its own session's claims.
func (i *Inst) runBurst(s *OiScript, tw *TraceWriter, rng *rand.Rand, store string) error {
	cfg := i.Cfg
	type sess struct {
		b     *Browser
		user  string
		at    string
		host  []string
		xff   string
		param string
	}
	users := []string{"alice@corp.example", "bob", "carol@lab.example", "dave", "erin@corp.example", "frank"}
	var ss []*sess
	for k, u := range users {
		x := &sess{user: u, xff: fmt.Sprintf("10.7.%d.%d", k, k+1)}
		x.b = i.NewBrowser("", x.xff)
		l := loginFor("ok", u)
		x.b.LoginID = i.IdP.Register(l)
		x.host = cfg.Hosts[k%len(cfg.Hosts)]
		x.param = url.QueryEscape(i.Conc(x.host))
		hops, err := x.b.Connect("host="+x.param, 6)
		if err != nil || len(hops) == 0 || hops[len(hops)-1].Status != 200 {
			return fmt.Errorf("burst: login of %s failed", u)
		}
		x.at = l.AccessToken
		x.b.LoginID = ""
		ss = append(ss, x)
	}
	rounds := 25
	type res struct {
		k    int
		body string
		st   int
	}
	out := make(chan res, len(ss)*rounds)
	var wg sync.WaitGroup
	for k, x := range ss {
		wg.Add(1)
		go func(k int, x *sess) {
			defer wg.Done()
			for r := 0; r < rounds; r++ {
				h, err := x.b.Get(i.BaseURL() + "/connect?host=" + x.param)
				if err != nil {
					out <- res{k, "", -1}
					continue
				}
				out <- res{k, h.Body, h.Status}
			}
		}(k, x)
	}
	wg.Wait()
	close(out)
	hosts := cfg.Hosts
	for r := range out {
		x := ss[r.k]
		wantUser := x.user
		wantDomain := ""
		if cfg.Split {
			if p := strings.SplitN(x.user, "@", 2); len(p) == 2 {
				wantUser, wantDomain = p[0], p[1]
			}
		}
		ev := M{"ev": "connect", "script": s.ID, "cls": cfg.Sel + ".authed.burst", "store": store, "session": "authed", "sel": cfg.Sel, "hosts": hosts,
			"param": [][]string{x.host}, "qOk": false, "qSub": []string{}, "user": []string{x.user}, "status": r.st, "toIdp": false, "hasToken": strings.Contains(r.body, "gatewayaccesstoken"),
			"xff": xffList(x.xff), "peer": addrRec("127.0.0.1"), "fileHost": []string{}, "claimHostIsFileHost": false, "claimUserOk": false, "claimAddr": "", "claimAtIsSession": false,
			"gatewayNamed": false, "replayed": false, "tunnelAccepted": false, "expIn": 0}
		if r.st == 200 {
			f, _ := ParseRDP(r.body)
			claims, _ := forge.PayloadClaims(f["gatewayaccesstoken"])
			ev["fileHost"] = i.Abs(f["full address"], append([][]string{{x.user}}, cfg.Hosts...))
			ev["claimHostIsFileHost"] = fmt.Sprint(claims["remoteServer"]) == f["full address"]
			fileUser := f["username"]
			ev["userTok"], ev["userTokSubOK"] = false, true
			if cfg.UserTok != "" && strings.Contains(cfg.Template, "{{ token }}") {
				// the login name is rendered as name::token: the token in THIS file is one minted for THIS file's user
				if p := strings.SplitN(f["username"], "::", 2); len(p) == 2 {
					fileUser = p[0]
					ev["userTok"] = true
					h, err := i.NewBrowser("", "").Get(i.BaseURL() + "/tokeninfo?access_token=" + url.QueryEscape(p[1]))
					sub := ""
					if err == nil && h.Status == 200 {
						var m map[string]interface{}
						if json.Unmarshal([]byte(h.Body), &m) == nil {
							sub = fmt.Sprint(m["sub"])
						}
					}
					ev["userTokSubOK"] = sub == wantUser
				} else {
					ev["userTokSubOK"] = false
				}
			}
			ev["claimUserOk"] = fmt.Sprint(claims["sub"]) == wantUser && fileUser == wantUser && f["domain"] == wantDomain
			ev["claimAddr"] = fmt.Sprint(claims["clientIp"])
			ev["claimAtIsSession"] = fmt.Sprint(claims["accessToken"]) == x.at
			gwHost := strings.TrimPrefix(strings.TrimPrefix(i.BaseURL(), "http://"), "https://")
			ev["gatewayNamed"] = f["gatewayhostname"] == gwHost
			if v, ok := claims["exp"].(float64); ok {
				ev["expIn"] = int(int64(v) - time.Now().Unix())
			}
		}
		tw.Line(ev)
	}
	return nil
}

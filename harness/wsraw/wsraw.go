// Package wsraw holds minimal raw clients for the two rdpgw transports:
// an RFC 6455 websocket client with full control over frames and TCP writes,
// and the legacy RDG_OUT_DATA / RDG_IN_DATA pair with explicit HTTP chunk
// boundaries.
package wsraw

import (
	"bufio"
	"crypto/rand"
	"crypto/tls"
	"encoding/base64"
	"encoding/binary"
	"errors"
	"fmt"
	"io"
	"net"
	"net/textproto"
	"strconv"
	"strings"
	"time"

	"github.com/m7913d/go-ntlm/ntlm"
)

type DialOpts struct {
	Addr      string // host:port of the gateway
	LocalIP   string // source address to bind ("" = default)
	TLS       bool
	Path      string // default /remoteDesktopGateway/
	ConnID    string
	Headers   [][2]string // extra request headers in order
	Timeout   time.Duration
	Method    string // default RDG_OUT_DATA
	NoUpgrade bool   // do not send the websocket upgrade headers
	NTLM      *NTLMCreds // run the NTLM negotiate/challenge round trip first, on the same connection
}

// NTLMCreds are used for the two-step NTLM exchange in front of a request.
type NTLMCreds struct {
	User, Pass string
	Scheme     string // "NTLM" (default) or "Negotiate"
}

type HTTPReply struct {
	Status  int
	Proto   string
	Headers textproto.MIMEHeader
}

func dialTCP(o DialOpts) (net.Conn, error) {
	d := net.Dialer{Timeout: 5 * time.Second}
	if o.LocalIP != "" {
		d.LocalAddr = &net.TCPAddr{IP: net.ParseIP(o.LocalIP)}
	}
	c, err := d.Dial("tcp", o.Addr)
	if err != nil {
		return nil, err
	}
	if tc, ok := c.(*net.TCPConn); ok {
		tc.SetNoDelay(true)
	}
	if o.TLS {
		tc := tls.Client(c, &tls.Config{InsecureSkipVerify: true})
		if err := tc.Handshake(); err != nil {
			c.Close()
			return nil, err
		}
		return tc, nil
	}
	return c, nil
}

func readReply(br *bufio.Reader) (*HTTPReply, error) {
	tp := textproto.NewReader(br)
	line, err := tp.ReadLine()
	if err != nil {
		return nil, err
	}
	parts := strings.SplitN(line, " ", 3)
	if len(parts) < 2 {
		return nil, fmt.Errorf("bad status line %q", line)
	}
	var st int
	fmt.Sscanf(parts[1], "%d", &st)
	h, err := tp.ReadMIMEHeader()
	if err != nil && len(h) == 0 {
		return &HTTPReply{Status: st, Proto: parts[0], Headers: h}, err
	}
	return &HTTPReply{Status: st, Proto: parts[0], Headers: h}, nil
}

// ---------------------------------------------------------------- websocket

type WS struct {
	C   net.Conn
	br  *bufio.Reader
	Raw net.Conn // underlying TCP connection (same as C without TLS)
}

// DialWS performs the upgrade. When the server does not answer 101 the reply is
// returned together with a nil *WS.
func DialWS(o DialOpts) (*WS, *HTTPReply, error) {
	c, err := dialTCP(o)
	if err != nil {
		return nil, nil, err
	}
	if o.Path == "" {
		o.Path = "/remoteDesktopGateway/"
	}
	if o.Method == "" {
		o.Method = "RDG_OUT_DATA"
	}
	key := make([]byte, 16)
	rand.Read(key)
	var sb strings.Builder
	fmt.Fprintf(&sb, "%s %s HTTP/1.1\r\nHost: %s\r\n", o.Method, o.Path, o.Addr)
	if !o.NoUpgrade {
		fmt.Fprintf(&sb, "Connection: Upgrade\r\nUpgrade: websocket\r\nSec-WebSocket-Version: 13\r\nSec-WebSocket-Key: %s\r\n", base64.StdEncoding.EncodeToString(key))
	}
	if o.ConnID != "" {
		fmt.Fprintf(&sb, "Rdg-Connection-Id: %s\r\n", o.ConnID)
	}
	for _, h := range o.Headers {
		fmt.Fprintf(&sb, "%s: %s\r\n", h[0], h[1])
	}
	br := bufio.NewReaderSize(c, 1<<16)
	if o.NTLM != nil {
		authz, rep, err := NTLMPrelude(c, br, o, o.Method)
		if err != nil || authz == "" {
			c.Close()
			return nil, rep, err
		}
		fmt.Fprintf(&sb, "Authorization: %s\r\n", authz)
	}
	sb.WriteString("\r\n")
	to := o.Timeout
	if to == 0 {
		to = 10 * time.Second
	}
	c.SetDeadline(time.Now().Add(to))
	if _, err := c.Write([]byte(sb.String())); err != nil {
		c.Close()
		return nil, nil, err
	}
	rep, err := readReply(br)
	c.SetDeadline(time.Time{})
	if err != nil {
		c.Close()
		return nil, rep, err
	}
	if rep.Status != 101 {
		// leave the connection to the caller? simpler: close it.
		c.Close()
		return nil, rep, nil
	}
	return &WS{C: c, br: br, Raw: c}, rep, nil
}

// Frame builds one masked client frame.
func Frame(opcode byte, fin bool, payload []byte) []byte {
	var b []byte
	b0 := opcode & 0x0f
	if fin {
		b0 |= 0x80
	}
	b = append(b, b0)
	n := len(payload)
	switch {
	case n < 126:
		b = append(b, 0x80|byte(n))
	case n < 65536:
		b = append(b, 0x80|126, byte(n>>8), byte(n))
	default:
		b = append(b, 0x80|127)
		l := make([]byte, 8)
		binary.BigEndian.PutUint64(l, uint64(n))
		b = append(b, l...)
	}
	mask := make([]byte, 4)
	rand.Read(mask)
	b = append(b, mask...)
	for i, x := range payload {
		b = append(b, x^mask[i%4])
	}
	return b
}

// WriteBinary sends one binary message in one frame and one TCP write.
func (w *WS) WriteBinary(p []byte) error {
	_, err := w.C.Write(Frame(2, true, p))
	return err
}

// WriteFragmented sends one binary message as len(parts) frames (first binary,
// rest continuation).
func (w *WS) WriteFragmented(parts [][]byte) error {
	var all []byte
	for i, p := range parts {
		op := byte(0)
		if i == 0 {
			op = 2
		}
		all = append(all, Frame(op, i == len(parts)-1, p)...)
	}
	_, err := w.C.Write(all)
	return err
}

func (w *WS) WriteRawFrame(opcode byte, fin bool, p []byte) error {
	_, err := w.C.Write(Frame(opcode, fin, p))
	return err
}

var ErrTimeout = errors.New("timeout")

// ReadMessage returns the next data message (continuations reassembled).
// Control frames: ping is answered, close returns io.EOF with code in payload.
func (w *WS) ReadMessage(timeout time.Duration) (opcode byte, payload []byte, err error) {
	if timeout > 0 {
		w.C.SetReadDeadline(time.Now().Add(timeout))
		defer w.C.SetReadDeadline(time.Time{})
	}
	var msg []byte
	var mop byte
	for {
		h := make([]byte, 2)
		if _, err = io.ReadFull(w.br, h); err != nil {
			return 0, nil, mapErr(err)
		}
		fin := h[0]&0x80 != 0
		op := h[0] & 0x0f
		masked := h[1]&0x80 != 0
		n := uint64(h[1] & 0x7f)
		if n == 126 {
			l := make([]byte, 2)
			if _, err = io.ReadFull(w.br, l); err != nil {
				return 0, nil, mapErr(err)
			}
			n = uint64(binary.BigEndian.Uint16(l))
		} else if n == 127 {
			l := make([]byte, 8)
			if _, err = io.ReadFull(w.br, l); err != nil {
				return 0, nil, mapErr(err)
			}
			n = binary.BigEndian.Uint64(l)
		}
		var mask []byte
		if masked {
			mask = make([]byte, 4)
			if _, err = io.ReadFull(w.br, mask); err != nil {
				return 0, nil, mapErr(err)
			}
		}
		if n > 1<<26 {
			return 0, nil, fmt.Errorf("frame too large %d", n)
		}
		p := make([]byte, n)
		if _, err = io.ReadFull(w.br, p); err != nil {
			return 0, nil, mapErr(err)
		}
		if masked {
			for i := range p {
				p[i] ^= mask[i%4]
			}
		}
		switch op {
		case 8:
			return 8, p, io.EOF
		case 9:
			w.C.Write(Frame(10, true, p))
			continue
		case 10:
			continue
		case 0:
			msg = append(msg, p...)
		default:
			mop = op
			msg = append([]byte{}, p...)
		}
		if fin {
			return mop, msg, nil
		}
	}
}

func mapErr(err error) error {
	var ne net.Error
	if errors.As(err, &ne) && ne.Timeout() {
		return ErrTimeout
	}
	return err
}

func (w *WS) Close() error { return w.C.Close() }

// Reset aborts the TCP connection with an RST.
func (w *WS) Reset() error { return resetConn(w.C) }

func resetConn(c net.Conn) error {
	if t, ok := c.(*tls.Conn); ok {
		c = t.NetConn()
	}
	if tc, ok := c.(*net.TCPConn); ok {
		tc.SetLinger(0)
	}
	return c.Close()
}

// ------------------------------------------------------------------- legacy

type LegacyOut struct {
	C    net.Conn
	br   *bufio.Reader
	Seed []byte
}

type LegacyIn struct {
	C  net.Conn
	br *bufio.Reader
}

func sendRequest(o DialOpts, method string, chunked bool) (net.Conn, *bufio.Reader, *HTTPReply, error) {
	c, err := dialTCP(o)
	if err != nil {
		return nil, nil, nil, err
	}
	if o.Path == "" {
		o.Path = "/remoteDesktopGateway/"
	}
	var sb strings.Builder
	fmt.Fprintf(&sb, "%s %s HTTP/1.1\r\nHost: %s\r\n", method, o.Path, o.Addr)
	if o.ConnID != "" {
		fmt.Fprintf(&sb, "Rdg-Connection-Id: %s\r\n", o.ConnID)
	}
	for _, h := range o.Headers {
		fmt.Fprintf(&sb, "%s: %s\r\n", h[0], h[1])
	}
	if chunked {
		sb.WriteString("Transfer-Encoding: chunked\r\n")
	}
	br := bufio.NewReaderSize(c, 1<<16)
	if o.NTLM != nil {
		authz, rep, err := NTLMPrelude(c, br, o, method)
		if err != nil || authz == "" {
			c.Close()
			if err == nil {
				st := 0
				if rep != nil {
					st = rep.Status
				}
				err = fmt.Errorf("the NTLM negotiate message was answered with status %d and no challenge", st)
			}
			return nil, nil, rep, err
		}
		fmt.Fprintf(&sb, "Authorization: %s\r\n", authz)
	}
	sb.WriteString("\r\n")
	to := o.Timeout
	if to == 0 {
		to = 10 * time.Second
	}
	c.SetDeadline(time.Now().Add(to))
	if _, err := c.Write([]byte(sb.String())); err != nil {
		c.Close()
		return nil, nil, nil, err
	}
	rep, err := readReply(br)
	c.SetDeadline(time.Time{})
	if err != nil {
		c.Close()
		return nil, nil, rep, err
	}
	return c, br, rep, nil
}

// DialLegacyOut opens the server->client channel and consumes the 10-byte seed.
func DialLegacyOut(o DialOpts) (*LegacyOut, *HTTPReply, error) {
	c, br, rep, err := sendRequest(o, "RDG_OUT_DATA", false)
	if err != nil {
		return nil, rep, err
	}
	if rep.Status != 200 {
		c.Close()
		return nil, rep, nil
	}
	seed := make([]byte, 10)
	c.SetReadDeadline(time.Now().Add(5 * time.Second))
	if _, err := io.ReadFull(br, seed); err != nil {
		c.Close()
		return nil, rep, fmt.Errorf("seed: %w", err)
	}
	c.SetReadDeadline(time.Time{})
	return &LegacyOut{C: c, br: br, Seed: seed}, rep, nil
}

// DialLegacyIn opens the client->server channel (chunked request body).
func DialLegacyIn(o DialOpts) (*LegacyIn, *HTTPReply, error) {
	c, br, rep, err := sendRequest(o, "RDG_IN_DATA", true)
	if err != nil {
		return nil, rep, err
	}
	if rep.Status != 200 {
		c.Close()
		return nil, rep, nil
	}
	return &LegacyIn{C: c, br: br}, rep, nil
}

// Chunk renders one HTTP chunk.
func Chunk(p []byte) []byte {
	b := []byte(fmt.Sprintf("%x\r\n", len(p)))
	b = append(b, p...)
	return append(b, '\r', '\n')
}

// WriteChunk sends one chunk in one TCP write.
func (l *LegacyIn) WriteChunk(p []byte) error {
	_, err := l.C.Write(Chunk(p))
	return err
}

// WriteRaw sends bytes as they are (caller controls chunk framing).
func (l *LegacyIn) WriteRaw(p []byte) error {
	_, err := l.C.Write(p)
	return err
}

func (l *LegacyIn) Close() error { return l.C.Close() }
func (l *LegacyIn) Reset() error { return resetConn(l.C) }

// ReadPacket reads one MS-TSGU packet from the OUT stream using the header's
// length field.
func (l *LegacyOut) ReadPacket(timeout time.Duration) ([]byte, error) {
	if timeout > 0 {
		l.C.SetReadDeadline(time.Now().Add(timeout))
		defer l.C.SetReadDeadline(time.Time{})
	}
	h := make([]byte, 8)
	if _, err := io.ReadFull(l.br, h); err != nil {
		return nil, mapErr(err)
	}
	n := binary.LittleEndian.Uint32(h[4:])
	if n < 8 || n > 1<<24 {
		return h, fmt.Errorf("unframeable server stream: length field %d", n)
	}
	p := make([]byte, n)
	copy(p, h)
	if _, err := io.ReadFull(l.br, p[8:]); err != nil {
		return p, mapErr(err)
	}
	return p, nil
}

// ReadSome reads whatever is available (used to detect EOF).
func (l *LegacyOut) ReadSome(timeout time.Duration) ([]byte, error) {
	l.C.SetReadDeadline(time.Now().Add(timeout))
	defer l.C.SetReadDeadline(time.Time{})
	b := make([]byte, 65536)
	n, err := l.br.Read(b)
	return b[:n], mapErr(err)
}

func (l *LegacyOut) Close() error { return l.C.Close() }
func (l *LegacyOut) Reset() error { return resetConn(l.C) }

// WaitEOF waits until the peer closes the connection (EOF or reset) and
// reports how: "eof", "rst", "timeout" or "data".
func WaitEOF(c net.Conn, br *bufio.Reader, timeout time.Duration) string {
	c.SetReadDeadline(time.Now().Add(timeout))
	defer c.SetReadDeadline(time.Time{})
	b := make([]byte, 4096)
	for {
		var err error
		if br != nil {
			_, err = br.Read(b)
		} else {
			_, err = c.Read(b)
		}
		if err == nil {
			continue
		}
		if err == io.EOF {
			return "eof"
		}
		var ne net.Error
		if errors.As(err, &ne) && ne.Timeout() {
			return "timeout"
		}
		return "rst"
	}
}

func (w *WS) WaitEOF(timeout time.Duration) string   { return WaitEOF(w.C, w.br, timeout) }
func (l *LegacyOut) WaitEOF(t time.Duration) string   { return WaitEOF(l.C, l.br, t) }
func (l *LegacyIn) WaitEOF(t time.Duration) string    { return WaitEOF(l.C, l.br, t) }


// ReadBody consumes the body of a reply that carries Content-Length.
func ReadBody(br *bufio.Reader, rep *HTTPReply) ([]byte, error) {
	n, _ := strconv.Atoi(rep.Headers.Get("Content-Length"))
	if n <= 0 {
		return nil, nil
	}
	b := make([]byte, n)
	_, err := io.ReadFull(br, b)
	return b, err
}

// NTLMPrelude sends the negotiate message on c, reads the 401 challenge and
// returns the Authorization header value carrying the authenticate message.
// An empty value with a reply means the server did not challenge.
func NTLMPrelude(c net.Conn, br *bufio.Reader, o DialOpts, method string) (string, *HTTPReply, error) {
	scheme := o.NTLM.Scheme
	if scheme == "" {
		scheme = "NTLM"
	}
	cl := &ntlm.V2ClientSession{}
	cl.SetUserInfo(o.NTLM.User, o.NTLM.Pass, "")
	neg, err := cl.GenerateNegotiateMessage()
	if err != nil {
		return "", nil, err
	}
	path := o.Path
	if path == "" {
		path = "/remoteDesktopGateway/"
	}
	var sb strings.Builder
	fmt.Fprintf(&sb, "%s %s HTTP/1.1\r\nHost: %s\r\nContent-Length: 0\r\n", method, path, o.Addr)
	if o.ConnID != "" {
		fmt.Fprintf(&sb, "Rdg-Connection-Id: %s\r\n", o.ConnID)
	}
	for _, h := range o.Headers {
		fmt.Fprintf(&sb, "%s: %s\r\n", h[0], h[1])
	}
	fmt.Fprintf(&sb, "Authorization: %s %s\r\n\r\n", scheme, base64.StdEncoding.EncodeToString(neg.Bytes()))
	c.SetDeadline(time.Now().Add(10 * time.Second))
	defer c.SetDeadline(time.Time{})
	if _, err := c.Write([]byte(sb.String())); err != nil {
		return "", nil, err
	}
	rep, err := readReply(br)
	if err != nil {
		return "", rep, err
	}
	if _, err := ReadBody(br, rep); err != nil {
		return "", rep, err
	}
	if rep.Status != 401 {
		return "", rep, nil
	}
	var chal string
	for _, v := range rep.Headers.Values("Www-Authenticate") {
		if strings.HasPrefix(v, scheme+" ") {
			chal = strings.TrimPrefix(v, scheme+" ")
		}
	}
	if chal == "" {
		return "", rep, nil
	}
	cb, err := base64.StdEncoding.DecodeString(chal)
	if err != nil {
		return "", rep, err
	}
	cm, err := ntlm.ParseChallengeMessage(cb)
	if err != nil {
		return "", rep, err
	}
	if err := cl.ProcessChallengeMessage(cm); err != nil {
		return "", rep, err
	}
	am, err := cl.GenerateAuthenticateMessage()
	if err != nil {
		return "", rep, err
	}
	return scheme + " " + base64.StdEncoding.EncodeToString(am.Bytes()), rep, nil
}

SPECIFICATION Spec
CONSTANTS
  T = {"t1", "t2"}
  Legacy = {"t2"}
  MaxWrites = 1
  Serialised = FALSE
INVARIANTS WriteMutex RegistryMutex FramesWhole ClientGetsOwnData HostGetsOwnData PairingByConnectionId RegistryTracksServing
CHECK_DEADLOCK FALSE

SPECIFICATION Spec
CONSTANTS
  Alphabet = {"SP", "COL", "k", "i", "1", "-", "HASH"}
  MaxLen = 2
INVARIANTS RoundTrip RoundTripOne NonIntegerRejected MissingFieldRejected CommentSkipped
CHECK_DEADLOCK FALSE

SPECIFICATION Spec
CONSTANTS
  LockedSteps = {"Unregister"} Transport = "ws" ClosesReplaced = TRUE
INVARIANTS NothingBeforeTheEnd GaugeNeverNegative
PROPERTIES EndingReleasesEverything
CHECK_DEADLOCK FALSE

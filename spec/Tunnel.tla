-------------------------------- MODULE Tunnel --------------------------------
(* One MS-TSGU tunnel of rdpgw (Processor.Process, cmd/rdpgw/protocol).        *)
(*                                                                             *)
(* The gateway handles one framed client packet per step.  What it may do with *)
(* packet p in phase ph is the set Reactions(c, ph, nd, p) of outcome records  *)
(* that satisfy every named guard G_<property>_<name>.  The system            *)
(* specification (Spec) picks any allowed outcome; the trace specification     *)
(* (TunnelTrace) evaluates the same guards on outcomes observed on the real    *)
(* gateway, so a step of the implementation outside the envelope is reported   *)
(* with the name of the guard - and hence the property - it breaks.            *)
(*                                                                             *)
(* Packets carry the verdicts of the other modules as attributes:             *)
(*   cookieGood  = Tokens!Accept of the presented cookie        (C02)          *)
(*   hostAllowed = Policy!Allowed /\ Policy!AddrBound for the host (C03, C04)  *)
(*   caps        = the client's extended-auth bits              (C17)          *)
EXTENDS TSGU, TLC

CONSTANTS
  Configs,   \* set of [tokenAuth : BOOLEAN, smartCard : BOOLEAN]
  CapsVals,  \* client capability values explored by the model
  BodyCls,   \* body classes: "valid" plus malformed ones ("trunc", "long")
  MaxSend    \* bound on client packets per tunnel

Phases == {"init", "hs", "created", "authorized", "channel", "opened", "ended"}
Pre(k)  == CASE k = "hs" -> "init" [] k = "create" -> "hs" [] k = "auth" -> "created"
             [] k = "chan" -> "authorized" [] k = "close" -> "opened"
Post(k) == CASE k = "hs" -> "hs" [] k = "create" -> "created" [] k = "auth" -> "authorized"
             [] k = "chan" -> "channel" [] k = "close" -> "ended"

Pkts == [k : {"hs"}, cls : BodyCls, caps : CapsVals]
   \cup [k : {"create"}, cls : BodyCls, cookieGood : BOOLEAN]
   \cup [k : {"auth"}, cls : BodyCls]
   \cup [k : {"chan"}, cls : BodyCls, hostAllowed : {"yes", "no", "free"}, reach : BOOLEAN]   \* reach: something listens at the requested address (environment)
   \cup [k : {"data", "keepalive", "close", "other"}, cls : {"valid"}]

RespCls == {"none", "ok", "mismatch", "cookie", "rap", "err"}
\* resp: class of the (single) response written; dial: a connection attempt was
\* made; conn: it succeeded; fwd: payload was written to the host; end: the
\* packet loop ended (tunnel over)
Outcomes == [resp : RespCls, dial : BOOLEAN, conn : BOOLEAN, fwd : BOOLEAN, end : BOOLEAN]
Nothing  == [resp |-> "none", dial |-> FALSE, conn |-> FALSE, fwd |-> FALSE, end |-> TRUE]

InOrder(ph, p) == /\ p.k \in Steps
                  /\ (ph = Pre(p.k) \/ (p.k = "close" /\ ph = "channel"))
Valid(p) == p.cls = "valid"
SCaps(c) == ServerCaps(c.tokenAuth, c.smartCard)

-------------------------------------------------------------------------------
\* Guards.  (c: configuration, ph: phase before, nd: dials so far, p: packet, o: outcome)

\* C01: a success response only for the step that is next in order
G_C01_SuccessInOrder(c, ph, nd, p, o) == o.resp = "ok" => InOrder(ph, p)
\* C01: a connection is attempted only for channel creation on an authorised tunnel, once
G_C01_DialGate(c, ph, nd, p, o) == o.dial => (p.k = "chan" /\ ph = "authorized" /\ nd = 0)
\* C01: payload reaches a host only once the channel is created
G_C01_FwdGate(c, ph, nd, p, o) == o.fwd => (p.k = "data" /\ ph \in {"channel", "opened"})
\* C01: an out-of-order step ends the tunnel (with an error reply or silently)
G_C01_OutOfOrderEnds(c, ph, nd, p, o) ==
  /\ (p.k \in Steps /\ ~InOrder(ph, p)) => (o.end /\ o.resp # "ok")
  /\ (p.k = "data" /\ ph \notin {"channel", "opened"}) => o.end
\* C01: an error response ends the tunnel, and so does an answered close
G_C01_ErrorEnds(c, ph, nd, p, o) == (o.resp \notin {"none", "ok"} \/ (p.k = "close" /\ o.resp = "ok")) => o.end
\* C01: after the end nothing is answered, relayed or connected
G_C01_SilentAfterEnd(c, ph, nd, p, o) == ph = "ended" => o = Nothing
\* C01: data and keep-alive before the channel exists end the tunnel or are dropped, never answered
G_C01_NoReplyToData(c, ph, nd, p, o) == p.k \in {"data", "keepalive", "other"} => o.resp = "none"

\* C01: a channel request for a host that policy rejects is not a completed channel creation: no connection, no success
G_C01_RejectedHostNoConnection(c, ph, nd, p, o) == (p.k = "chan" /\ p.hostAllowed = "no") => (~o.dial /\ o.resp # "ok")

\* C17: handshake succeeds iff capabilities match; failure is CAPABILITYMISMATCH and ends
G_C17_MatchIff(c, ph, nd, p, o) ==
  (p.k = "hs" /\ ph = "init" /\ Valid(p)) =>
     /\ (o.resp = "ok") <=> Match(SCaps(c), p.caps)
     /\ (o.resp # "ok") => (o.resp = "mismatch" /\ o.end)

\* C02: under token authentication tunnel creation succeeds iff the cookie is acceptable;
\* refusal is COOKIE_AUTHENTICATION_ACCESS_DENIED
G_C02_CookieIff(c, ph, nd, p, o) ==
  (p.k = "create" /\ ph = "hs" /\ c.tokenAuth) =>
     /\ (o.resp = "ok") <=> p.cookieGood
     /\ (o.resp # "ok") => (o.resp = "cookie" /\ o.end)
\* without token authentication an in-order, well-formed create is accepted
G_C16_CreateAccepted(c, ph, nd, p, o) ==
  (p.k = "create" /\ ph = "hs" /\ ~c.tokenAuth /\ Valid(p)) => o.resp = "ok"

\* C16: tunnel authorisation in order is accepted
G_C16_AuthAccepted(c, ph, nd, p, o) == (p.k = "auth" /\ ph = "created" /\ Valid(p)) => o.resp = "ok"

\* C03/C04: a connection is attempted iff policy allows the requested host for this
\* tunnel; refusal is RAP_ACCESSDENIED and nothing is dialled
G_C03_DialIffAllowed(c, ph, nd, p, o) ==
  (p.k = "chan" /\ ph = "authorized" /\ Valid(p)) =>
     /\ p.hostAllowed = "yes" => o.dial
     /\ p.hostAllowed = "no" => ~o.dial
     /\ ~o.dial => (o.resp = "rap" /\ o.end)
\* a malformed channel request may be refused, but is never dialled unless allowed
G_C03_MalformedNotDialled(c, ph, nd, p, o) ==
  (p.k = "chan" /\ ~Valid(p) /\ o.dial) => p.hostAllowed # "no"

\* C16: status 0 iff accepted - a channel response is success iff the host was connected
G_C16_ChannelTruth(c, ph, nd, p, o) ==
  /\ o.conn => o.dial
  /\ (p.k = "chan" /\ o.dial) => (o.conn <=> p.reach)
  /\ p.k = "chan" => ((o.resp = "ok") <=> o.conn)
  /\ (o.dial /\ ~o.conn) => o.end

\* C06: payload of an in-order data packet is forwarded
G_C06_DataForwarded(c, ph, nd, p, o) ==
  (p.k = "data" /\ ph \in {"channel", "opened"} /\ Valid(p)) => (o.fwd /\ ~o.end)
\* keep-alives and unknown packets on an open channel do not disturb it
G_C06_KeepaliveHarmless(c, ph, nd, p, o) ==
  (p.k = "keepalive" /\ ph \in {"channel", "opened"}) => ~o.end
\* C01/C11: close on an open channel is answered and ends the tunnel
G_C11_CloseAnswered(c, ph, nd, p, o) == (p.k = "close" /\ ph = "opened") => (o.resp = "ok" /\ o.end)

\* C16: status 0 means the step was accepted - the tunnel goes on (only an answered close ends it)
G_C16_AcceptedStepContinues(c, ph, nd, p, o) == (o.resp = "ok" /\ p.k # "close") => ~o.end

\* pinned codes are used only for their own condition (C16)
G_C16_CodesTruthful(c, ph, nd, p, o) ==
  /\ o.resp = "mismatch" => p.k = "hs"
  /\ o.resp = "cookie" => p.k = "create"
  /\ o.resp = "rap" => p.k = "chan"
  /\ o.resp # "none" => RespType(p.k) # 0

\* C16: each kind of refusal is reported by its own MS-TSGU status code (implied by the C17 / C02 / C03 guards above;
\* stated again so that a wrong code is reported against C16 as well)
G_C16_PinnedCodes(c, ph, nd, p, o) ==
  /\ (p.k = "hs" /\ ph = "init" /\ Valid(p) /\ ~Match(SCaps(c), p.caps)) => o.resp = "mismatch"
  /\ (p.k = "create" /\ ph = "hs" /\ c.tokenAuth /\ ~p.cookieGood) => o.resp = "cookie"
  /\ (p.k = "chan" /\ ph = "authorized" /\ Valid(p) /\ p.hostAllowed = "no") => o.resp = "rap"

GuardNames == {"G_C01_SuccessInOrder", "G_C01_DialGate", "G_C01_FwdGate", "G_C01_OutOfOrderEnds",
  "G_C01_ErrorEnds", "G_C01_SilentAfterEnd", "G_C01_NoReplyToData", "G_C17_MatchIff", "G_C02_CookieIff",
  "G_C16_CreateAccepted", "G_C16_AuthAccepted", "G_C03_DialIffAllowed", "G_C03_MalformedNotDialled",
  "G_C16_ChannelTruth", "G_C06_DataForwarded", "G_C06_KeepaliveHarmless", "G_C11_CloseAnswered",
  "G_C16_CodesTruthful", "G_C16_AcceptedStepContinues", "G_C16_PinnedCodes", "G_C01_RejectedHostNoConnection"}

\* Off: guards switched off (used only by the guard-necessity self-test)
CONSTANT Off

Holds(g, c, ph, nd, p, o) ==
  \/ g \in Off
  \/ CASE g = "G_C01_SuccessInOrder"     -> G_C01_SuccessInOrder(c, ph, nd, p, o)
       [] g = "G_C01_DialGate"            -> G_C01_DialGate(c, ph, nd, p, o)
       [] g = "G_C01_FwdGate"             -> G_C01_FwdGate(c, ph, nd, p, o)
       [] g = "G_C01_OutOfOrderEnds"      -> G_C01_OutOfOrderEnds(c, ph, nd, p, o)
       [] g = "G_C01_ErrorEnds"           -> G_C01_ErrorEnds(c, ph, nd, p, o)
       [] g = "G_C01_SilentAfterEnd"      -> G_C01_SilentAfterEnd(c, ph, nd, p, o)
       [] g = "G_C01_NoReplyToData"       -> G_C01_NoReplyToData(c, ph, nd, p, o)
       [] g = "G_C17_MatchIff"            -> G_C17_MatchIff(c, ph, nd, p, o)
       [] g = "G_C02_CookieIff"           -> G_C02_CookieIff(c, ph, nd, p, o)
       [] g = "G_C16_CreateAccepted"      -> G_C16_CreateAccepted(c, ph, nd, p, o)
       [] g = "G_C16_AuthAccepted"        -> G_C16_AuthAccepted(c, ph, nd, p, o)
       [] g = "G_C03_DialIffAllowed"      -> G_C03_DialIffAllowed(c, ph, nd, p, o)
       [] g = "G_C03_MalformedNotDialled" -> G_C03_MalformedNotDialled(c, ph, nd, p, o)
       [] g = "G_C16_ChannelTruth"        -> G_C16_ChannelTruth(c, ph, nd, p, o)
       [] g = "G_C06_DataForwarded"       -> G_C06_DataForwarded(c, ph, nd, p, o)
       [] g = "G_C06_KeepaliveHarmless"   -> G_C06_KeepaliveHarmless(c, ph, nd, p, o)
       [] g = "G_C11_CloseAnswered"       -> G_C11_CloseAnswered(c, ph, nd, p, o)
       [] g = "G_C16_CodesTruthful"       -> G_C16_CodesTruthful(c, ph, nd, p, o)
       [] g = "G_C16_AcceptedStepContinues" -> G_C16_AcceptedStepContinues(c, ph, nd, p, o)
       [] g = "G_C16_PinnedCodes"         -> G_C16_PinnedCodes(c, ph, nd, p, o)
       [] g = "G_C01_RejectedHostNoConnection" -> G_C01_RejectedHostNoConnection(c, ph, nd, p, o)

Violated(c, ph, nd, p, o) == {g \in GuardNames : ~Holds(g, c, ph, nd, p, o)}
Reactions(c, ph, nd, p)   == {o \in Outcomes : \A g \in GuardNames : Holds(g, c, ph, nd, p, o)}
\* the envelope as a table over the model's finite packet set (evaluated once by TLC)
ReactTable == [c \in Configs, ph \in Phases, n \in 0..1, p \in Pkts |-> Reactions(c, ph, n, p)]

\* phase after an outcome (an observation function: it does not consult the guards)
NextPhase(ph, p, o) == IF ph = "ended" \/ o.end THEN "ended"
                       ELSE IF o.resp = "ok" /\ p.k \in Steps THEN Post(p.k)
                       ELSE IF o.fwd THEN "opened"
                       ELSE ph

-------------------------------------------------------------------------------
VARIABLES
  cfg,    \* configuration of this run (fixed in Init)
  phase,  \* protocol phase
  nd,     \* connection attempts so far
  oks,    \* kinds of the steps answered with success so far, in order (history summary)
  tokOk,  \* the create that was answered with success carried an acceptable cookie
  last    \* the last handled packet with its outcome and the summary *before* it

vars == <<cfg, phase, nd, oks, tokOk, last>>
NoLast == [p |-> [k |-> "none", cls |-> "valid"], o |-> Nothing, ph |-> "init", nd |-> 0, oks |-> <<>>, tokOk |-> FALSE]

Init == /\ cfg \in Configs
        /\ phase = "init" /\ nd = 0 /\ oks = <<>> /\ tokOk = FALSE /\ last = NoLast

\* the client sends p and the gateway handles it (lock-step); unbounded histories
Handle(p) ==
  /\ \E o \in ReactTable[cfg, phase, IF nd > 1 THEN 1 ELSE nd, p] :
       /\ phase' = NextPhase(phase, p, o)
       /\ nd' = nd + (IF o.dial THEN 1 ELSE 0)
       /\ oks' = IF o.resp = "ok" THEN Append(oks, p.k) ELSE oks
       /\ tokOk' = IF o.resp = "ok" /\ p.k = "create" THEN p.cookieGood ELSE tokOk
       /\ last' = [p |-> p, o |-> o, ph |-> phase, nd |-> nd, oks |-> oks, tokOk |-> tokOk]
  /\ UNCHANGED cfg

Next == \E p \in Pkts : Handle(p)
Spec == Init /\ [][Next]_vars

\* bound used only when a guard is switched off (necessity self-test)
Bounded == Len(oks) <= MaxSend /\ nd <= MaxSend

-------------------------------------------------------------------------------
\* The properties, stated on the last step and the history summary before it.
\* None of them mentions a guard; phase is maintained by NextPhase, which only
\* reads observations.
DialsIn(ph) == IF ph \in {"channel", "opened"} THEN {1} ELSE IF ph = "ended" THEN {0, 1} ELSE {0}
EnvelopeTotal == \A c \in Configs, ph \in Phases, p \in Pkts : \A n \in DialsIn(ph) : ReactTable[c, ph, n, p] # {}

TypeOK == phase \in Phases /\ nd \in Nat /\ last.o \in Outcomes

L == last
\* C01
H_C01_AtMostOneDial == nd <= 1
H_C01_DialAfterAuthorisation ==
  L.o.dial => /\ L.p.k = "chan"
              /\ L.oks = <<"hs", "create", "auth">>
              /\ (cfg.tokenAuth => L.tokOk)
              /\ L.nd = 0
H_C01_RelayAfterChannel ==
  L.o.fwd => (L.p.k = "data" /\ Len(L.oks) >= 4 /\ SubSeq(L.oks, 1, 4) = <<"hs", "create", "auth", "chan">> /\ L.nd = 1)
H_C01_SuccessOnlyInOrder == L.o.resp = "ok" => InOrder(L.ph, L.p)
H_C01_OksInOrder == \A i \in 1..Len(oks) : i <= 5 /\ oks[i] = <<"hs", "create", "auth", "chan", "close">>[i]
H_C01_OutOfOrderNeverSucceeds ==
  (L.p.k \in Steps /\ ~InOrder(L.ph, L.p)) => (L.o.resp # "ok" /\ phase = "ended")
H_C01_ErrorOrCloseEnds ==
  (L.o.resp \notin {"none", "ok"} \/ (L.p.k = "close" /\ L.o.resp = "ok")) => phase = "ended"
H_C01_SilentAfterEnd == L.ph = "ended" => (L.o = Nothing /\ phase = "ended")
\* C02
H_C02_CookieNeeded == (cfg.tokenAuth /\ Len(oks) >= 2) => tokOk
H_C02_RefusalCode ==
  (cfg.tokenAuth /\ L.p.k = "create" /\ L.ph = "hs" /\ ~L.p.cookieGood) => L.o.resp = "cookie"
\* C03 / C04
H_C03_OnlyAllowedDialled == L.o.dial => (L.p.k = "chan" /\ L.p.hostAllowed # "no")
H_C03_DeniedCode ==
  (L.p.k = "chan" /\ Valid(L.p) /\ L.ph = "authorized" /\ L.p.hostAllowed = "no") => (L.o.resp = "rap" /\ ~L.o.dial)
\* C17
H_C17_Handshake ==
  (L.p.k = "hs" /\ Valid(L.p) /\ L.ph = "init") =>
     /\ (L.o.resp = "ok") <=> Match(SCaps(cfg), L.p.caps)
     /\ (L.o.resp # "ok") => (L.o.resp = "mismatch" /\ phase = "ended")
H_C17_NoMechanismNoEntry ==
  (cfg.tokenAuth /\ L.p.k = "hs" /\ Valid(L.p) /\ L.p.caps = 0) => L.o.resp # "ok"
\* C16
H_C16_StatusTruth == L.p.k = "chan" => ((L.o.resp = "ok") <=> L.o.conn)
=============================================================================

#!/usr/bin/env python3
"""seedrun.py [seed-dir-name ...] [--checks C01,C02] [--tier quick]

Applies each seeded change (seeded/<name>/patch.diff) to /repo, runs the checks
recorded for it in its meta.json (or --checks) and undoes the change again.  The
latest outcome per check is written back to meta.json under "checks_latest" and
a table is printed.  /repo must be clean; it is restored whatever happens."""
import json, os, subprocess, sys, time

VERIF = os.path.dirname(os.path.dirname(os.path.abspath(__file__)))
REPO = os.environ.get("VERIF_REPO", "/repo")


def sh(cmd, **kw):
    return subprocess.run(cmd, stdout=subprocess.PIPE, stderr=subprocess.STDOUT, text=True, **kw)


def main():
    args = [a for a in sys.argv[1:] if not a.startswith("--")]
    opts = {a.split("=")[0]: (a.split("=") + [""])[1] for a in sys.argv[1:] if a.startswith("--")}
    tier = opts.get("--tier", "quick")
    seeds = args or sorted(d for d in os.listdir(os.path.join(VERIF, "seeded")) if os.path.isfile(os.path.join(VERIF, "seeded", d, "patch.diff")))
    if sh(["git", "-C", REPO, "status", "--short"]).stdout.strip():
        print("/repo is not clean")
        return 2
    rows = []
    # the evidence files describe the UNCHANGED tree: whatever the checks write while a seed is applied is thrown away
    import shutil, tempfile
    evbak = tempfile.mkdtemp(prefix="evidence-bak-")
    shutil.copytree(os.path.join(VERIF, "evidence"), os.path.join(evbak, "evidence"))
    try:
        return run_all(seeds, opts, tier, rows)
    finally:
        shutil.rmtree(os.path.join(VERIF, "evidence"), ignore_errors=True)
        shutil.copytree(os.path.join(evbak, "evidence"), os.path.join(VERIF, "evidence"))
        shutil.rmtree(evbak, ignore_errors=True)


def run_all(seeds, opts, tier, rows):
    for name in seeds:
        d = os.path.join(VERIF, "seeded", name)
        mp = os.path.join(d, "meta.json")
        meta = json.load(open(mp)) if os.path.exists(mp) else {"name": name}
        checks = opts.get("--checks", "").split(",") if opts.get("--checks") else sorted(set([meta.get("property")] + list(meta.get("checks_run", {}).keys())) - {None})
        if "--own" in opts:
            checks = [meta.get("property") or name[:3]]
        r = sh(["git", "-C", REPO, "apply", os.path.join(d, "patch.diff")])
        if r.returncode != 0:
            print(name, "patch does not apply:", r.stdout[-300:])
            continue
        latest = meta.setdefault("checks_latest", {})
        try:
            for c in checks:
                t0 = time.time()
                p = sh([os.path.join(VERIF, "bin", "check"), c, "--tier", tier], cwd=VERIF)
                sigs = sorted({l.split("[")[-1].rstrip("]") for l in p.stdout.splitlines() if l.startswith("  ") and "[" in l})
                latest[c] = {"exit": p.returncode, "tier": tier, "signatures": sigs[:8], "wall_s": round(time.time() - t0, 1)}
                rows.append((name, c, p.returncode, sigs[:2]))
                print("%-36s %s rc=%d %s" % (name, c, p.returncode, " ".join(sigs[:2])), flush=True)
                if p.returncode == 2:
                    open(os.path.join(d, "check_%s_latest.txt" % c), "w").write(p.stdout[-6000:])
        finally:
            sh(["git", "-C", REPO, "checkout", "--", "."])
            sh(["git", "-C", REPO, "clean", "-fdq", "--", "cmd", "shared"])   # files a seed added
        json.dump(meta, open(mp, "w"), indent=1)
    left = sh(["git", "-C", REPO, "status", "--short"]).stdout.strip()
    if left:
        print("WARNING: /repo not clean after the run:", left)
    missed = [(n, c) for n, c, rc, _ in rows if rc == 0 and c == json.load(open(os.path.join(VERIF, "seeded", n, "meta.json"))).get("property")]
    print("missed by their own property's check:", missed)
    return 0


if __name__ == "__main__":
    sys.exit(main())

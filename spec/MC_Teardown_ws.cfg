SPECIFICATION Spec
CONSTANTS
  LockedSteps = {} Transport = "ws"
INVARIANTS NothingBeforeTheEnd GaugeNeverNegative
PROPERTIES EndingReleasesEverything ReleasedIsStable
CHECK_DEADLOCK FALSE

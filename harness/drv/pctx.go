package drv

import (
	"fmt"
	"math/rand"
	"strconv"
	"strings"
	"time"

	"verifharness/forge"
	"verifharness/tsgu"
	"verifharness/wsraw"
)

// ProtoCtx holds what is needed to concretise the packets of one tunnel.
type ProtoCtx struct {
	I        *Inst
	S        Script
	Cfg      ScriptCfg
	CC       *cookieCtx
	Rng      *rand.Rand
	User     string
	UserSyms []string
	PeerIP   string
	minted   bool
	// ageing cookie: made when the tunnel's connection is opened, 46 s past its expiry (inside the one-minute leeway),
	// presented later on that same connection
	ageCookie string
	ageAt     string
	ageMade   time.Time
}

// PrepareAgeing forges the ageing cookie (call right before the connection is opened).
func (pc *ProtoCtx) PrepareAgeing() error {
	if pc.I.IdP == nil {
		return nil
	}
	if err := pc.EnsureMint(); err != nil {
		return err
	}
	m := map[string]interface{}{}
	for k, v := range pc.CC.claims {
		m[k] = v
	}
	pc.ageAt = pc.I.IdP.Issue(fmt.Sprint(pc.CC.claims["sub"]))
	pc.ageMade = time.Now()
	m["accessToken"] = pc.ageAt
	m["exp"] = pc.ageMade.Unix() - 46
	pc.ageCookie = forge.JWS("HS256", []byte(KeyPAASign), forge.Header("HS256"), forge.Claims(m))
	return nil
}

func (i *Inst) NewProtoCtx(s Script, rng *rand.Rand) *ProtoCtx {
	pc := &ProtoCtx{I: i, S: s, Cfg: s.Cfg, CC: &cookieCtx{}, Rng: rng, User: s.Tun.User, UserSyms: []string{}}
	if pc.User != "" {
		pc.UserSyms = []string{pc.User}
	}
	pc.PeerIP = s.Tun.UseIP
	if pc.PeerIP == "" {
		pc.PeerIP = "127.0.0.1"
	}
	return pc
}

// OpenOpts returns how the tunnel of this script is opened.
func (pc *ProtoCtx) OpenOpts() OpenOpts {
	s, i, user := pc.S, pc.I, pc.User
	oo := OpenOpts{Transport: s.Transport, LocalIP: s.Tun.UseIP, XFF: s.Tun.UseXFF, OutElsewhere: s.Tun.OutElsewhere, OutLocalIP: s.Tun.OutIP, OutXFF: s.Tun.OutXFF}
	if s.Transport == "ws" {
		oo.Cid = s.Tun.Cid
	}
	switch pc.Cfg.Auth {
	case "ntlm":
		oo.NTLM = &wsraw.NTLMCreds{User: user, Pass: i.Users[user]}
	case "local":
		oo.Basic = user + ":" + i.Users[user]
	}
	return oo
}

// EnsureMint obtains the tunnel's access cookie through the real /connect flow (once).
func (pc *ProtoCtx) EnsureMint() error {
	i, s, cfg, cc, user := pc.I, pc.S, pc.Cfg, pc.CC, pc.User
	if pc.minted || !(cfg.Auth == "openid" || cfg.Auth == "") || !cfg.TokenAuth {
		return nil
	}
	pc.minted = true
	hostParam := ""
	if cfg.Sel == "unsigned" {
		hostParam = i.Conc(s.Tun.Entry)
	} else if cfg.Sel == "any" {
		hostParam = i.Conc(append(append([]string{}, s.Tun.HostName...), ":", s.Tun.HostPort))
	}
	if cfg.Sel == "signed" {
		now := time.Now().Unix()
		hostParam = forge.JWS("HS256", []byte(KeyQuery), forge.Header("HS256"),
			forge.Claims(map[string]interface{}{"iss": QueryIssuer, "sub": i.Conc(s.Tun.Entry), "exp": now + 300}))
	}
	login := s.Tun.Login
	if login == "" {
		login = user
	}
	var tok, at string
	var err error
	if s.Tun.LoginGroup != "" {
		tok, _, at, err = i.MintInGroup(s.Tun.LoginGroup, user, login, hostParam, s.Tun.MintIP, s.Tun.MintXFF)
	} else {
		tok, _, at, err = i.MintAs(user, login, hostParam, s.Tun.MintIP, s.Tun.MintXFF)
	}
	if err != nil {
		return fmt.Errorf("mint: %w", err)
	}
	cc.good, cc.at = tok, at
	cc.goodTok, cc.claims = i.describeMinted(tok, at)
	if cc.claims == nil {
		return fmt.Errorf("minted token does not decode: %q", tok)
	}
	return nil
}

// Build concretises one abstract step into packet bytes and returns the
// abstract description logged for it.
func (pc *ProtoCtx) Build(st map[string]interface{}) ([]byte, M, error) {
	i, s, cfg, cc, rng, userSyms, user, peerIP := pc.I, pc.S, pc.Cfg, pc.CC, pc.Rng, pc.UserSyms, pc.User, pc.PeerIP
	ensureMint := pc.EnsureMint
	_, _, _, _ = s, user, peerIP, strings.TrimSpace
	_ = time.Now
	_ = forge.B64
	k := str(st, "k", "other")
	cls := str(st, "cls", "valid")
	lp := M{"k": k, "cls": cls}
	var pkt []byte
	switch k {
	case "hs":
		caps := num(st, "caps", 0)
		major, minor := num(st, "major", 1), num(st, "minor", 0)
		pkt = tsgu.Handshake(byte(major), byte(minor), uint16(num(st, "version", 0)), uint16(caps))
		lp["caps"], lp["major"], lp["minor"] = caps, major, minor
		if cls == "trunc" {
			pkt = tsgu.Packet(tsgu.PktHandshakeRequest, pkt[8:8+rng.Intn(6)])
		} else if cls == "long" {
			pkt = tsgu.Packet(tsgu.PktHandshakeRequest, append(pkt[8:], make([]byte, 1+rng.Intn(40))...))
			cls = "valid" // trailing bytes after a complete body: the fields are all there
			lp["cls"] = "valid"
		}
	case "create":
		ck := str(st, "cookie", "none")
		lp["hascookie"] = ck != "none"
		lp["tok"] = tokRec("none", "none", "other", "missing", false, 0, false, 0, "unknown", "none")
		var cookie string
		switch {
		case ck == "none":
			pkt = tsgu.TunnelCreate(0x2, "", false)
		case ck == "ageing":
			if pc.ageCookie == "" {
				return nil, nil, fmt.Errorf("ageing cookie was not prepared")
			}
			cookie = pc.ageCookie
			lp["tok"] = tokRec("compact", "HS256", "gw", "rdpgw", true, -46-int(time.Since(pc.ageMade)/time.Second), false, 0, i.IdP.State(pc.ageAt), "none")
			lp["kind"] = "ageing"
			pkt = tsgu.TunnelCreate(0x2, cookie, true)
		case ck == "good":
			if err := ensureMint(); err != nil {
				return nil, nil, err
			}
			if cc.good == "" {
				// no token authentication in this configuration: present some string
				cookie = "no-token-mode"
				lp["tok"] = tokRec("garbage", "none", "other", "missing", false, 0, false, 0, "unknown", "none")
			} else {
				cookie = cc.good
				// refresh the age of the description
				d, _ := i.describeMinted(cc.good, cc.at)
				lp["tok"] = d
			}
			pkt = tsgu.TunnelCreate(0x2, cookie, true)
		default:
			if err := ensureMint(); err != nil {
				return nil, nil, err
			}
			kind := strings.TrimPrefix(ck, "bad:")
			if kind == "bad" || kind == "" {
				kind = BadCookieKinds[rng.Intn(len(BadCookieKinds))]
			}
			if cc.claims == nil {
				cc.claims = map[string]interface{}{"iss": "rdpgw", "sub": user, "remoteServer": "127.0.0.1:1", "clientIp": "127.0.0.1"}
			}
			if i.IdP == nil {
				cookie = "forged-" + kind
				lp["tok"] = tokRec("garbage", "none", "other", "missing", false, 0, false, 0, "unknown", "none")
			} else {
				var d M
				cookie, d = i.Forge(kind, cc, rng)
				lp["tok"] = d
				lp["kind"] = kind
			}
			pkt = tsgu.TunnelCreate(0x2, cookie, true)
		}
		if cls == "trunc" {
			body := pkt[8:]
			pkt = tsgu.Packet(tsgu.PktTunnelCreate, body[:rng.Intn(8)])
			lp["hascookie"] = false
		} else if cls == "short" && ck != "none" {
			// the cookie field announces the length of the whole cookie, but the packet ends before it (no cookie bytes at
			// all, or the first half): what the gateway judges is what the packet carried, never what it announced
			u := tsgu.UTF16LE(cookie)
			cut := 0
			if rng.Intn(2) == 0 {
				cut = (len(u) / 4) * 2
			}
			pkt = tsgu.TunnelCreateRaw(0x2, 0x1, uint16(len(u)), u[:cut])
			if t, ok := lp["tok"].(M); ok {
				t["mut"] = "trunc"
			}
		} else if cls == "wide" && ck != "none" {
			// the same characters with a non-zero high byte in one, a few or all of the code units (U+0100+c ... U+7F00+c):
			// another string, however its low bytes read
			u := tsgu.UTF16LE(cookie)
			n := len(u) / 2
			switch rng.Intn(3) {
			case 0:
				u[2*rng.Intn(n)+1] = byte(1 + rng.Intn(0x7f))
			case 1:
				for k := 0; k < 5; k++ {
					u[2*rng.Intn(n)+1] = byte(1 + rng.Intn(0x7f))
				}
			default:
				hb := byte(1 + rng.Intn(0x7f))
				for k := 0; k < n; k++ {
					u[2*k+1] = hb
				}
			}
			pkt = tsgu.TunnelCreateRaw(0x2, 0x1, uint16(len(u)), u)
			if t, ok := lp["tok"].(M); ok {
				t["mut"] = "wide"
			}
		} else if cls == "long" && ck != "none" {
			u := tsgu.UTF16LE(cookie)
			// the declared cookie is longer than what is carried: the gateway sees the string followed by k NUL units.
			// One NUL is the terminator of a null-terminated wire string - the same cookie in another encoding
			// (either verdict is allowed); two or more make it a different string
			k := 2 + rng.Intn(99)
			if rng.Intn(4) == 0 {
				k = 1
			}
			pkt = tsgu.TunnelCreateRaw(0x2, 0x1, uint16(len(u)+2*k), u)
			if ck == "good" {
				if k == 1 {
					lp["tok"].(M)["mut"] = "neutral"
				} else {
					lp["tok"].(M)["mut"] = "trunc"
				}
			}
		}
	case "auth":
		pkt = tsgu.TunnelAuth(str(st, "client", "verif-client"))
		if cls == "trunc" {
			pkt = tsgu.Packet(tsgu.PktTunnelAuth, pkt[8:8+rng.Intn(2)])
		}
	case "chan":
		name := syms(st, "name")
		port := str(st, "port", "PA")
		cname := i.Conc(name)
		cport, _ := strconv.Atoi(i.Conc([]string{port}))
		nb := tsgu.UTF16LE(cname)
		switch cls {
		case "valid":
			pkt = tsgu.ChannelCreateRaw(1, 0, uint16(cport), 3, uint16(len(nb)), nb)
		case "trunc":
			full := tsgu.ChannelCreateRaw(1, 0, uint16(cport), 3, uint16(len(nb)), nb)
			pkt = tsgu.Packet(tsgu.PktChannelCreate, full[8:8+rng.Intn(8)])
		case "long":
			pkt = tsgu.ChannelCreateRaw(1, 0, uint16(cport), 3, uint16(len(nb)+2+2*rng.Intn(50)), nb)
		case "alt":
			// the requested name plus alternate resource names: only the requested one may be connected to
			var alts []string
			if v, ok := st["alts"].([]interface{}); ok {
				for _, a := range v {
					var sy []string
					if l, ok := a.([]interface{}); ok {
						for _, x := range l {
							sy = append(sy, fmt.Sprint(x))
						}
					}
					alts = append(alts, i.Conc(sy))
				}
			}
			pkt = tsgu.ChannelCreateAlt(cname, alts, uint16(cport))
			cls = "valid"
			lp["cls"] = "valid"
			lp["alts"] = len(alts)
		case "odd":
			pkt = tsgu.ChannelCreateRaw(1, 0, uint16(cport), 3, uint16(len(nb)+1), append(nb, 0x41))
		}
		tokHost := []string{}
		tokAddr := addrRec("")
		if cc.claims != nil {
			if rs, ok := cc.claims["remoteServer"].(string); ok {
				tokHost = i.Abs(rs, append([][]string{name, {port}, userSyms}, cfg.Hosts...))
			}
			if ca, ok := cc.claims["clientIp"].(string); ok {
				tokAddr = addrRec(ca)
			}
		}
		hosts := cfg.Hosts
		if hosts == nil {
			hosts = [][]string{}
		}
		lp["reach"] = false // replaced by the observed result of the attempt in the trace specification
		lp["pol"] = M{"tokenAuth": cfg.TokenAuth, "sel": cfg.Sel, "hosts": hosts, "user": userSyms, "name": name, "port": port,
			"tokHost": tokHost, "verifyIp": cfg.VerifyIp, "tokAddr": tokAddr, "xff": xffList(s.Tun.UseXFF), "peer": addrRec(peerIP)}
	case "data":
		n := num(st, "n", 16)
		payload := make([]byte, n)
		rng.Read(payload)
		pkt = tsgu.Data(uint16(n), payload)
	case "keepalive":
		pkt = tsgu.Keepalive()
	case "close":
		pkt = tsgu.CloseChannel(0)
	default:
		pt := num(st, "pt", 0x7f)
		body := make([]byte, rng.Intn(24))
		rng.Read(body)
		pkt = tsgu.Packet(uint16(pt), body)
		lp["pt"] = pt
	}
	return pkt, lp, nil
}

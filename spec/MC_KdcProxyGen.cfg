INIT Init
NEXT Stutter
CONSTANTS
  KDCs = {"k1", "k2"}
  Deadline = 1
CHECK_DEADLOCK FALSE

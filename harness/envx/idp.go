// Package envx holds the environment the gateway runs against: a fake OpenID
// provider, loopback backends standing in for remote desktop hosts, fake KDCs.
package envx

import (
	"crypto"
	"crypto/rand"
	"crypto/rsa"
	"crypto/sha256"
	"encoding/base64"
	"encoding/json"
	"fmt"
	"math/big"
	"net"
	"net/http"
	"net/url"
	"strings"
	"sync"
	"time"
)

// IdP is a minimal OpenID provider. Its behaviour per login and per access
// token is driven by switchboards so every failure point of the callback and
// of the userinfo check can be produced deterministically.
type IdP struct {
	URL      string
	ClientID string
	Secret   string

	ln   net.Listener
	srv  *http.Server
	key  *rsa.PrivateKey
	bad  *rsa.PrivateKey // a key that is NOT published
	mu   sync.Mutex
	seq  int
	code map[string]*Login // code -> login
	tok  map[string]*TokState
	// NextLogin is consumed by the next /auth request that names no login.
	NextLogin *Login
	logins    map[string]*Login // behaviours registered under an id (verif_login=<id>)
	UserinfoCalls []string // access tokens presented to /userinfo
	Down bool // userinfo answers 500
}

// Login describes what the IdP does for one authorization.
type Login struct {
	Claims      map[string]interface{} // extra ID-token claims (preferred_username …)
	Sub         string
	RefuseCode  bool   // token endpoint answers 400
	NoIDToken   bool   // token response lacks id_token
	BadSig      bool   // ID token signed with an unpublished key
	Issuer      string // override issuer
	Audience    string // override audience
	ExpiredID   bool   // exp in the past
	ExpiredBy   time.Duration // when set with ExpiredID: how long ago the token expired (default: ten minutes)
	AccessToken string // filled in
}

type TokState struct {
	Sub   string
	State string // "valid" | "revoked" | "error"
}

func b64(b []byte) string { return base64.RawURLEncoding.EncodeToString(b) }

func NewIdP() (*IdP, error) {
	k, err := rsa.GenerateKey(rand.Reader, 2048)
	if err != nil {
		return nil, err
	}
	k2, err := rsa.GenerateKey(rand.Reader, 2048)
	if err != nil {
		return nil, err
	}
	ln, err := net.Listen("tcp", "127.0.0.1:0")
	if err != nil {
		return nil, err
	}
	p := &IdP{ln: ln, key: k, bad: k2, ClientID: "rdpgw-client", Secret: "s3cret", code: map[string]*Login{}, tok: map[string]*TokState{}, logins: map[string]*Login{}}
	p.URL = "http://" + ln.Addr().String()
	mux := http.NewServeMux()
	mux.HandleFunc("/.well-known/openid-configuration", p.discovery)
	mux.HandleFunc("/keys", p.keys)
	mux.HandleFunc("/auth", p.auth)
	mux.HandleFunc("/token", p.token)
	mux.HandleFunc("/userinfo", p.userinfo)
	p.srv = &http.Server{Handler: mux}
	go p.srv.Serve(ln)
	return p, nil
}

func (p *IdP) Close() { p.srv.Close() }

func (p *IdP) discovery(w http.ResponseWriter, r *http.Request) {
	json.NewEncoder(w).Encode(map[string]interface{}{
		"issuer":                                p.URL,
		"authorization_endpoint":                p.URL + "/auth",
		"token_endpoint":                        p.URL + "/token",
		"jwks_uri":                              p.URL + "/keys",
		"userinfo_endpoint":                     p.URL + "/userinfo",
		"id_token_signing_alg_values_supported": []string{"RS256"},
	})
}

func (p *IdP) keys(w http.ResponseWriter, r *http.Request) {
	json.NewEncoder(w).Encode(map[string]interface{}{
		"keys": []map[string]string{{
			"kty": "RSA", "alg": "RS256", "use": "sig", "kid": "k1",
			"n": b64(p.key.N.Bytes()),
			"e": b64(big.NewInt(int64(p.key.E)).Bytes()),
		}},
	})
}

// auth: the "user" is already logged in at the IdP; bounce straight back.
func (p *IdP) auth(w http.ResponseWriter, r *http.Request) {
	q := r.URL.Query()
	p.mu.Lock()
	var l *Login
	if id := q.Get("verif_login"); id != "" {
		l = p.logins[id]
		delete(p.logins, id)
	} else {
		l = p.NextLogin
		p.NextLogin = nil
	}
	if l == nil {
		l = &Login{Sub: "user1", Claims: map[string]interface{}{"preferred_username": "user1"}}
	}
	p.seq++
	code := fmt.Sprintf("code-%d", p.seq)
	p.code[code] = l
	p.mu.Unlock()
	u, err := url.Parse(q.Get("redirect_uri"))
	if err != nil {
		http.Error(w, "bad redirect", 400)
		return
	}
	v := u.Query()
	v.Set("code", code)
	v.Set("state", q.Get("state"))
	u.RawQuery = v.Encode()
	http.Redirect(w, r, u.String(), http.StatusFound)
}

func (p *IdP) sign(k *rsa.PrivateKey, claims map[string]interface{}) string {
	h, _ := json.Marshal(map[string]string{"alg": "RS256", "kid": "k1", "typ": "JWT"})
	c, _ := json.Marshal(claims)
	in := b64(h) + "." + b64(c)
	d := sha256.Sum256([]byte(in))
	s, _ := rsa.SignPKCS1v15(rand.Reader, k, crypto.SHA256, d[:])
	return in + "." + b64(s)
}

func (p *IdP) token(w http.ResponseWriter, r *http.Request) {
	r.ParseForm()
	code := r.Form.Get("code")
	p.mu.Lock()
	l := p.code[code]
	delete(p.code, code)
	p.mu.Unlock()
	if l == nil || l.RefuseCode {
		w.Header().Set("Content-Type", "application/json")
		w.WriteHeader(400)
		w.Write([]byte(`{"error":"invalid_grant"}`))
		return
	}
	p.mu.Lock()
	p.seq++
	at := fmt.Sprintf("at-%d-%s", p.seq, b64(randBytes(9)))
	l.AccessToken = at
	p.tok[at] = &TokState{Sub: l.Sub, State: "valid"}
	p.mu.Unlock()
	now := time.Now()
	claims := map[string]interface{}{
		"iss": p.URL, "aud": p.ClientID, "sub": l.Sub,
		"iat": now.Unix(), "exp": now.Add(10 * time.Minute).Unix(),
	}
	if l.Issuer != "" {
		claims["iss"] = l.Issuer
	}
	switch l.Audience {
	case "":
	case "<absent>":
		delete(claims, "aud") // no audience claim at all
	case "<empty-list>":
		claims["aud"] = []string{}
	case "<list-with-client>":
		claims["aud"] = []string{"some-other-client", p.ClientID} // legal: the client is among several audiences
	default:
		claims["aud"] = l.Audience
	}
	if l.ExpiredID {
		by := l.ExpiredBy
		if by == 0 {
			by = 10 * time.Minute
		}
		claims["exp"] = now.Add(-by).Unix()
		claims["iat"] = now.Add(-by - 10*time.Minute).Unix()
	}
	for k, v := range l.Claims {
		claims[k] = v
	}
	k := p.key
	if l.BadSig {
		k = p.bad
	}
	resp := map[string]interface{}{"access_token": at, "token_type": "Bearer", "expires_in": 600}
	if !l.NoIDToken {
		resp["id_token"] = p.sign(k, claims)
	}
	w.Header().Set("Content-Type", "application/json")
	json.NewEncoder(w).Encode(resp)
}

func randBytes(n int) []byte {
	b := make([]byte, n)
	rand.Read(b)
	return b
}

func (p *IdP) userinfo(w http.ResponseWriter, r *http.Request) {
	at := strings.TrimPrefix(r.Header.Get("Authorization"), "Bearer ")
	p.mu.Lock()
	p.UserinfoCalls = append(p.UserinfoCalls, at)
	st := p.tok[at]
	down := p.Down
	p.mu.Unlock()
	if down || (st != nil && st.State == "error") {
		http.Error(w, "internal error", 500)
		return
	}
	if st == nil || st.State != "valid" {
		w.Header().Set("WWW-Authenticate", `Bearer error="invalid_token"`)
		http.Error(w, "invalid token", 401)
		return
	}
	w.Header().Set("Content-Type", "application/json")
	json.NewEncoder(w).Encode(map[string]interface{}{"sub": st.Sub, "preferred_username": st.Sub})
}

// Register stores a login behaviour and returns the id to pass as verif_login.
func (p *IdP) Register(l *Login) string {
	p.mu.Lock()
	defer p.mu.Unlock()
	p.seq++
	id := fmt.Sprintf("L%d", p.seq)
	p.logins[id] = l
	return id
}

// State reports how the IdP treats an access token ("unknown" if never issued).
func (p *IdP) State(at string) string {
	p.mu.Lock()
	defer p.mu.Unlock()
	if t, ok := p.tok[at]; ok {
		return t.State
	}
	return "unknown"
}

// SetNext sets the behaviour of the next authorization.
func (p *IdP) SetNext(l *Login) {
	p.mu.Lock()
	p.NextLogin = l
	p.mu.Unlock()
}

// SetToken changes how the IdP treats an access token ("valid","revoked","error").
func (p *IdP) SetToken(at, state string) {
	p.mu.Lock()
	if t, ok := p.tok[at]; ok {
		t.State = state
	}
	p.mu.Unlock()
}

// Issue registers a fresh valid access token for sub without a login.
func (p *IdP) Issue(sub string) string {
	p.mu.Lock()
	defer p.mu.Unlock()
	p.seq++
	at := fmt.Sprintf("at-%d-%s", p.seq, b64(randBytes(9)))
	p.tok[at] = &TokState{Sub: sub, State: "valid"}
	return at
}

func (p *IdP) SetDown(d bool) {
	p.mu.Lock()
	p.Down = d
	p.mu.Unlock()
}

func (p *IdP) Calls() []string {
	p.mu.Lock()
	defer p.mu.Unlock()
	return append([]string(nil), p.UserinfoCalls...)
}

package main

import (
	"math/rand"

	"verifharness/drv"
)

func init() {
	commands["multi"] = func(rep *report) error {
		var ss []*drv.MtScript
		if err := loadJSONL(*fScripts, func() interface{} { return &drv.MtScript{} }, func(v interface{}) { ss = append(ss, v.(*drv.MtScript)) }); err != nil {
			return err
		}
		return grouped(rep, len(ss), func(i int) drv.ScriptCfg { return ss[i].Cfg }, func(i int) string { return ss[i].ID },
			func(inst *drv.Inst, i int, tw *drv.TraceWriter, rng *rand.Rand, local map[string]interface{}) error {
				return inst.RunMulti(ss[i], tw, rng)
			})
	}
}

// vdrv: driver binary of the verification harness. Each subcommand takes
// abstract scripts, runs them against the real code and writes NDJSON traces
// for TLC plus a small JSON report.
package main

import (
	"strings"
	"encoding/json"
	"flag"
	"fmt"
	"io"
	"math/rand"
	"os"
	"path/filepath"
	"runtime/pprof"
	"sort"
	"sync"
	"time"

	"verifharness/drv"
)

type report struct {
	Cmd      string   `json:"cmd"`
	Scripts  int      `json:"scripts"`
	Done     int      `json:"done"`
	Lines    int      `json:"lines"`
	Errors   []string `json:"errors"`
	Faults   []string `json:"faults"`
	WallS    float64  `json:"wall_s"`
	Extra    drv.M    `json:"extra,omitempty"`
}

var (
	fScripts = flag.String("scripts", "", "scripts file (NDJSON)")
	fOut     = flag.String("out", "", "trace output (NDJSON)")
	fReport  = flag.String("report", "", "report output (JSON)")
	fWork    = flag.String("work", "", "scratch directory")
	fGW      = flag.String("gw", "", "rdpgw binary (built with -tags verif)")
	fAuth    = flag.String("auth", "", "rdpgw-auth binary")
	fSeed    = flag.Int64("seed", 1, "seed")
	fJobs    = flag.Int("jobs", 8, "parallel gateway instances")
	fN       = flag.Int("n", 0, "size parameter of the subcommand")
	fTier    = flag.String("tier", "quick", "quick | thorough")
	fWatch   = flag.Int("watchdog", 0, "seconds after which the driver dumps its goroutines and gives up (0 = never)")
)

func main() {
	if len(os.Args) < 2 {
		fmt.Fprintln(os.Stderr, "usage: vdrv <cmd> [flags]")
		os.Exit(2)
	}
	cmd := os.Args[1]
	flag.CommandLine.Parse(os.Args[2:])
	if *fWork == "" {
		d, _ := os.MkdirTemp("", "vdrv-")
		*fWork = d
		defer os.RemoveAll(d)
	}
	os.MkdirAll(*fWork, 0700)
	if *fWatch > 0 {
		go func() {
			time.Sleep(time.Duration(*fWatch) * time.Second)
			fmt.Fprintf(os.Stderr, "vdrv watchdog: %s still running after %d s; goroutines:\n", cmd, *fWatch)
			pprof.Lookup("goroutine").WriteTo(os.Stderr, 1)
			os.Exit(3)
		}()
	}
	start := time.Now()
	rep := &report{Cmd: cmd}
	var err error
	switch cmd {
	case "proto":
		err = runProto(rep)
	default:
		if f, ok := commands[cmd]; ok {
			err = f(rep)
		} else {
			err = fmt.Errorf("unknown command %q", cmd)
		}
	}
	rep.WallS = time.Since(start).Seconds()
	if err != nil {
		rep.Errors = append(rep.Errors, err.Error())
	}
	b, _ := json.MarshalIndent(rep, "", " ")
	if *fReport != "" {
		os.WriteFile(*fReport, b, 0644)
	} else {
		os.Stdout.Write(append(b, '\n'))
	}
	if len(rep.Errors) > 0 {
		os.Exit(2)
	}
}

var commands = map[string]func(*report) error{}

func runner() *drv.Runner {
	return &drv.Runner{Work: *fWork, BinGW: *fGW, BinAuth: *fAuth, Seed: *fSeed}
}

// runProto executes single-tunnel protocol scripts grouped by configuration.
func runProto(rep *report) error {
	scripts, err := drv.LoadScripts(*fScripts)
	if err != nil {
		return err
	}
	rep.Scripts = len(scripts)
	groups := map[string][]drv.Script{}
	var keys []string
	for _, s := range scripts {
		k := s.Cfg.Key() + "|" + s.Grp
		if _, ok := groups[k]; !ok {
			keys = append(keys, k)
		}
		groups[k] = append(groups[k], s)
	}
	sort.Strings(keys)
	// split big groups so that all workers are used
	type job struct {
		idx     int
		scripts []drv.Script
	}
	var jobs []job
	per := (len(scripts) + *fJobs*2 - 1) / (*fJobs * 2)
	if per < 1 {
		per = 1
	}
	for _, k := range keys {
		g := groups[k]
		for len(g) > 0 {
			n := per
			if n > len(g) || g[0].Grp != "" {
				n = len(g)
			}
			jobs = append(jobs, job{len(jobs), g[:n]})
			g = g[n:]
		}
	}
	r := runner()
	var mu sync.Mutex
	var wg sync.WaitGroup
	ch := make(chan job)
	parts := make([]string, len(jobs))
	for w := 0; w < *fJobs; w++ {
		wg.Add(1)
		go func() {
			defer wg.Done()
			for j := range ch {
				part := filepath.Join(*fWork, fmt.Sprintf("part-%05d.ndjson", j.idx))
				parts[j.idx] = part
				tw, err := drv.NewTraceWriter(part)
				if err != nil {
					mu.Lock()
					rep.Errors = append(rep.Errors, err.Error())
					mu.Unlock()
					continue
				}
				inst, err := r.NewInst(j.scripts[0].Cfg)
				if err != nil {
					mu.Lock()
					rep.Errors = append(rep.Errors, "instance: "+err.Error())
					mu.Unlock()
					tw.Close()
					continue
				}
				for pos, s := range j.scripts {
					s.Job, s.Pos = j.idx, pos
					rng := rand.New(rand.NewSource(*fSeed*1000003 + int64(hash(s.ID))))
					err := inst.RunProto(s, tw, rng)
					mu.Lock()
					if err != nil && strings.Contains(err.Error(), "mint: connect flow ended with") && inst.P.Alive() {
						// the gateway refused to hand this user a connection file: the tunnel part of the script cannot be run.
						// That is the gateway's doing (judged by the download checks), not a failure of the driver - counted.
						if rep.Extra == nil {
							rep.Extra = drv.M{}
						}
						n, _ := rep.Extra["unminted"].(int)
						rep.Extra["unminted"] = n + 1
						rep.Done++
					} else if err != nil {
						rep.Errors = append(rep.Errors, s.ID+": "+err.Error())
					} else {
						rep.Done++
					}
					mu.Unlock()
				}
				mu.Lock()
				for _, f := range inst.P.Faults() {
					rep.Faults = append(rep.Faults, f)
				}
				mu.Unlock()
				inst.Stop()
				tw.Close()
			}
		}()
	}
	for _, j := range jobs {
		ch <- j
	}
	close(ch)
	wg.Wait()
	n, err := concat(parts, *fOut)
	rep.Lines = n
	return err
}

func hash(s string) uint32 {
	var h uint32 = 2166136261
	for i := 0; i < len(s); i++ {
		h ^= uint32(s[i])
		h *= 16777619
	}
	return h
}

func concat(parts []string, out string) (int, error) {
	f, err := os.Create(out)
	if err != nil {
		return 0, err
	}
	defer f.Close()
	lines := 0
	for _, p := range parts {
		if p == "" {
			continue
		}
		in, err := os.Open(p)
		if err != nil {
			continue
		}
		b, _ := io.ReadAll(in)
		in.Close()
		os.Remove(p)
		for _, c := range b {
			if c == '\n' {
				lines++
			}
		}
		f.Write(b)
	}
	return lines, nil
}

func fmtPart(i int) string { return filepath.Join(*fWork, fmt.Sprintf("part-%05d.ndjson", i)) }

SPECIFICATION Spec
INVARIANTS RedirectableIffEnabled DisableAllWins EnableAllReported IdleNonNegative
CHECK_DEADLOCK FALSE

SPECIFICATION Spec
INVARIANTS OpenIdAloneNeedsCookie StackableSets
CHECK_DEADLOCK FALSE

SPECIFICATION Spec
CONSTANTS
  LockedSteps = {} Transport = "legacy"
INVARIANTS NothingBeforeTheEnd GaugeNeverNegative
PROPERTIES EndingReleasesEverything ReleasedIsStable
CHECK_DEADLOCK FALSE

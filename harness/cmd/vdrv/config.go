package main

import (
	"sync"

	"verifharness/drv"
)

func init() {
	commands["config"] = func(rep *report) error {
		var ss []*drv.CfgScript
		if err := loadJSONL(*fScripts, func() interface{} { return &drv.CfgScript{} }, func(v interface{}) { ss = append(ss, v.(*drv.CfgScript)) }); err != nil {
			return err
		}
		rep.Scripts = len(ss)
		r := runner()
		parts := make([]string, len(ss))
		var mu sync.Mutex
		var wg sync.WaitGroup
		ch := make(chan int)
		for w := 0; w < *fJobs; w++ {
			wg.Add(1)
			go func() {
				defer wg.Done()
				for i := range ch {
					part := fmtPart(i)
					tw, err := drv.NewTraceWriter(part)
					if err != nil {
						continue
					}
					parts[i] = part
					if ss[i].Kind == "cross" {
						err = r.RunCross(ss[i], tw)
					} else {
						err = r.RunStart(ss[i], tw)
					}
					tw.Close()
					mu.Lock()
					if err != nil {
						rep.Errors = append(rep.Errors, ss[i].ID+": "+err.Error())
					} else {
						rep.Done++
					}
					mu.Unlock()
				}
			}()
		}
		for i := range ss {
			ch <- i
		}
		close(ch)
		wg.Wait()
		n, err := concat(parts, *fOut)
		rep.Lines = n
		return err
	}
}

------------------------------- MODULE MC_Caps -------------------------------
(* C17: TSGU!Match against an explicit bit-by-bit restatement, for all four    *)
(* server settings and all 65536 client capability values.                     *)
EXTENDS TSGU, TLC
Bit(x, b) == (x \div b) % 2 = 1
Ref(s, c) == (s = 0 /\ c = 0) \/ (Bit(s, 1) /\ Bit(c, 1)) \/ (Bit(s, 2) /\ Bit(c, 2))
VARIABLE v
Init == v \in 0..65535
Next == UNCHANGED v
Spec == Init /\ [][Next]_v
MatchIsBitwise == \A ta, sc \in BOOLEAN : Match(ServerCaps(ta, sc), v) <=> Ref(ServerCaps(ta, sc), v)
NoMechanismNoEntry == \A sc \in BOOLEAN : v = 0 => ~Match(ServerCaps(TRUE, sc), v)
OpenServerOnlyPlainClients == Match(ServerCaps(FALSE, FALSE), v) <=> v = 0
=============================================================================

SPECIFICATION Spec
CONSTANTS
  Tunnels <- MCTunnels
  Kind <- MCKind
INVARIANTS TypeOK RegistryMutex WriteMutex LoopImpliesRegistered NothingLeftWhenHandlersAreGone AtMostOneDial RelayNeedsConnection ConnectionNeedsRegisteredLoop ConnectionNeedsTheSteps PairingById InOnlyAfterPublish UserIsTheOneItWasOpenedAs ResponseDiscipline NoWriterBeforeTheAccept
CHECK_DEADLOCK FALSE

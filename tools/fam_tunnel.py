"""Single-tunnel protocol family: scripts generated from the Tunnel
specification's state graph, executed against the real gateway binary over
both transports, and judged by TLC with the TunnelTrace specification.
Serves C01, C02 (tunnel level), C03, C04, C16, C17."""
import json, os, random, re, collections
from vlib import *

H_A = {"hostName": ["H1"], "hostPort": "PA", "entry": ["H1", ":", "PA"]}


def model_graph(work, tag="MC_Proto"):
    """Exhaustive design check of the envelope + dump of its state graph."""
    dot = work.path("proto.dot")
    r = design_check("MC_Proto", "MC_Proto.cfg", work, workers=8, timeout=600, extra=["-dump", "dot,actionlabels", dot])
    nodes, roots, edges = parse_dot(dot)
    return r, nodes, roots, edges


def core_of(label):
    v = state_vars(label)
    return (v["cfg"], v["phase"], v["nd"], v["oks"], v["tokOk"])


def forceable_cover(nodes, roots, edges):
    """(core state, packet) cover over environment-forceable paths: a step is
    used to *reach* a state only if the model gives it a single successor."""
    core = {n: core_of(l) for n, l in nodes.items()}
    succ = collections.defaultdict(lambda: collections.defaultdict(set))
    for s, d, act, args in edges:
        if act != "Handle":
            continue
        succ[core[s]][args].add(core[d])
    paths = {}
    q = collections.deque()
    for r in roots:
        c = core[r]
        if c not in paths:
            paths[c] = []
            q.append(c)
    while q:
        c = q.popleft()
        for a, ds in sorted(succ[c].items()):
            if len(ds) != 1:
                continue
            d = next(iter(ds))
            if d not in paths:
                paths[d] = paths[c] + [a]
                q.append(d)
    cover = []
    for c in sorted(paths):
        for a in sorted(succ[c]):
            cover.append((c, paths[c], a))
    return cover, paths, succ


def cfg_of_core(c):
    m = re.search(r"tokenAuth \|-> (TRUE|FALSE), smartCard \|-> (TRUE|FALSE)", c[0])
    return m.group(1) == "TRUE", m.group(2) == "TRUE"


def script_cfg(tokenAuth, smartCard, h):
    """Pick a concrete configuration for a model configuration (rotating by hash)."""
    if tokenAuth:
        sel = ["roundrobin", "unsigned", "any", "unsigned"][h % 4]
        hosts = [["H1", ":", "PA"]] if sel == "roundrobin" else [["H1", ":", "PA"], ["H1", ":", "PB"], ["H1", ":", "PD"]]
        return {"tokenAuth": True, "smartCard": smartCard, "auth": "openid", "sel": sel, "hosts": hosts, "verifyIp": True, "idle": [0, 30, -1][h % 3]}
    auth = "local" if h % 7 == 0 else "ntlm"
    sel = ["roundrobin", "any", "unsigned"][h % 3]
    c = {"tokenAuth": False, "smartCard": smartCard, "auth": auth, "sel": sel,
         "hosts": [["H1", ":", "PA"], ["H1", ":", "PD"]], "verifyIp": True, "idle": [0, 30, -1][h % 3]}
    if auth == "local":
        c["tls"] = True
    return c


def step_of(pkt, cfg, h, tun, variant=None):
    """Model packet -> abstract script step (python side picks concrete classes)."""
    p = parse_tla_value(pkt)
    k = p["k"]
    st = {"k": k, "cls": p.get("cls", "valid")}
    if k == "hs":
        st.update({"caps": p["caps"], "major": 1 + h % 3, "minor": h % 5})
    elif k == "create":
        st["cookie"] = "good" if p["cookieGood"] else (["bad", "bad", "none", "bad"][h % 4])
    elif k == "chan":
        ha = p["hostAllowed"]
        if ha in ("yes", "free"):
            st.update({"name": tun["hostName"], "port": tun["hostPort"]})
        else:
            # (the last one: a refused name with the allowed host riding along as an alternate resource name - the request
            # is for the name it names, whatever else it lists)
            variants = [(["H1"], "PE", None), (["H2"], tun["hostPort"], None), (["H1", "NUL", "H1"], tun["hostPort"], None), (["H2"], tun["hostPort"], [tun["hostName"]])]
            if cfg["tokenAuth"] and cfg["sel"] != "roundrobin":
                variants.append((["H1"], "PB" if tun["hostPort"] != "PB" else "PA", None))
            n, pt, alts = variants[(h if variant is None else variant) % len(variants)]
            if cfg["sel"] == "any" and not cfg["tokenAuth"]:
                # 'any' without a token allows every host: a refusal cannot be provoked
                n, pt, alts = ["H1"], "PE", None
            st.update({"name": n, "port": pt})
            if alts and st["cls"] == "valid":
                st.update({"cls": "alt", "alts": alts})
    elif k == "data":
        st["n"] = [0, 1, 17, 1500][h % 4]
    elif k == "other":
        st["pt"] = [0x3, 0xB, 0xC, 0x7f, 0x0, 0x2, 0x5, 0x11][h % 8]
    return st


ORDER = ["hs", "create", "auth", "chan", "data"]
CANON = ['[k |-> "hs", cls |-> "valid", caps |-> %d]', '[k |-> "create", cls |-> "valid", cookieGood |-> TRUE]', '[k |-> "auth", cls |-> "valid"]',
         '[k |-> "chan", cls |-> "valid", hostAllowed |-> "yes", reach |-> TRUE]', '[k |-> "data", cls |-> "valid"]']


def gen_graph_scripts(work, seed, tier):
    r, nodes, roots, edges = model_graph(work)
    cover, paths, succ = forceable_cover(nodes, roots, edges)
    reached = {c[1].strip('"') for c in paths}
    missing = {"init", "hs", "created", "authorized", "channel", "opened", "ended"} - reached
    if missing:
        raise HarnessError("the forceable cover of the Tunnel state graph does not reach the phases %s: the generated scripts would be shallow" % sorted(missing))
    rng = random.Random(seed)
    allpk = sorted({a for c in succ for a in succ[c]})
    scripts = []
    nprobe = 1 if tier == "quick" else 3
    for (c, path, a) in cover:
        tokenAuth, smartCard = cfg_of_core(c)
        # a refused channel request is run once per way of being refused (another port, another host, an embedded NUL,
        # a host the list allows but the token does not name)
        nvar = 5 if ('"chan"' in a and '"no"' in a) else 1
        # the model's state after an accepted handshake does not remember WHICH of the matching mechanism sets the client
        # offered (nothing later may depend on it): with both mechanisms enabled a tunnel request is run once per
        # matching offer on the way there (cookie only, smart card only, both)
        offers = [None]
        if tokenAuth and smartCard and '"create"' in a:
            offers = [1, 2, 3]
        # a step the model refuses (every successor has ended) is also run with the rest of a regular session behind it -
        # as a client would go on that took the refusal for a success: nothing of that continuation may be answered,
        # reach a host or cause a connection
        cont = None
        kind = parse_tla_value(a)["k"]
        if kind in ORDER and c[1].strip('"') != "ended" and all(d[1].strip('"') == "ended" for d in succ[c][a]):
            cont = [x if "%d" not in x else x % ((2 if tokenAuth else 0) | (1 if smartCard and not tokenAuth else 0)) for x in CANON[ORDER.index(kind) + 1:]]
        nbase = nprobe * nvar * len(offers)
        for pi in range(nbase + (len(offers) if cont else 0)):
            offer = offers[pi % len(offers)]
            h = stable_hash("%s|%s|%s|%d|%d" % (c, path, a, pi, seed))
            cfg = script_cfg(tokenAuth, smartCard, h)
            user = "user1" if cfg["auth"] == "openid" else ("7" if cfg["auth"] == "local" else "nuser1")
            tun = dict(H_A, user=user)
            if h % 11 == 0 and cfg["sel"] != "roundrobin":
                tun.update({"hostPort": "PD", "entry": ["H1", ":", "PD"]})   # allowed but nothing listens
            if h % 13 == 0 and cfg["tokenAuth"]:
                # textual variant of the same client address (verdict "free")
                tun.update({"mintXFF": "::1", "useXFF": "0:0:0:0:0:0:0:1"})
            if h % 17 == 0 and cfg["tokenAuth"]:
                tun.update({"mintXFF": "10.1.1.1, 10.9.9.9", "useXFF": "10.1.1.2"})  # another client address
            probe = allpk[rng.randrange(len(allpk))]
            seq = path + [a, probe]
            if pi >= nbase:
                seq = path + [a] + cont
            # a script whose first allowed channel request must find nothing listening targets the closed port
            firstyes = next((parse_tla_value(x) for x in seq if '"chan"' in x and '"no"' not in x), None)
            if firstyes is not None and not firstyes.get("reach", True):
                if cfg["sel"] == "roundrobin":
                    cfg = dict(cfg, hosts=[["H1", ":", "PD"]])
                tun.update({"hostPort": "PD", "entry": ["H1", ":", "PD"]})
            elif tun["hostPort"] == "PD":
                tun.update({"hostPort": "PA", "entry": ["H1", ":", "PA"]})
            steps = [step_of(x, cfg, stable_hash(x + str(i) + str(h)), tun, variant=(pi if nvar > 1 and i == len(path) else None)) for i, x in enumerate(seq)]
            if offer is not None:
                for st in steps[:len(path)]:
                    if st["k"] == "hs" and st["cls"] == "valid" and st.get("caps", 0) & 3:
                        st["caps"] = offer
            transports = ["ws", "legacy"] if tier == "thorough" else [["ws", "legacy"][h % 2]]
            for tr in transports:
                scripts.append({"id": "g%05d-%s" % (len(scripts), tr), "origin": "graph:%s/%s" % (c[1], a), "cfg": cfg,
                                "transport": tr, "tun": tun, "steps": steps})
    return r, scripts


def gen_random_scripts(seed, n, maxlen=14):
    """Seeded random packet sequences biased towards progress (long live histories)."""
    rng = random.Random(seed * 7919 + 13)
    scripts = []
    canon = ['[k |-> "hs", cls |-> "valid", caps |-> %d]', '[k |-> "create", cls |-> "valid", cookieGood |-> TRUE]',
             '[k |-> "auth", cls |-> "valid"]', '[k |-> "chan", cls |-> "valid", hostAllowed |-> "yes", reach |-> TRUE]']
    noise = ['[k |-> "data", cls |-> "valid"]', '[k |-> "keepalive", cls |-> "valid"]', '[k |-> "other", cls |-> "valid"]',
             '[k |-> "close", cls |-> "valid"]', '[k |-> "hs", cls |-> "trunc", caps |-> 2]', '[k |-> "create", cls |-> "valid", cookieGood |-> FALSE]',
             '[k |-> "chan", cls |-> "valid", hostAllowed |-> "no", reach |-> TRUE]', '[k |-> "auth", cls |-> "trunc"]', '[k |-> "chan", cls |-> "trunc", hostAllowed |-> "no", reach |-> TRUE]',
             '[k |-> "create", cls |-> "trunc", cookieGood |-> FALSE]']
    for i in range(n):
        tokenAuth, smartCard = rng.random() < 0.6, rng.random() < 0.3
        h = rng.getrandbits(30)
        cfg = script_cfg(tokenAuth, smartCard, h)
        user = "user1" if cfg["auth"] == "openid" else ("7" if cfg["auth"] == "local" else "nuser1")
        tun = dict(H_A, user=user)
        caps = (2 if tokenAuth else 0) | (1 if smartCard and rng.random() < 0.5 else 0)
        if not tokenAuth and not smartCard:
            caps = 0
        if tokenAuth or smartCard:
            caps = caps or 1
        seq, pos = [], 0
        for _ in range(rng.randrange(3, maxlen)):
            x = rng.random()
            if pos < 4 and x < 0.55:
                p = canon[pos] % caps if pos == 0 else canon[pos]
                pos += 1
            elif pos >= 4 and x < 0.7:
                p = noise[rng.randrange(0, 3)]
            else:
                p = noise[rng.randrange(len(noise))]
            seq.append(p)
        steps = [step_of(x, cfg, rng.getrandbits(30), tun) for x in seq]
        scripts.append({"id": "r%05d" % i, "origin": "rand:%d:%d" % (seed, i), "cfg": cfg, "transport": ["ws", "legacy"][i % 2], "tun": tun, "steps": steps})
    return scripts


def locate(trace_lines, lineno):
    """Script id and packet index of a trace line (1-based)."""
    sid, idx = None, 0
    for i in range(lineno):
        ev = trace_lines[i]
        if ev.get("ev") == "reset":
            sid, idx = ev.get("script"), 0
        else:
            idx += 1
    return sid, idx


def history_of(trace_lines, sid):
    """Ids of the scripts that ran on the same gateway instance as sid, up to and including it, in order."""
    resets = [e for e in trace_lines if e.get("ev") == "reset"]
    me = next((e for e in resets if e.get("script") == sid), None)
    if me is None:
        return [sid]
    same = sorted((e for e in resets if e.get("job") == me.get("job") and e.get("pos", 0) <= me.get("pos", 0)), key=lambda e: e.get("pos", 0))
    return [e["script"] for e in same]


def run_scripts(work, scripts, seed, tier, tag, jobs=12):
    sp = work.path("scripts-%s.ndjson" % tag)
    tp = work.path("trace-%s.ndjson" % tag)
    write_ndjson(sp, scripts)
    rep = run_driver("proto", work, scripts=sp, out=tp, seed=seed, jobs=jobs, tier=tier, tag=tag)
    if rep["done"] != len(scripts):
        raise HarnessError("driver finished %d of %d scripts" % (rep["done"], len(scripts)))
    unminted = (rep.get("extra") or {}).get("unminted", 0)
    if unminted > max(3, len(scripts) // 4):
        raise HarnessError("the gateway refused a connection file for %d of %d scripts: the tunnel scripts cannot be judged" % (unminted, len(scripts)))
    res = trace_check("TunnelTrace", "TunnelTrace.cfg", tp, work, tag="tt-" + tag)
    lines = read_ndjson(tp)
    viol = []
    for v in res["viol"]:
        ln, g, phase, k, cls = v
        sid, idx = locate(lines, ln)
        viol.append({"line": ln, "guard": g, "phase": phase, "k": k, "cls": cls, "script": sid, "step": idx,
                     "event": lines[ln - 1], "transport": next((s["transport"] for s in scripts if s["id"] == sid), "?")})
    return {"report": rep, "result": res, "viol": viol, "trace": tp, "lines": lines, "faults": rep.get("faults") or []}


# ---------------------------------------------------------------- C03 / C04: scripts from the Policy model

def policy_states(work, mode):
    dot = work.path("policy-%s.dot" % mode)
    cfgf = "MC_PolicyHost.cfg" if mode == "host" else "MC_PolicyAddr.cfg"
    r = design_check("MC_Policy", cfgf, work, workers=8, timeout=600, extra=["-dump", "dot", dot])
    nodes, roots, edges = parse_dot(dot)
    qs = []
    for n in sorted(nodes):
        v = state_vars(nodes[n])
        qs.append(parse_tla_value(v["q"]))
    return r, qs


ADDR_TEXT = {"a": "10.0.0.1", "b": "10.0.0.2", "c": "::1", "c2": "0:0:0:0:0:0:0:1", "p": "192.168.9.9", "zz": "172.16.0.9",
             "u1": "203.0.113.5:51234", "u2": "198.51.100.7:40000", "v1": "[2001:db8::5]", "v2": "[2001:db8::7]", "w1": "unknown", "w2": "hidden"}
ADDR_PEER = {"a": "127.0.0.1", "b": "127.0.0.2", "c": "::1", "c2": "::1", "p": "127.0.0.9"}


def policy_script(q, i, seed, mode):
    h = stable_hash(json.dumps(q, sort_keys=True) + str(seed))
    tokenAuth = q["tokenAuth"]
    user = "".join(q["user"])
    cfg = {"tokenAuth": tokenAuth, "smartCard": False, "auth": "openid" if tokenAuth else "ntlm", "sel": q["sel"],
           "hosts": q["hosts"], "verifyIp": q["verifyIp"], "idle": 0}
    tun = {"user": user, "hostName": ["H1"], "hostPort": "PA", "entry": q["hosts"][0]}
    if tokenAuth:
        # try to obtain a token for the model's token host
        th = q["tokHost"]
        if q["sel"] == "any":
            tun["hostName"], tun["hostPort"] = th[:-2], th[-1]
            if tun["hostName"][:1] == ["["]:
                tun["hostName"] = tun["hostName"][1:-1]
        else:
            for e in q["hosts"]:
                sub = []
                done = False
                for x in e:
                    if x == "PH" and not done:
                        sub += q["user"]
                        done = True
                    else:
                        sub.append(x)
                if sub == th:
                    tun["entry"] = e
        if user == "":
            tun["login"] = "7"
    else:
        if user == "":
            return None  # an empty user name cannot be authenticated by NTLM: no tunnel to test
        tun["user"] = user
        cfg["users"] = "ntlm"
    if mode == "addr":
        ta = q["tokAddr"]
        # issuance address: through X-Forwarded-For (any text) or as the TCP peer
        if h % 2 == 0 or ta["text"] not in ADDR_PEER or ta["text"] == "c2":
            tun["mintXFF"] = ADDR_TEXT[ta["text"]] + ("\n192.168.9.9" if h % 5 == 0 else "")
        else:
            tun["mintIP"] = ADDR_PEER[ta["text"]]
        tun["useIP"] = ADDR_PEER[q["peer"]["text"]]
        # the elements of the list travel in one header line or in one line per element
        tun["useXFF"] = (", " if h % 3 else "\n").join(ADDR_TEXT[x["text"]] for x in q["xff"])
        if not tokenAuth:
            tun["mintXFF"] = tun.get("mintXFF", "")
        elif h % 3 == 0:
            tun["carryCookie"] = True   # the tunnel request comes with the downloading browser's session cookie
    caps = 2 if tokenAuth else 0
    cls = "valid"
    if mode == "host" and h % 19 == 0:
        cls = ["long", "odd", "trunc"][h % 3]
    chan = {"k": "chan", "cls": cls, "name": q["name"], "port": q["port"]}
    if mode == "host" and cls == "valid" and h % 4 == 1:
        # alternate resource names ride along (another address that listens on the requested port, an allowed entry of the
        # list, the other address family): only the requested name may ever be connected to
        chan = dict(chan, cls="alt", alts=[["H2"], ["H1"], ["H6"]][: 1 + h % 3])
    steps = [{"k": "hs", "cls": "valid", "caps": caps, "major": 1, "minor": 0},
             {"k": "create", "cls": "valid", "cookie": "good" if tokenAuth else "none"},
             {"k": "auth", "cls": "valid"},
             chan,
             {"k": "data", "cls": "valid", "n": 8}]
    transport = ["ws", "legacy"][h % 2]
    own_entry = mode == "host" and any("PH" in e for e in q["hosts"]) and q["name"] in (["H127", "7"], ["H127", "8"])
    if own_entry:
        transport = "ws"   # a user's own substituted entry and another user's, one after the other under one identifier
    if mode == "host" and transport == "ws" and (h % 3 != 0 or own_entry):
        # tunnels of different users following each other on one gateway with the same connection identifier: what a
        # tunnel is allowed does not depend on who used the identifier before
        tun["cid"] = "{6f1c7a52-0000-4000-8000-%012d}" % (h % 2)
    if mode == "addr" and transport == "legacy" and h % 4 in (1, 2):
        # the two requests of a legacy connection come from different client addresses: the address that counts is the one
        # the packets (and the access cookie in them) arrive from, i.e. the RDG_IN_DATA request's.  The RDG_OUT_DATA
        # request comes from the address the token was issued to, or from a third one
        tun["outElsewhere"] = True
        if h % 4 == 1:
            tun["outIP"], tun["outXFF"] = tun.get("mintIP", ""), tun.get("mintXFF", "").split("\n")[0]
        else:
            tun["outIP"], tun["outXFF"] = "127.0.0.9", "172.16.0.9"
    sc = {"id": "%s%05d" % (mode[0], i), "origin": "policy:%s" % mode, "cfg": cfg, "transport": transport, "tun": tun, "steps": steps}
    if own_entry:
        # (kept together on one gateway, one after the other: what a tunnel is allowed must not depend on who used its
        # connection identifier before - which can only show when somebody did)
        sc["grp"] = "own-entry"
    return sc


def gen_policy_scripts(work, mode, tier, seed, quick_n=1500):
    r, qs = policy_states(work, mode)
    # (TLC with several workers lists the states in an order of its own: the sample below must not depend on it)
    qs = sorted(qs, key=lambda q: json.dumps(q, sort_keys=True))
    scripts = []
    for i, q in enumerate(qs):
        s = policy_script(q, i, seed, mode)
        if s:
            scripts.append(s)
    if tier == "quick" and len(scripts) > quick_n:
        # keep every (sel, hosts, name) class, sample the rest
        rng = random.Random(seed)
        buckets = collections.defaultdict(list)
        for s in scripts:
            st = s["steps"][3]
            if mode == "addr":
                # every (issuing address, presenting address) pair with both settings of the switch
                t = s["tun"]
                cli = (t.get("useXFF") or "").replace("\n", ",").split(",")[0].strip() or t.get("useIP")
                buckets[(s["cfg"]["tokenAuth"], s["cfg"]["verifyIp"], str(t.get("mintXFF") or t.get("mintIP")), str(cli))].append(s)
            else:
                ph_user = s["tun"]["user"] if (any("PH" in e for e in s["cfg"]["hosts"]) and st["name"] in (["H127", "7"], ["H127", "8"])) else None
                # (the address switch is a dimension of the host requests as well: what it turns off is the address
                # comparison, never the binding of the tunnel to its token's host)
                buckets[(s["cfg"]["sel"], json.dumps(s["cfg"]["hosts"]), json.dumps(st["name"]), s["cfg"]["tokenAuth"], str(ph_user), s["cfg"]["verifyIp"] or not s["cfg"]["tokenAuth"],
                         st["port"] if ph_user is not None else None)].append(s)
        keep = []
        per = max(1, quick_n // max(1, len(buckets)))
        for k in sorted(buckets):
            b = buckets[k]
            rng.shuffle(b)
            keep += b[:per]
        scripts = keep
    return r, scripts, len(qs)


def gen_named_port_scripts(tier):
    """Channels to ONE server name on different ports, one tunnel after the other on one gateway (both ports allowed): each
    is connected to the port it asked for, whatever an earlier channel to that name used."""
    scripts = []
    n = 0
    for sel, hosts in (("any", [["HL", ":", "PA"]]), ("unsigned", [["HL", ":", "PA"], ["HL", ":", "PB"]]), ("roundrobin", [["HL", ":", "PB"], ["HL", ":", "PA"]])):
        for order in (("PA", "PB", "PA"), ("PB", "PA", "PB")):
            for tr in ("ws", "legacy"):
                cfg = {"tokenAuth": False, "smartCard": False, "auth": "ntlm", "users": "ntlm", "sel": sel, "hosts": hosts, "verifyIp": True, "idle": 0}
                for k, port in enumerate(order):
                    steps = [{"k": "hs", "cls": "valid", "caps": 0, "major": 1, "minor": k}, {"k": "create", "cls": "valid", "cookie": "none"}, {"k": "auth", "cls": "valid"},
                             {"k": "chan", "cls": "valid", "name": ["HL"], "port": port}, {"k": "data", "cls": "valid", "n": 8}]
                    scripts.append({"id": "np%03d-%d" % (n, k), "origin": "named-ports", "cfg": cfg, "transport": tr, "grp": "np-%d" % n,
                                    "tun": {"user": "7", "hostName": ["HL"], "hostPort": port, "entry": hosts[0]}, "steps": steps})
                n += 1
    return scripts


def gen_tokenauth_other_mechanism_scripts(tier, seed):
    """Cookie authentication switched on (the default) on a gateway whose HTTP front door is NTLM or basic, not OpenID:
    the tunnel request still needs an acceptable cookie (there is none to be had), and nothing follows without it."""
    scripts = []
    for n, kind in enumerate(["bad:garbage", "none", "bad:tiny", "bad:emptystr", "bad:garbage", "bad:tiny"]):
        for auth in ("ntlm", "local"):
            cfg = {"tokenAuth": True, "smartCard": False, "auth": auth, "sel": ["roundrobin", "any"][n % 2], "hosts": [["H1", ":", "PA"]], "verifyIp": True, "idle": 0}
            if auth == "local":
                cfg["tls"] = True
            steps = [{"k": "hs", "cls": "valid", "caps": 2, "major": 1, "minor": n}, {"k": "create", "cls": "valid", "cookie": kind},
                     {"k": "auth", "cls": "valid"}, {"k": "chan", "cls": "valid", "name": ["H1"], "port": "PA"}, {"k": "data", "cls": "valid", "n": 8}]
            scripts.append({"id": "tk%03d%s" % (n, auth), "origin": "tokenauth-without-openid", "cfg": cfg, "transport": ["ws", "legacy"][n % 2],
                            "tun": dict(H_A, user="nuser1" if auth == "ntlm" else "7"), "steps": steps})
    return scripts


def gen_dupin_scripts(tier, seed):
    """Legacy: a second RDG_IN_DATA request under the tunnel's identifier arrives before the first one has sent its first
    bytes; afterwards a whole session is sent on whichever of the two the gateway accepted."""
    scripts = []
    for n in range(4 if tier == "quick" else 24):
        token = n % 2 == 0
        cfg = {"tokenAuth": token, "smartCard": False, "auth": "openid" if token else "ntlm", "sel": "roundrobin", "hosts": [["H1", ":", "PA"]], "verifyIp": True, "idle": 0}
        steps = [{"k": "hs", "cls": "valid", "caps": 2 if token else 0, "major": 1, "minor": n % 5}, {"k": "create", "cls": "valid", "cookie": "good" if token else "none"},
                 {"k": "auth", "cls": "valid"}, {"k": "chan", "cls": "valid", "name": ["H1"], "port": "PA"}, {"k": "data", "cls": "valid", "n": 8}]
        scripts.append({"id": "di%03d" % n, "origin": "second-in", "cfg": cfg, "transport": "legacy", "tun": dict(H_A, user="user1" if token else "nuser1"), "steps": steps, "dupIn": True})
    return scripts


def gen_reopened_out_scripts(tier, seed):
    """Legacy: a second RDG_OUT_DATA request between the tunnel request and the channel request, on tunnels whose token
    was issued to the address they come from and on tunnels that come from another one: same verdicts as without it."""
    scripts = []
    for n in range(3 if tier == "quick" else 12):
        cfg = {"tokenAuth": True, "smartCard": False, "auth": "openid", "sel": ["roundrobin", "unsigned"][n % 2], "hosts": [["H1", ":", "PA"]], "verifyIp": True, "idle": 0}
        a, b = "10.4.%d.1" % n, "10.4.%d.2" % n
        for k, (mint, use) in enumerate([(a, b), (a, a), (b, a)]):
            tun = {"user": "user1", "hostName": ["H1"], "hostPort": "PA", "entry": ["H1", ":", "PA"], "mintXFF": mint, "useXFF": use}
            steps = [{"k": "hs", "cls": "valid", "caps": 2, "major": 1, "minor": 0}, {"k": "create", "cls": "valid", "cookie": "good"}, {"k": "reout"},
                     {"k": "auth", "cls": "valid"}, {"k": "reout"}, {"k": "chan", "cls": "valid", "name": ["H1"], "port": "PA"}, {"k": "data", "cls": "valid", "n": 8}]
            scripts.append({"id": "ro%03d%d" % (n, k), "origin": "policy:reopened-out", "cfg": cfg, "transport": "legacy", "tun": tun, "steps": steps})
    return scripts


def gen_cookie_carrying_scripts(tier, seed):
    """The tunnel's requests carry the session cookie of the browser that downloaded the file (legal, if unusual), and come
    from another address than the token's; between the tunnel's HTTP request and its channel request the owner's browser
    asks for /connect again from the token's address.  The address that counts is the tunnel request's own."""
    scripts = []
    for n in range(4 if tier == "quick" else 16):
        tr = ["ws", "legacy"][n % 2]
        cfg = {"tokenAuth": True, "smartCard": False, "auth": "openid", "sel": "roundrobin", "hosts": [["H1", ":", "PA"]], "verifyIp": True, "idle": 0,
               "store": ["cookie", "file"][(n // 2) % 2]}
        a, b = "10.3.%d.1" % n, "10.3.%d.2" % n
        for k, (mint, use) in enumerate([(a, b), (a, a)]):
            tun = {"user": "user1", "hostName": ["H1"], "hostPort": "PA", "entry": ["H1", ":", "PA"], "mintXFF": mint, "useXFF": use, "carryCookie": True}
            steps = [{"k": "hs", "cls": "valid", "caps": 2, "major": 1, "minor": 0}, {"k": "ownerget"}, {"k": "create", "cls": "valid", "cookie": "good"}, {"k": "ownerget"},
                     {"k": "auth", "cls": "valid"}, {"k": "ownerget"}, {"k": "chan", "cls": "valid", "name": ["H1"], "port": "PA"}, {"k": "data", "cls": "valid", "n": 8}]
            scripts.append({"id": "cc%03d%d" % (n, k), "origin": "policy:cookie-carrying", "cfg": cfg, "transport": tr, "tun": tun, "steps": steps})
    return scripts


def gen_moved_client_scripts(tier, seed):
    """One logged-in session downloads connection files for the same host from several client addresses (a client that
    moved): every file's token is bound to the address IT was issued to, whatever the session's other tokens say."""
    scripts = []
    for n in range(3 if tier == "quick" else 12):
        for tr in ("ws", "legacy"):
            cfg = {"tokenAuth": True, "smartCard": False, "auth": "openid", "sel": ["roundrobin", "unsigned"][n % 2], "hosts": [["H1", ":", "PA"]], "verifyIp": True, "idle": 0}
            g = "mv%d%s" % (n, tr)
            a, b = "10.0.%d.1" % n, "10.0.%d.2" % n
            for k, (mint, use) in enumerate([(a, a), (b, b), (b, a), (a, b), (a, a)]):
                tun = {"user": "user1", "hostName": ["H1"], "hostPort": "PA", "entry": ["H1", ":", "PA"], "loginGroup": g, "mintXFF": mint, "useXFF": use}
                steps = [{"k": "hs", "cls": "valid", "caps": 2, "major": 1, "minor": 0}, {"k": "create", "cls": "valid", "cookie": "good"}, {"k": "auth", "cls": "valid"},
                         {"k": "chan", "cls": "valid", "name": ["H1"], "port": "PA"}, {"k": "data", "cls": "valid", "n": 8}]
                scripts.append({"id": "mv%03d%s%d" % (n, tr, k), "origin": "policy:moved-client", "cfg": cfg, "transport": tr, "tun": tun, "steps": steps, "grp": g})
    return scripts


# ---------------------------------------------------------------- C17: capability negotiation

def gen_caps_scripts(tier, seed):
    rng = random.Random(seed)
    if tier == "thorough":
        vals = list(range(65536))
    else:
        vals = sorted(set(list(range(64)) + [v | (hi << 4) for v in range(16) for hi in (1, 2, 4, 8, 16, 0x80, 0x100, 0x7ff, 0xfff)] +
                          [rng.randrange(65536) for _ in range(300)] + [65535, 65534, 65533, 65532, 32768, 32769, 32770]))
    scripts = []
    for ta in (False, True):
        for sc in (False, True):
            for i, v in enumerate(vals):
                h = stable_hash("caps%d%s%s%d" % (v, ta, sc, seed))
                cfg = {"tokenAuth": ta, "smartCard": sc, "auth": "openid" if ta else "ntlm", "sel": "roundrobin", "hosts": [["H1", ":", "PA"]], "verifyIp": True, "idle": 0}
                tun = dict(H_A, user="user1" if ta else "nuser1")
                steps = [{"k": "hs", "cls": "valid", "caps": v, "major": h % 256, "minor": (h >> 8) % 256, "version": (h >> 16) % 65536}]
                if tier == "quick" or v < 64:
                    steps.append({"k": "create", "cls": "valid", "cookie": "good" if ta else "none"})
                scripts.append({"id": "c%d%d-%05d" % (ta, sc, v), "origin": "caps", "cfg": cfg, "transport": ["ws", "legacy"][h % 2 if tier == "quick" else (1 if h % 16 == 0 else 0)],
                                "tun": tun, "steps": steps})
    return scripts


# ---------------------------------------------------------------- C16: responses under every policy configuration

IDLES = [-2147483648, -1, 0, 1, 30, 65536, 2147483647]


def gen_c16_scripts(tier, seed):
    scripts = []
    names = ["clipboard", "port", "drive", "printer", "pnp", "disableAll", "enableAll"]
    n = 0
    for mask in range(128):
        redir = {nm: bool(mask >> b & 1) for b, nm in enumerate(names)}
        idles = IDLES if tier == "thorough" else [IDLES[(mask + seed) % len(IDLES)]]
        for idle in idles:
            for ta, sc in ((True, False), (False, False), (True, True), (False, True)):
                h = stable_hash("c16-%d-%d-%s-%s-%d" % (mask, idle, ta, sc, seed))
                if tier == "quick" and (ta, sc) != [(True, False), (False, False), (True, True), (False, True)][mask % 4]:
                    continue
                cfg = {"tokenAuth": ta, "smartCard": sc, "auth": "openid" if ta else "ntlm", "sel": "unsigned" if ta else "roundrobin",
                       "hosts": [["H1", ":", "PA"], ["H1", ":", "PD"]], "verifyIp": True, "idle": idle, "redir": redir}
                user = "user1" if ta else "nuser1"
                caps = (2 if ta else 0) | (1 if sc else 0)
                hs = {"k": "hs", "cls": "valid", "caps": caps, "major": 1, "minor": 0}
                good = {"k": "create", "cls": "valid", "cookie": "good" if ta else "none"}
                auth = {"k": "auth", "cls": "valid"}
                outcomes = {
                    "accepted": (H_A, [hs, good, auth, {"k": "chan", "cls": "valid", "name": ["H1"], "port": "PA"}, {"k": "data", "n": 5}, {"k": "close"}]),
                    "wrongphase": (H_A, [hs, auth, good]),
                    "deniedhost": (H_A, [hs, good, auth, {"k": "chan", "cls": "valid", "name": ["H1"], "port": "PE"}]),
                    "unreachable": ({"hostName": ["H1"], "hostPort": "PD", "entry": ["H1", ":", "PD"]}, [hs, good, auth, {"k": "chan", "cls": "valid", "name": ["H1"], "port": "PD"}]),
                    "mismatch": (H_A, [{"k": "hs", "cls": "valid", "caps": 4 if caps else 4, "major": 1, "minor": 0}, good]),
                    "badcookie": (H_A, [hs, {"k": "create", "cls": "valid", "cookie": "bad"}, auth]),
                    "repeat": (H_A, [hs, hs]),
                    "closeearly": (H_A, [hs, good, auth, {"k": "close"}]),
                    # every step refused because it comes in the wrong phase: each refusal is a well-formed response of its own type
                    "createfirst": (H_A, [good]),
                    "createtwice": (H_A, [hs, good, good]),
                    "authfirst": (H_A, [auth]),
                    "chanfirst": (H_A, [{"k": "chan", "cls": "valid", "name": ["H1"], "port": "PA"}]),
                    "chanearly": (H_A, [hs, good, {"k": "chan", "cls": "valid", "name": ["H1"], "port": "PA"}]),
                    "authtwice": (H_A, [hs, good, auth, auth]),
                    # a client that offers no mechanism at all, and one that offers everything
                    "nomechanism": (H_A, [{"k": "hs", "cls": "valid", "caps": 0, "major": 1, "minor": 0}, good]),
                    "allmechanisms": (H_A, [{"k": "hs", "cls": "valid", "caps": 7, "major": 1, "minor": 0}, good]),
                }
                # the same accepted exchange once more after every kind of refusal happened on this gateway
                # instance: what a tunnel is answered must not depend on what other tunnels did before it
                outcomes["again"] = outcomes["accepted"]
                order = ["accepted"] + sorted(o for o in outcomes if o not in ("accepted", "again")) + ["again"]
                for on in order:
                    hp, steps = outcomes[on]
                    tun = dict(hp, user=user)
                    scripts.append({"id": "o%05d-%s" % (n, on), "origin": "c16:%s" % on, "cfg": cfg, "transport": ["ws", "legacy"][(h + len(on)) % 2], "tun": tun, "steps": steps})
                    n += 1
    return scripts


# ---------------------------------------------------------------- C02 at tunnel level: every forged cookie class

BAD_KINDS = ["garbage", "tiny", "tiny", "emptystr", "expired", "wrongkey", "algnone", "hs384", "hs512", "rs256", "wrongiss", "noiss", "revoked", "unknownat",
             "idperror", "nbffuture", "json", "flatjson", "nested", "mutpayload", "mutsig", "muthdr", "trunc", "emptykey", "expiredleeway"]


def gen_cookie_scripts(tier, seed):
    scripts = []
    reps = 2 if tier == "quick" else 12
    n = 0
    for sel in ("roundrobin", "unsigned", "any"):
        cfg = {"tokenAuth": True, "smartCard": False, "auth": "openid", "sel": sel,
               "hosts": [["H1", ":", "PA"]] if sel == "roundrobin" else [["H1", ":", "PA"], ["H1", ":", "PB"]], "verifyIp": True, "idle": 0}
        for kind in BAD_KINDS + ["good", "none"]:
            for rep in range(reps):
                for tr in ("ws", "legacy"):
                    for cls in ("valid", "long", "trunc") if kind in ("good", "expired") else ("valid",):
                        ck = kind if kind in ("good", "none") else "bad:" + kind
                        steps = [{"k": "hs", "cls": "valid", "caps": 2, "major": 1, "minor": 0}, {"k": "create", "cls": cls, "cookie": ck},
                                 {"k": "auth", "cls": "valid"}, {"k": "chan", "cls": "valid", "name": ["H1"], "port": "PA"}]
                        scripts.append({"id": "k%05d-%s" % (n, kind), "origin": "cookie:%s" % kind, "cfg": cfg, "transport": tr, "tun": dict(H_A, user="user1"), "steps": steps})
                        n += 1
    # both mechanisms enabled: whatever the client offered in the handshake (cookie, smart card, both), the tunnel request
    # is accepted with an acceptable cookie only
    cfg = {"tokenAuth": True, "smartCard": True, "auth": "openid", "sel": "roundrobin", "hosts": [["H1", ":", "PA"]], "verifyIp": True, "idle": 0}
    for offer in (1, 2, 3):
        for kind in ["good", "none", "bad:garbage", "bad:wrongkey", "bad:expired", "bad:emptystr"] + (["bad:" + k for k in BAD_KINDS] if tier == "thorough" else []):
            tr = ["ws", "legacy"][n % 2]
            steps = [{"k": "hs", "cls": "valid", "caps": offer, "major": 1, "minor": 0}, {"k": "create", "cls": "valid", "cookie": kind},
                     {"k": "auth", "cls": "valid"}, {"k": "chan", "cls": "valid", "name": ["H1"], "port": "PA"}]
            scripts.append({"id": "k%05d-sc%d" % (n, offer), "origin": "cookie:offer%d:%s" % (offer, kind), "cfg": cfg, "transport": tr, "tun": dict(H_A, user="user1"), "steps": steps})
            n += 1
    # right after an acceptable cookie was presented on the same gateway: a tunnel request that announces that cookie's
    # length and carries none (or half) of its bytes
    for sel in ("roundrobin", "unsigned"):
        cfg = {"tokenAuth": True, "smartCard": False, "auth": "openid", "sel": sel,
               "hosts": [["H1", ":", "PA"]] if sel == "roundrobin" else [["H1", ":", "PA"], ["H1", ":", "PB"]], "verifyIp": True, "idle": 0}
        for tr in ("ws", "legacy"):
            for rep in range(3 if tier == "quick" else 12):
                for cls in ("valid", "short", "wide"):
                    steps = [{"k": "hs", "cls": "valid", "caps": 2, "major": 1, "minor": 0}, {"k": "create", "cls": cls, "cookie": "good"},
                             {"k": "auth", "cls": "valid"}, {"k": "chan", "cls": "valid", "name": ["H1"], "port": "PA"}]
                    scripts.append({"id": "k%05d-%s" % (n, {"short": "announced", "wide": "wide"}.get(cls, "before")), "origin": "cookie:announced", "cfg": cfg, "transport": tr,
                                    "tun": dict(H_A, user="user1"), "steps": steps, "grp": "ann-%s-%s" % (sel, tr)})
                    n += 1
    scripts += gen_tokenauth_other_mechanism_scripts(tier, seed)
    # a cookie that is still acceptable (inside the leeway) when the connection is opened and has left the leeway when it
    # is presented on that connection 26 s later - and, for comparison, one presented right away
    cfg = {"tokenAuth": True, "smartCard": False, "auth": "openid", "sel": "roundrobin", "hosts": [["H1", ":", "PA"]], "verifyIp": True, "idle": 0}
    for tr in ("ws", "legacy"):
        for idle in (0, 26000):
            steps = [{"k": "hs", "cls": "valid", "caps": 2, "major": 1, "minor": 0}]
            if idle:
                steps.append({"k": "idle", "ms": idle})
            steps += [{"k": "create", "cls": "valid", "cookie": "ageing"}, {"k": "auth", "cls": "valid"}]
            scripts.insert(0, {"id": "k%05d-ageing%d" % (n, idle), "origin": "cookie:ageing", "cfg": dict(cfg, idle=1 + idle // 1000 + (0 if tr == "ws" else 100)), "transport": tr, "tun": dict(H_A, user="user1"), "steps": steps})
            n += 1
    return scripts

"""API-level families (no tunnel): C14 NTLM verifier, C19 RDP files, C18 config, C20 KDC proxy."""
import json, random, collections, re
from vlib import *


def _outcome():
    import check as chk
    return chk.Outcome()


def generic(pid, work, tier, seed, cmd, tracespec, scripts, design, sigfn, rule, owns=None, jobs=12, extra=None, script_of=None, gwbin="rdpgw", tag=None):
    """Run a driver over scripts, validate with a trace spec, confirm violations per signature."""
    out = _outcome()

    def run(ss, tag):
        sp = work.path("scripts-%s.ndjson" % tag)
        tp = work.path("trace-%s.ndjson" % tag)
        if ss is not None:
            write_ndjson(sp, ss)
        rep = run_driver(cmd, work, scripts=sp if ss is not None else None, out=tp, seed=seed, jobs=jobs, tier=tier, tag=tag, extra=extra, gw=gwbin)
        if ss is not None and rep.get("done") != len(ss):
            raise HarnessError("driver %s finished %s of %d scripts" % (cmd, rep.get("done"), len(ss)))
        res = trace_check(tracespec, tracespec + ".cfg", tp, work, tag="tv-" + tag)
        lines = read_ndjson(tp)
        viol = []
        for v in res["viol"]:
            ln = v[0]
            sid = lines[ln - 1].get("script")
            for i in range(ln - 1, -1, -1):
                if sid:
                    break
                if lines[i].get("ev") == "reset":
                    sid = lines[i].get("script")
                    break
            if sid and ss is not None and sid not in {x["id"] for x in ss} and ".t" in sid:
                sid = sid.rsplit(".t", 1)[0]     # a tunnel of a multi-tunnel script
            viol.append({"line": ln, "guard": v[1], "a": v[2], "b": v[3] if len(v) > 3 else "", "script": sid, "event": lines[ln - 1]})
        return rep, res, viol, lines
    tag = tag or pid.lower()
    rep, res, viol, lines = run(scripts, tag)
    owns = owns or (lambda v: guard_property(v["guard"]) == pid)
    mine = [v for v in viol if owns(v)]
    byid = {s["id"]: s for s in scripts} if scripts else {}
    # signatures that are listed as open known findings are expected on this tree: they are reported as such without
    # being executed a second time (everything else has to show again)
    known_open = {k["signature"] for k in load_known() if k.get("property") == pid and k.get("status") == "open"}
    expected = [v for v in mine if sigfn(v) in known_open]
    mine = [v for v in mine if sigfn(v) not in known_open]
    if mine:
        if scripts:
            per = {}
            for v in mine:
                l = per.setdefault(sigfn(v), [])
                if v["script"] not in l and len(l) < 3:
                    l.append(v["script"])
            sids = sorted({x for l in per.values() for x in l})
            rep2, res2, viol2, _ = run([byid[x] for x in sids if x in byid], tag + "-confirm")
        else:
            rep2, res2, viol2, _ = run(None, tag + "-confirm")
        again = {sigfn(v) for v in viol2 if owns(v)}
        if scripts and {sigfn(v) for v in mine} - again:
            # what a request is answered may depend on what the gateway instance served before it (state shared between
            # sessions / tunnels): signatures that do not show when their scripts run alone are looked for in a second
            # run of the whole script list, in the same order on the same partition of instances
            rep3, res3, viol3, _ = run(scripts, tag + "-confirm-all")
            again |= {sigfn(v) for v in viol3 if owns(v)}
        conf = [v for v in mine if sigfn(v) in again]
        if not conf:
            raise HarnessError("%s violations did not reproduce: %s; first observation: %s" % (pid, sorted({sigfn(v) for v in mine})[:5], json.dumps(mine[0]["event"])[:600]))
        mine = conf
    mine = mine + expected
    seen = set()
    for v in mine:
        sig = sigfn(v)
        if sig in seen:
            continue
        seen.add(sig)
        out.violations.append({"signature": sig, "what": "%s on %s" % (v["guard"], json.dumps(v["event"])[:300]), "guard": v["guard"], "script": byid.get(v["script"]), "event": v["event"],
                               "replay": "VERIF_SEED=%d ./bin/check %s --tier %s" % (seed, pid, tier)})
    others = sorted({v["guard"] for v in viol if not owns(v)})
    out.coverage = {"states": design.get("distinct", 0), "transitions": design.get("generated", 0),
                    "traces_validated_against_impl": len(scripts) if scripts else 1,
                    "evaluations": res["lines"], "distinct_nontrivial": len(res["cover"]),
                    "cells": sorted("/".join(map(str, c)) for c in res["cover"])[:400], "rule": rule, "trace_tlc": res["_tlc"],
                    "guards_of_other_properties_violated_in_these_traces": others,
                    "faults": (rep.get("faults") or [])[:5],
                    "samples": [{"script": scripts[0] if scripts else None, "trace": lines[:6]}], "exhaustive": False}
    out.assumptions = ["class<->bytes concretisation of the harness driver is trusted", "TLC 1.8 + CommunityModules Json"]
    return out, rep, res


# ------------------------------------------------------------------ C14

def ntlm_scripts(work, tier, seed):
    dot = work.path("ntlm.dot")
    design = design_check("Ntlm", "MC_Ntlm.cfg", work, workers=8, timeout=600, extra=["-dump", "dot,actionlabels", dot])
    nodes, roots, edges = parse_dot(dot)
    # the environment drives every action; project states onto what the environment can observe to reach them:
    # shortest action path to every node, then one script per edge
    adj = collections.defaultdict(list)
    for s, d, act, args in edges:
        adj[s].append((d, act, args))
    path = {r: [] for r in roots}
    q = collections.deque(roots)
    while q:
        n = q.popleft()
        for d, act, args in adj[n]:
            if d not in path:
                path[d] = path[n] + [(act, args)]
                q.append(d)
    seqs = set()
    for s, d, act, args in edges:
        if s in path:
            seqs.add(tuple(path[s] + [(act, args)]))
    seqs = sorted(seqs)
    rng = random.Random(seed)
    if tier == "quick" and len(seqs) > 2500:
        rng.shuffle(seqs)
        seqs = sorted(seqs[:2500])
    garb = ["notbase64", "random", "sig-only", "challenge-type", "trunc-auth", "bad-offsets", "short-neg"]
    scripts = []
    for i, sq in enumerate(seqs):
        acts = []
        for act, args in sq:
            a = [x.strip().strip('"') for x in (args or "").split(",")]
            if act == "Negotiate":
                # (every third script negotiates without the optional version field, as non-Windows clients do)
                acts.append({"a": "neg", "s": a[0], "nover": len(scripts) % 3 == 1})
            elif act == "Authenticate":
                acts.append({"a": "auth", "s": a[0], "u": a[1], "pw": a[2], "src": a[3], "dom": ["", "WORKGROUP", "example.com"][(len(scripts) + len(acts)) % 3]})
            elif act == "Replay":
                acts.append({"a": "replay", "s": a[0]})
            elif act == "Garbage":
                acts.append({"a": "garbage", "s": a[0], "g": garb[rng.randrange(len(garb) - 1)]})
        target = "grpc" if (i % 5 == 0) else "direct"
        if target == "direct" and i % 7 == 0:
            for x in acts:
                if x["a"] == "garbage":
                    x["g"] = "short-neg"
        scripts.append({"id": "n%05d" % i, "origin": "graph", "target": target, "actions": acts})
    # a failed attempt followed, without a new negotiate, by a message that names another user: whatever the service
    # remembers of the first attempt proves nothing for the second
    k = 0
    for first in (("bob", "wrong"), ("bob", "right"), ("ghost", "right"), ("alice", "wrong"), ("empty", "right")):
        for second in (("alice", "asbob"), ("alice", "wrong"), ("bob", "asbob"), ("ALICE", "asbob"), ("ghost", "asbob"), ("alice", "right")):
            for target in ("direct", "grpc"):
                acts = [{"a": "neg", "s": "s1"}, {"a": "auth", "s": "s1", "u": first[0], "pw": first[1], "src": "s1"},
                        {"a": "auth", "s": "s1", "u": second[0], "pw": second[1], "src": "s1"}, {"a": "replay", "s": "s1"}]
                scripts.append({"id": "na%05d" % k, "origin": "second-attempt", "target": target, "actions": acts})
                k += 1
    # seeded random long histories
    for i in range(100 if tier == "quick" else 3000):
        acts = []
        for _ in range(rng.randrange(4, 14)):
            s = rng.choice(["s1", "s2", "s3"])
            x = rng.random()
            if x < 0.3:
                acts.append({"a": "neg", "s": s})
            elif x < 0.75:
                acts.append({"a": "auth", "s": s, "u": rng.choice(["alice", "alice", "bob", "ghost", "empty"]), "pw": rng.choice(["right", "right", "wrong", "asbob"]), "src": rng.choice([s, s, "s1", "s2"])})
            elif x < 0.85:
                acts.append({"a": "replay", "s": s})
            else:
                acts.append({"a": "garbage", "s": s, "g": garb[rng.randrange(len(garb) - 1)]})
        scripts.append({"id": "nr%05d" % i, "origin": "rand", "target": "grpc" if i % 4 == 0 else "direct", "actions": acts})
    return design, scripts


def c14(work, tier, seed):
    design, scripts = ntlm_scripts(work, tier, seed)
    out, rep, res = generic("C14", work, tier, seed, "ntlm", "NtlmTrace", scripts, design,
                            lambda v: "%s/%s/%s" % (v["guard"], v["a"], v["b"]),
                            "Ntlm.tla: all histories of <=5 calls over 2 sessions (negotiate, authenticate as known/unknown/empty-password user with right/wrong password against this or the other session's challenge, replay, garbage) "
                            "(design). Conformance: one script per edge of that state graph (shortest path + edge) plus seeded random histories over 3 sessions, executed against the real ntlm.NTLMAuth and, for a fifth of them, "
                            "through gRPC against the real rdpgw-auth binary, with messages produced by real NTLMv2 client sessions; TLC tracks the pending challenge per session and judges every call")
    if rep.get("faults"):
        raise HarnessError("authentication service died during the run: %s" % rep["faults"][:1])
    return out


# ------------------------------------------------------------------ C19

def c19(work, tier, seed):
    design = design_check("MC_RdpFile", "MC_RdpFile.cfg" if tier == "quick" else "MC_RdpFile_thorough.cfg", work, workers=8, timeout=900)
    out, rep, res = generic("C19", work, tier, seed, "rdp", "RdpTrace", None, design,
                            lambda v: "%s/%s/%s" % (v["guard"], v["a"], v["b"]),
                            "RdpFile.tla: transcription of the line grammar; parse(marshal(m)) = m and rejection of malformed lines model-checked over the symbol alphabet (design). Conformance: the real reader on every text "
                            "over 12 symbols up to length 3 (quick) / 5 (thorough) and over 6 symbols up to length 5 / 7, plus assembled multi-line texts - TLC evaluates RdpFile!Parse per text and compares; the real writer/reader "
                            "round trip on random settings maps (colons, non-ASCII, 4 KiB lines); the real builder with every setting non-default alone and in random combinations, read back through NewBuilderFromFile; "
                            "templates with malformed lines; the real download handler with templates that try to override gateway-controlled settings")
    out.coverage["traces_validated_against_impl"] = res["lines"]
    return out


# ------------------------------------------------------------------ C18

def c18(work, tier, seed):
    dot = work.path("config.dot")
    design = design_check("Config", "MC_Config.cfg", work, workers=4, timeout=300, extra=["-dump", "dot", dot])
    nodes, roots, edges = parse_dot(dot)
    cfgs = [parse_tla_value(state_vars(nodes[n])["c"]) for n in sorted(nodes)]
    rng = random.Random(seed)
    scripts = []

    def reasons(c):
        r = []
        if "openid" in c["auth"] and not c["tokenAuth"]: r.append("a")
        if "local" in c["auth"] and c["tlsDisabled"]: r.append("b")
        if "ntlm" in c["auth"] and "kerberos" in c["auth"]: r.append("c")
        if "kerberos" in c["auth"] and not c["keytab"]: r.append("d")
        if c["sel"] == "signed" and not c["queryKey"]: r.append("e")
        if c["nhosts"] == 0: r.append("f")
        return r
    canon = [c for c in cfgs if c["spell"] == "canon"]
    other = [c for c in cfgs if c["spell"] != "canon"]
    if tier == "quick":
        # every configuration with at most one refusal reason from every source, a sample of the rest
        pick = [c for c in canon if len(reasons(c)) <= 1]
        rng.shuffle(pick)
        single = {}
        for c in pick:
            key = (tuple(reasons(c)), tuple(sorted(c["auth"])))
            single.setdefault(key, c)
            # the host list is needed whatever the selection mode, and every mode starts with one: per mode the
            # configurations without a refusal reason and with the empty host list as the only one
            if reasons(c) in ([], ["f"]):
                single.setdefault((tuple(reasons(c)), c["sel"], c["nhosts"]), c)
        chosen = list(single.values())
        rest = [c for c in canon if len(reasons(c)) > 1]
        rng.shuffle(rest)
        chosen += rest[:40]
        for i, c in enumerate(chosen):
            for src in (("file", "env", "both") if len(reasons(c)) <= 1 and i % 3 == 0 else (["file", "env", "both"][i % 3],)):
                scripts.append(dict(c, id="s%05d" % len(scripts), kind="start", src=src))
        # other spellings of the keyword values: per spelling every (single refusal reason, mechanism set) class whose
        # reason involves a keyword, and the configurations without any reason
        rng.shuffle(other)
        seen = set()
        for c in other:
            rs = reasons(c)
            if len(rs) > 1 or (rs and rs[0] in ("d", "f")):
                continue
            if c["spell"] == "alias" and "local" not in c["auth"]:
                continue
            key = (c["spell"], tuple(rs), tuple(sorted(c["auth"])))
            if key in seen:
                continue
            seen.add(key)
            scripts.append(dict(c, id="s%05d" % len(scripts), kind="start", src=["file", "env", "both"][len(scripts) % 3]))
    else:
        for c in cfgs:
            if c["spell"] == "alias" and "local" not in c["auth"]:
                continue
            for src in ("file", "env", "both"):
                scripts.append(dict(c, id="s%05d" % len(scripts), kind="start", src=src))
    for key in ("paasign", "sess", "sessenc", "userenc"):
        for ln in (0, 1, 31, 32) + ((33,) if tier == "thorough" else ()):
            scripts.append({"id": "x%05d" % len(scripts), "kind": "cross", "key": key, "len": ln, "auth": ["openid"], "src": "file"})
            if key in ("sess", "sessenc") and (tier == "thorough" or ln in (0, 31)):
                # the same with sessions kept in files (both gateways on one machine share the directory they are kept in)
                scripts.append({"id": "x%05d" % len(scripts), "kind": "cross", "key": key, "len": ln, "auth": ["openid"], "src": "file", "store": "file"})
    out, rep, res = generic("C18", work, tier, seed, "config", "ConfigTrace", scripts, design,
                            lambda v: "%s/%s/%s" % (v["guard"], v["a"], v["b"]),
                            "Config.tla: the lattice {auth subset x TLS x tokenauth x selection mode (roundrobin, signed, unsigned, any, an undocumented word) x query key x keytab x host count} x keyword spellings with the refusal table (design). Conformance: the real binary is started under "
                            "(quick) every configuration with at most one refusal reason per auth subset from file, environment and both plus a sample of multi-reason ones, (thorough) all of them x {file, env, both}; "
                            "outcome = exit vs listening; keys of length 0/1/31/32: what instance A mints (access cookie, session cookie, user token) is presented to instance B started from the same configuration; TLC judges with Config!Refuse / KeyKept",
                            jobs=16)
    return out


# ------------------------------------------------------------------ C20

def c20(work, tier, seed):
    dot = work.path("kdc.dot")
    design = design_check("KdcProxy", "MC_KdcProxy.cfg", work, workers=8, timeout=600)
    gen = tlc("KdcProxy", "MC_KdcProxyGen.cfg", work, workers=4, timeout=300, extra=["-dump", "dot", dot])
    if not gen["ok"]:
        raise HarnessError("KdcProxy generator run failed:\n" + tail_errors(gen["out"]))
    nodes, roots, edges = parse_dot(dot)
    rng = random.Random(seed)
    inits = []
    for n in roots:
        v = state_vars(nodes[n])
        inits.append((parse_tla_value(v["req"]), parse_tla_value(v["beh"])))
    inits.sort(key=lambda x: json.dumps(x, sort_keys=True))
    SIZE = {"s0": 0, "s3": 0, "s4": 0, "s1400": None, "s60000": 60000, "smax": 131000 - 200}
    scripts = []

    def conc(b, h):
        if b == "reply":
            return [{"tcp": "reply-close", "udp": "silent"}, {"tcp": "reply-keepopen", "udp": "silent"}, {"tcp": "silent", "udp": "reply"}, {"tcp": "reply-close", "udp": "reply"}][h % 4]
        if b == "refuse":
            return {"tcp": "refuse", "udp": "refuse"}
        return {"tcp": b, "udp": "silent"}
    chosen = inits
    if tier == "quick":
        # every request class with one KDC environment each (sizes rotating) + for the valid request every
        # (size class, behaviour of each KDC) combination with the realm alternating
        valid = [x for x in inits if x[0]["method"] == "POST" and x[0]["len"] == "ok" and x[0]["body"] == "valid" and x[0]["realm"] != "unknown"]
        other = [x for x in inits if x not in valid]
        rng.shuffle(other)
        seen, keep = set(), []
        for x in other:
            k = json.dumps({a: b for a, b in x[0].items() if a not in ("size", "after")}, sort_keys=True)
            if k not in seen:
                seen.add(k)
                keep.append(x)
        seenv, keepv = set(), []
        rng.shuffle(valid)
        # ... and, right after a request for another realm / an unknown realm on the same proxy, every behaviour pair
        for x in valid:
            if x[0]["after"] != "nothing" and x[0]["size"] == "s1400":
                k = json.dumps([x[0]["after"], x[0]["realm"], sorted(x[1].values())], sort_keys=True)
                if k not in seenv:
                    seenv.add(k)
                    keepv.append(x)
        for x in valid:
            k = json.dumps([x[0]["size"], x[1]], sort_keys=True)
            if k not in seenv:
                seenv.add(k)
                keepv.append(x)
        chosen = keep + keepv
    for i, (req, beh) in enumerate(chosen):
        h = stable_hash(json.dumps([req, beh], sort_keys=True) + str(seed))
        kd = [conc(beh[k], h + j) for j, k in enumerate(sorted(beh))]
        if h % 5 == 0:
            kd = kd[:1]
        elif h % 7 == 0 and "reply" in beh.values():
            kd = kd + [conc("reply", h)]
        size = SIZE[req["size"]]
        if size is None:
            size = [1, 100, 1400, 5000][h % 4]
        scripts.append({"id": "q%05d" % i, "method": ["GET", "PUT", "DELETE"][h % 3] if req["method"] == "GET" else "POST", "len": req["len"], "body": req["body"], "realm": req["realm"],
                        "size": size, "sizecls": req["size"], "kdcs": kd, "target": "handler", "after": req.get("after", "nothing")})
    # reply lengths around the places where the length encoding of the wrapping changes (128, 256, 65536)
    lens = list(range(112, 136)) + list(range(244, 264)) + [65500, 65524, 65528, 65532, 65536, 65540, 100000]
    for k, rl in enumerate(lens if tier == "quick" else lens + list(range(1, 112)) + list(range(264, 300))):
        scripts.append({"id": "r%05d" % len(scripts), "method": "POST", "len": "ok", "body": "valid", "realm": ["default", "configured"][k % 2], "size": 100, "sizecls": "s1400",
                        "kdcs": [{"tcp": "reply-close", "udp": "silent"}], "target": "handler", "after": "nothing", "replyLen": rl})
    # several requests at the same time on one proxy instance (every KDC delays its reply so that they overlap): what a
    # request is answered does not depend on the others
    base = [x for x in scripts if x["method"] == "POST" and x["len"] == "ok" and x["body"] == "valid" and x["realm"] != "unknown" and x["sizecls"] in ("s4", "s1400", "s60000")]
    rng.shuffle(base)
    seen = set()
    for x in base:
        k = json.dumps(x["kdcs"], sort_keys=True)
        if k in seen or any(kd["tcp"] == "silent" and kd["udp"] == "silent" for kd in x["kdcs"]) and tier == "quick" and len(seen) > 6:
            continue
        seen.add(k)
        scripts.append(dict(x, id="o%05d" % len(scripts), overlap=[1, 2, 3][len(seen) % 3]))
        if len(seen) >= (14 if tier == "quick" else 60):
            break
    out, rep, res = generic("C20", work, tier, seed, "kdc", "KdcTrace", scripts, design,
                            lambda v: "%s/%s" % (v["guard"], "valid" if v["a"].startswith("POST.ok.valid") else v["a"]),
                            "KdcProxy.tla: request classes x KDC behaviours for 2 KDCs, safety invariants and liveness (every request is answered) under fairness (design). Conformance: requests enumerated by TLC "
                            "(method x length x body x realm x behaviour of each KDC in {reply, partial, close, silent, refuse}) with Kerberos payloads of 0 B..128 KiB sent to the real kdcproxy.Handler configured with a "
                            "generated krb5.conf pointing at fake TCP+UDP KDCs; status, latency, bytes at the KDCs and the returned KDC-PROXY-MESSAGE judged by TLC", jobs=32)
    return out

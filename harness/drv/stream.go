package drv

import (
	"verifharness/envx"
	"sync"
	"strings"
	"bytes"
	"encoding/binary"
	"encoding/json"
	"fmt"
	"math/rand"
	"sort"
	"time"

	"verifharness/gw"
	"verifharness/tsgu"
	"verifharness/wsraw"
)

// FrScript is a framing scenario: a packet sequence plus a segmentation.
type FrScript struct {
	Script
	Mode   string   `json:"mode"`   // msg (one ws message / chunk per segment) | frag (ws continuation frames) | rawchunk (chunks independent of TCP writes)
	Bounds []int    `json:"bounds"` // packet indices (1-based) after which the stream is cut; nil = after every packet
	Cuts   [][2]int `json:"cuts"`   // extra cuts inside packets: [packet index, byte offset (negative = from the end)]
	BadLen [][2]int `json:"badlen"` // [packet index, length-field value] overrides
	// Empties (websocket, mode msg): before the segments with these indices (0-based) an EMPTY binary message is sent -
	// a segmentation with two cuts at the same position
	Empties []int `json:"empties,omitempty"`
	// EndWith (legacy, mode msg): the last segment's chunk and the chunk that ends the request body leave in ONE write
	EndWith bool `json:"endWith,omitempty"`
}

func (f *FrScript) key() string {
	b, _ := json.Marshal(struct {
		C ScriptCfg
		T TunParams
		S []map[string]interface{}
		B [][2]int
	}{f.Cfg, f.Tun, f.Steps, f.BadLen})
	return string(b)
}

type FrResult struct {
	resps   [][]int // [pt, statusHi, statusLo]
	backend int
	recvs   [][2]int
	reads   []int
	order   []M // read / recv events in the order the hooks saw them
	exited  bool
	panicked bool
	stuck    bool // the gateway did not go on although the client had sent a whole segment
}

// runFraming executes one segmentation and returns what the gateway did.
func (i *Inst) runFraming(f *FrScript, rng *rand.Rand, segmented bool) (stream []M, res FrResult, err error) {
	pc := i.NewProtoCtx(f.Script, rng)
	var pkts [][]byte
	for idx, st := range f.Steps {
		p, _, e := pc.Build(st)
		if e != nil {
			return nil, res, e
		}
		declared := len(p)
		for _, bl := range f.BadLen {
			if bl[0] == idx+1 {
				binary.LittleEndian.PutUint32(p[4:], uint32(bl[1]))
				declared = bl[1]
				if bl[1] < 8 {
					p = p[:8] // a malformed header is not followed by a body
				}
			}
		}
		pkts = append(pkts, p)
		stream = append(stream, M{"pt": int(binary.LittleEndian.Uint16(p[0:])), "size": declared, "wire": len(p)})
	}
	// segmentation: cut points as absolute offsets
	var all []byte
	starts := []int{}
	for _, p := range pkts {
		starts = append(starts, len(all))
		all = append(all, p...)
	}
	cutset := map[int]bool{}
	if !segmented || f.Bounds == nil {
		for k := 1; k < len(pkts); k++ {
			cutset[starts[k]] = true
		}
	} else {
		for _, b := range f.Bounds {
			if b >= 1 && b < len(pkts) {
				cutset[starts[b]] = true
			}
		}
	}
	if segmented {
		for _, c := range f.Cuts {
			pi := c[0] - 1
			if pi < 0 || pi >= len(pkts) {
				continue
			}
			off := c[1]
			if off < 0 {
				off = len(pkts[pi]) + off
			}
			if off <= 0 || off >= len(pkts[pi]) {
				continue
			}
			cutset[starts[pi]+off] = true
		}
	}
	cuts := []int{}
	for c := range cutset {
		cuts = append(cuts, c)
	}
	sort.Ints(cuts)
	var segs [][]byte
	prev := 0
	for _, c := range append(cuts, len(all)) {
		if c > prev {
			segs = append(segs, all[prev:c])
			prev = c
		}
	}
	t, rep, err := i.Open(pc.OpenOpts())
	if err != nil {
		return stream, res, fmt.Errorf("open: %w", err)
	}
	if t == nil {
		return stream, res, fmt.Errorf("open refused: %d", rep.Status)
	}
	defer t.Close()
	p := i.P
	start := p.Mark()
	beA := i.Backends["A"]
	hostConns0 := beA.NConns()
	// consumed waits until the gateway's transport reads (hook tr.read) after
	// `from` add up to want bytes, then until the loop is idle again (about to
	// read: tr.reading) or gone (proc.exit). Waiting for tr.reading only from
	// the completing read on avoids matching an earlier, stale idle event.
	consumed := func(from, want int) (ok bool, gone bool) {
		deadline := time.Now().Add(15 * time.Second)
		got, i := 0, from
		for got < want {
			idx, ev := p.Wait(i, time.Until(deadline), func(e gw.Event) bool {
				return e.Cid == t.Cid && ((e.Pt == "tr.read" && e.Int(0) > 0) || e.Pt == "proc.exit")
			})
			if idx < 0 {
				return false, false
			}
			if ev.Pt == "proc.exit" {
				return true, true
			}
			got += ev.Int(0)
			i = idx + 1
		}
		idx, ev := p.Wait(i, time.Until(deadline), func(e gw.Event) bool {
			return e.Cid == t.Cid && (e.Pt == "tr.reading" || e.Pt == "proc.exit")
		})
		if idx < 0 {
			return false, false
		}
		return true, ev.Pt == "proc.exit"
	}
	diag := func(from int) string {
		var evd []string
		for _, e := range p.Since(from) {
			evd = append(evd, fmt.Sprintf("%d:%s:%s:%s", e.Seq, e.Pt, e.Cid, e.Role))
		}
		return fmt.Sprintf("alive=%v cid=%s events=%v", p.Alive(), t.Cid, evd)
	}
	exited := false
	endSent := false
	mode := f.Mode
	if !segmented {
		mode = "msg"
	}
	if mode == "frag" && t.WS != nil {
		// each packet as one websocket message made of continuation frames
		for pi, pk := range pkts {
			var parts [][]byte
			lo := starts[pi]
			prev := 0
			for _, c := range cuts {
				if c > lo && c < lo+len(pk) {
					parts = append(parts, pk[prev:c-lo])
					prev = c - lo
				}
			}
			parts = append(parts, pk[prev:])
			mark := p.Mark()
			if err := t.WS.WriteFragmented(parts); err != nil {
				break
			}
			ok, gone := consumed(mark, len(pk))
			if !ok {
				if !p.Alive() {
					return stream, res, fmt.Errorf("gateway did not consume a fragmented message (%s)", diag(mark))
				}
				// the gateway sits on bytes the client has sent and does not go on: the client stops here and closes;
				// the packets that were not processed show in the comparison with the unsegmented run
				res.stuck = true
				break
			}
			if gone {
				exited = true
				break
			}
		}
	} else {
		for si, sg := range segs {
			mark := p.Mark()
			var e error
			if t.WS != nil {
				for _, k := range f.Empties {
					if k == si && segmented {
						t.WS.WriteBinary([]byte{})
						time.Sleep(2 * time.Millisecond)
					}
				}
				e = t.WS.WriteBinary(sg)
			} else if f.EndWith && segmented && mode == "msg" && si == len(segs)-1 {
				// the last chunk of data and the terminating chunk in one write
				e = t.In.WriteRaw(append(wsraw.Chunk(sg), []byte("0\r\n\r\n")...))
				endSent = true
			} else if mode == "rawchunk" {
				// one HTTP chunk for the segment, written in two TCP writes
				ch := wsraw.Chunk(sg)
				h := len(ch) / 2
				e = t.In.WriteRaw(ch[:h])
				if e == nil {
					time.Sleep(2 * time.Millisecond)
					e = t.In.WriteRaw(ch[h:])
				}
			} else {
				e = t.In.WriteChunk(sg)
			}
			if e != nil {
				break
			}
			ok, gone := consumed(mark, len(sg))
			if !ok {
				if !p.Alive() {
					return stream, res, fmt.Errorf("gateway did not consume a segment of %d bytes (%s)", len(sg), diag(mark))
				}
				res.stuck = true
				break
			}
			if gone {
				exited = true
				break
			}
		}
	}
	// the client is done: close its side and let the loop end
	if !exited {
		if t.WS != nil {
			t.WS.WriteRawFrame(8, true, []byte{0x03, 0xe8})
		} else {
			if !endSent {
				t.In.WriteRaw([]byte("0\r\n\r\n"))
			}
			t.In.Close()
		}
		if idx, _ := p.Wait(start, 15*time.Second, func(e gw.Event) bool { return e.Cid == t.Cid && e.Pt == "proc.exit" }); idx < 0 {
			return stream, res, fmt.Errorf("packet loop did not end after the client closed")
		}
	}
	res.exited = true
	nresp, fwd := 0, 0
	for _, ev := range p.Since(start) {
		if ev.Cid != t.Cid {
			continue
		}
		if ev.Panicking {
			res.panicked = true
		}
		switch ev.Pt {
		case "tr.read":
			if ev.Int(0) > 0 {
				res.reads = append(res.reads, ev.Int(0))
				res.order = append(res.order, M{"ev": "read", "n": ev.Int(0)})
			}
		case "proc.recv":
			res.recvs = append(res.recvs, [2]int{ev.Int(0), ev.Int(1)})
			res.order = append(res.order, M{"ev": "recv", "pt": ev.Int(0), "size": ev.Int(1), "mode": f.Mode, "transport": f.Transport})
		case "tun.write.end":
			if ev.Role == "loop" {
				nresp++
			}
		case "relay.c2b":
			fwd += ev.Int(0)
		}
	}
	res.backend = fwd
	// what counts is what the host got: the bytes that arrived on the connection this tunnel opened, up to its end
	// (the packet loop is gone, so the gateway has closed that connection or is about to)
	if beA.NConns() > hostConns0 {
		bc := beA.Conn(hostConns0)
		// (generous limits: they are reached only when something is wrong - or the machine is very busy)
		bc.WaitClosed(20 * time.Second)
		if fwd > 0 {
			bc.WaitRecv(fwd, 10*time.Second)
		}
		res.backend = len(bc.Bytes())
	}
	for k := 0; k < nresp; k++ {
		b, e := t.recvNonData(5 * time.Second)
		if e != nil {
			break
		}
		d := tsgu.Decode(b)
		res.resps = append(res.resps, []int{d.Type, hi(d.Status), lo(d.Status)})
	}
	return stream, res, nil
}

// RunFraming runs the unsegmented reference (cached per packet list) and the
// segmented execution, and appends the trace.
func (i *Inst) RunFraming(f *FrScript, tw *TraceWriter, rng *rand.Rand, refs map[string]FrResult) error {
	k := f.key()
	ref, ok := refs[k]
	faults0 := len(i.P.Faults())
	if !ok {
		if len(f.BadLen) == 0 {
			_, r, err := i.runFraming(f, rand.New(rand.NewSource(1)), false)
			if err != nil {
				return fmt.Errorf("reference run: %w", err)
			}
			ref = r
		}
		refs[k] = ref
	}
	stream, res, err := i.runFraming(f, rand.New(rand.NewSource(1)), true)
	if err != nil {
		return err
	}
	tw.Line(M{"ev": "reset", "script": f.ID, "origin": f.Origin, "transport": f.Transport, "mode": f.Mode, "stream": stream})
	for _, e := range res.order {
		tw.Line(e)
	}
	panicked := res.panicked
	_ = faults0
	tw.Line(M{"ev": "end", "mode": f.Mode, "transport": f.Transport, "resps": nn(res.resps), "refresps": nn(ref.resps), "backend": res.backend, "refbackend": ref.backend, "k": len(res.recvs), "refk": len(ref.recvs),
		"exited": res.exited, "panicked": panicked, "nreads": len(res.reads), "stuck": res.stuck})
	return nil
}

func nn(x [][]int) [][]int {
	if x == nil {
		return [][]int{}
	}
	return x
}

// ------------------------------------------------------------------ relay (C06)

// RlScript is a relay scenario on an open channel.
type RlScript struct {
	Script
	Actions []map[string]interface{} `json:"actions"` // {"a":"cs","decl":d,"carr":c} | {"a":"bs","n":size}
}

func sizeCls(n int) string {
	switch {
	case n == 0:
		return "0"
	case n == 1:
		return "1"
	case n < 4085:
		return "small"
	case n <= 4087:
		return fmt.Sprint(n)
	case n == 4096:
		return "4096"
	case n <= 8192:
		return "le8192"
	case n <= 65535:
		return "le65535"
	default:
		return "big"
	}
}

func prng(seed int64, n int) []byte {
	b := make([]byte, n)
	rand.New(rand.NewSource(seed)).Read(b)
	return b
}

// RunRelay opens a channel and replays client/host data actions in order.
func (i *Inst) RunRelay(r *RlScript, tw *TraceWriter, rng *rand.Rand) error {
	pc := i.NewProtoCtx(r.Script, rng)
	t, rep, err := i.Open(pc.OpenOpts())
	if err != nil {
		return fmt.Errorf("open: %w", err)
	}
	if t == nil {
		return fmt.Errorf("open refused: %d", rep.Status)
	}
	defer t.Close()
	be := i.Backends["A"]
	n0 := be.NConns()
	for _, st := range r.Steps {
		pkt, _, err := pc.Build(st)
		if err != nil {
			return err
		}
		re, err := t.Step(pkt)
		if err != nil {
			return err
		}
		if re.End {
			return fmt.Errorf("set-up step %v ended the tunnel", st["k"])
		}
	}
	if !be.WaitConn(n0+1, 5*time.Second) {
		return fmt.Errorf("host saw no connection")
	}
	bc := be.Conn(n0)
	tw.Line(M{"ev": "reset", "script": r.ID, "origin": r.Origin, "transport": r.Transport})
	hostPos := 0     // bytes the host has received so far
	prodSeed := rng.Int63()
	produced := []byte{}
	received := []byte{}
	for ai, a := range r.Actions {
		switch str(a, "a", "") {
		case "cs":
			decl, carr := num(a, "decl", 0), num(a, "carr", 0)
			payload := prng(rng.Int63(), carr)
			re, err := t.Step(tsgu.Data(uint16(decl), payload))
			if err != nil {
				return fmt.Errorf("action %d: %w", ai, err)
			}
			// wait for what the hooks say was written to the host
			if re.FwdBytes > 0 {
				bc.WaitRecv(hostPos+re.FwdBytes, 5*time.Second)
			} else {
				time.Sleep(time.Millisecond)
			}
			all := bc.Bytes()
			got := all[hostPos:]
			hostPos = len(all)
			pre := len(got) <= len(payload) && bytes.Equal(got, payload[:len(got)])
			if len(got) > len(payload) {
				pre = false
			}
			tw.Line(M{"ev": "c2b", "transport": r.Transport, "decl": decl, "carr": carr, "got": len(got), "prefix": pre, "end": re.End, "hookbytes": re.FwdBytes, "skipped": re.Skipped})
		case "burst":
			// several well-formed DATA packets delivered to the gateway in ONE transport write
			// (one websocket message / one HTTP chunk): the host must get the concatenated payloads
			var sizes []int
			if v, ok := a["sizes"].([]interface{}); ok {
				for _, x := range v {
					if f, ok := x.(float64); ok {
						sizes = append(sizes, int(f))
					}
				}
			}
			var raw, want []byte
			for _, n := range sizes {
				pl := prng(rng.Int63(), n)
				raw = append(raw, tsgu.Data(uint16(n), pl)...)
				want = append(want, pl...)
			}
			mark := i.P.Mark()
			if err := t.SendRaw(raw); err != nil {
				if !i.P.Alive() {
					return fmt.Errorf("action %d: %w", ai, err)
				}
				// the gateway hung up on a well-formed burst: nothing of it reached the host
				tw.Line(M{"ev": "c2b", "transport": r.Transport, "decl": len(want), "carr": len(want), "got": 0, "prefix": true, "end": true, "hookbytes": 0, "skipped": false, "burst": len(sizes)})
				return nil
			}
			// the loop handles the packets it frames out of that write; wait until it is idle again or gone
			steps, ended, sawRead := 0, false, false
			deadline := time.Now().Add(10 * time.Second)
			from := mark
			for steps < len(sizes) && !ended {
				idx, ev := i.P.Wait(from, time.Until(deadline), func(e gw.Event) bool {
					return e.Cid == t.Cid && (e.Pt == "proc.step" || e.Pt == "proc.exit" || e.Pt == "tr.reading" || e.Pt == "tr.read")
				})
				if idx < 0 {
					break
				}
				from = idx + 1
				switch ev.Pt {
				case "proc.step":
					steps++
				case "proc.exit":
					ended = true
					t.Exited = true
				case "tr.read":
					sawRead = true
				case "tr.reading":
					// idle again (after having read this write) although not all packets were handled: the rest was dropped.
					// A tr.reading that precedes the read of this write belongs to the previous packet.
					if sawRead && ev.Seq > 0 {
						// only what the gateway had read BEFORE this idle point counts (the log may already hold later events)
						got := 0
						for _, e := range i.P.Since(mark) {
							if e.Seq >= ev.Seq {
								break
							}
							if e.Cid == t.Cid && e.Pt == "tr.read" && e.Int(0) > 0 {
								got += e.Int(0)
							}
						}
						if got >= len(raw) {
							steps = len(sizes) + 1
						}
					}
				}
			}
			fwd := 0
			for _, e := range i.P.Since(mark) {
				if e.Cid == t.Cid && e.Pt == "relay.c2b" {
					fwd += e.Int(0)
				}
			}
			if fwd > 0 {
				bc.WaitRecv(hostPos+fwd, 5*time.Second)
			}
			all := bc.Bytes()
			got := all[hostPos:]
			hostPos = len(all)
			pre := len(got) <= len(want) && bytes.Equal(got, want[:len(got)])
			nread := 0
			for _, e := range i.P.Since(mark) {
				if e.Cid == t.Cid && e.Pt == "tr.read" && e.Int(0) > 0 {
					nread += e.Int(0)
				}
			}
			tw.Line(M{"ev": "c2b", "transport": r.Transport, "decl": len(want), "carr": len(want), "got": len(got), "prefix": pre, "end": ended, "hookbytes": fwd, "skipped": false, "burst": len(sizes),
				"dbgSteps": steps, "dbgRead": nread, "dbgRaw": len(raw)})
		case "burstclose":
			// well-formed DATA packets followed by CLOSE_CHANNEL, in ONE transport write (or, with "apart", as writes
			// sent back to back without waiting in between): the channel ends in an orderly way and everything the
			// client sent before closing has reached the host by the time the host sees the end of its connection
			var sizes []int
			if v, ok := a["sizes"].([]interface{}); ok {
				for _, x := range v {
					if f, ok := x.(float64); ok {
						sizes = append(sizes, int(f))
					}
				}
			}
			apart := a["apart"] == true
			slowHost := a["slowhost"] == true
			if slowHost {
				// a busy host: it is behind in reading when the close comes (what is still on its way must arrive all the same)
				bc.SetSlow(100*time.Millisecond, 2*time.Millisecond)
				time.Sleep(5 * time.Millisecond)
			}
			var raw, want []byte
			var parts [][]byte
			for _, n := range sizes {
				pl := prng(rng.Int63(), n)
				raw = append(raw, tsgu.Data(uint16(n), pl)...)
				parts = append(parts, tsgu.Data(uint16(n), pl))
				want = append(want, pl...)
			}
			raw = append(raw, tsgu.CloseChannel(0)...)
			parts = append(parts, tsgu.CloseChannel(0))
			var serr error
			if apart {
				for _, pt := range parts {
					if serr = t.SendRaw(pt); serr != nil {
						break
					}
				}
			} else {
				serr = t.SendRaw(raw)
			}
			if serr != nil && !i.P.Alive() {
				return fmt.Errorf("action %d: %w", ai, serr)
			}
			hostEnd := bc.WaitClosed(map[bool]time.Duration{false: 8 * time.Second, true: 30 * time.Second}[slowHost])
			if hostEnd == "" {
				// the host connection is still open: give late bytes the benefit of the doubt, then take what is there
				bc.WaitRecv(hostPos+len(want), 2*time.Second)
			}
			all := bc.Bytes()
			got := all[hostPos:]
			hostPos = len(all)
			pre := len(got) <= len(want) && bytes.Equal(got, want[:len(got)])
			tw.Line(M{"ev": "c2b", "transport": r.Transport, "decl": len(want), "carr": len(want), "got": len(got), "prefix": pre, "end": false, "hookbytes": 0, "skipped": false, "burst": len(sizes),
				"closing": true, "apart": apart, "hostEnd": hostEnd, "slowhost": slowHost})
			return nil
		case "bcrowd":
			// the host streams n bytes to a client that reads in bursts with pauses (the gateway's writes to it do not
			// complete in one go) WHILE k other tunnels on the same gateway relay streams of their own to clients that
			// read slowly too: what this client receives is still its own host's stream, exactly
			n, k := num(a, "n", 4<<20), num(a, "k", 6)
			type comp struct {
				t  *TunConn
				bc *envx.BConn
			}
			var comps []comp
			for j := 0; j < k; j++ {
				pcj := i.NewProtoCtx(r.Script, rand.New(rand.NewSource(rng.Int63())))
				nb := be.NConns()
				tj, _, err := i.Open(pcj.OpenOpts())
				if err != nil || tj == nil {
					return fmt.Errorf("companion tunnel %d: %v", j, err)
				}
				defer tj.Close()
				okc := true
				for _, st := range r.Steps {
					pkt, _, err := pcj.Build(st)
					if err != nil {
						return err
					}
					if re, err := tj.Step(pkt); err != nil || re.End {
						okc = false
						break
					}
				}
				if !okc || !be.WaitConn(nb+1, 5*time.Second) {
					return fmt.Errorf("companion tunnel %d could not be set up", j)
				}
				comps = append(comps, comp{tj, be.Conn(nb)})
			}
			stopC := make(chan struct{})
			var cwg sync.WaitGroup
			for j, c := range comps {
				cwg.Add(2)
				go func(j int, c comp) { // the companion's host
					defer cwg.Done()
					buf := prng(prodSeed+int64(1000+j), 1<<16)
					for {
						select {
						case <-stopC:
							return
						default:
						}
						if c.bc.Send(buf) != nil {
							return
						}
					}
				}(j, c)
				go func(c comp) { // the companion's slow client
					defer cwg.Done()
					for cnt := 0; ; cnt++ {
						select {
						case <-stopC:
							return
						default:
						}
						if _, err := c.t.Recv(500 * time.Millisecond); err != nil && err.Error() != "timeout" {
							return
						}
						if cnt%8 == 0 {
							time.Sleep(2 * time.Millisecond)
						}
					}
				}(c)
			}
			chunk := prng(prodSeed+int64(ai), n)
			produced = append(produced, chunk...)
			sendErr := make(chan error, 1)
			go func() { sendErr <- bc.Send(chunk) }()
			npk, rcv, allwf := 0, 0, true
			deadline := time.Now().Add(60 * time.Second)
			for len(received) < len(produced) && time.Now().Before(deadline) {
				b, err := t.Recv(5 * time.Second)
				if err != nil {
					if strings.Contains(err.Error(), "unframeable") {
						allwf = false // what the gateway sent at this point is not the head of a packet
					}
					break
				}
				d := tsgu.Decode(b)
				if d.Type != tsgu.PktData {
					allwf = false
					continue
				}
				npk++
				if !d.WellForm || d.HdrLen != d.WireLen {
					allwf = false
				}
				received = append(received, d.Payload...)
				rcv += len(d.Payload)
				if npk%16 == 0 {
					time.Sleep(3 * time.Millisecond)
				}
			}
			close(stopC)
			for _, c := range comps {
				c.bc.Close()
				c.t.Close()
			}
			cwg.Wait()
			pre := len(received) <= len(produced) && bytes.Equal(received, produced[:len(received)])
			tw.Line(M{"ev": "b2c", "transport": r.Transport, "n": n, "sizecls": "crowded", "npk": npk, "rcv": rcv, "prefix": pre, "allwf": allwf})
			select {
			case <-sendErr:
			case <-time.After(10 * time.Second):
			}
			if len(received) < len(produced) || !pre {
				bc.Close()
				return nil
			}
		case "reout":
			// legacy: while the host is sending, the client sends a second RDG_OUT_DATA request under the tunnel's
			// identifier and reads on there.  What it reads - the rest of the old connection up to its end, then the
			// new connection after its HTTP answer - is still the host's stream, exactly, in well-formed packets
			if t.In == nil {
				return fmt.Errorf("reout needs the legacy transport")
			}
			n := num(a, "n", 1<<20)
			chunk := prng(prodSeed+int64(ai), n)
			produced = append(produced, chunk...)
			sendDone := make(chan error, 1)
			go func() {
				// in pieces, so that the relay is writing all the time while the second request is handled
				for off := 0; off < len(chunk); off += 2048 {
					if err := bc.Send(chunk[off:min(off+2048, len(chunk))]); err != nil {
						sendDone <- err
						return
					}
					if off%(64<<10) == 0 {
						time.Sleep(time.Millisecond)
					}
				}
				sendDone <- nil
			}()
			time.Sleep(time.Duration(num(a, "afterms", 3)) * time.Millisecond)
			npk, rcv, allwf := 0, 0, true
			take := func(b []byte) {
				d := tsgu.Decode(b)
				if d.Type != tsgu.PktData {
					allwf = false
					return
				}
				npk++
				if !d.WellForm || d.HdrLen != d.WireLen {
					allwf = false
				}
				received = append(received, d.Payload...)
				rcv += len(d.Payload)
			}
			// "gated": the handler of the second request is held right after it has made the new connection the one the
			// tunnel answers on (hook point legacy.out.attached) while the host keeps sending, then let go
			gated := a["gated"] == true && !i.Cfg.NoHooks
			if gated {
				gm := i.P.Mark()
				if err := i.P.Gate("legacy.out.attached", t.Cid, ""); err != nil {
					return err
				}
				go func() {
					i.P.Wait(gm, 5*time.Second, func(e gw.Event) bool { return e.Cid == t.Cid && e.Pt == "legacy.out.attached" && e.Gated })
					time.Sleep(40 * time.Millisecond)
					i.P.Release("legacy.out.attached", t.Cid, "", 2)
					i.P.Ungate("legacy.out.attached", t.Cid, "")
				}()
			}
			o2, rep2, derr := wsraw.DialLegacyOut(i.dialOpts(pc.OpenOpts(), t.Cid))
			answered := derr == nil && o2 != nil
			// the rest of the old connection, up to its end
			for {
				b, err := t.Out.ReadPacket(3 * time.Second)
				if err != nil {
					if err.Error() != "EOF" && err.Error() != "closed" && err.Error() != "timeout" && !strings.Contains(err.Error(), "reset") {
						allwf = false // the old connection ended in the middle of a packet
					}
					break
				}
				take(b)
			}
			if answered {
				t.Out.Close()
				t.Out = o2
				deadline := time.Now().Add(20 * time.Second)
				for len(received) < len(produced) && time.Now().Before(deadline) {
					b, err := t.Out.ReadPacket(5 * time.Second)
					if err != nil {
						if err.Error() != "timeout" {
							allwf = false
						}
						break
					}
					take(b)
				}
			} else {
				allwf = false
				_ = rep2
			}
			pre := len(received) <= len(produced) && bytes.Equal(received, produced[:len(received)])
			tw.Line(M{"ev": "b2c", "transport": r.Transport, "n": n, "sizecls": map[bool]string{false: "second-out", true: "second-out-held"}[gated], "npk": npk, "rcv": rcv, "prefix": pre, "allwf": allwf, "answered": answered})
			select {
			case <-sendDone:
			case <-time.After(10 * time.Second):
			}
			if !answered || !pre || len(received) < len(produced) {
				bc.Close()
				return nil
			}
		case "bstall":
			// the host streams n bytes while the client does not read for ms milliseconds (the gateway's writes to the
			// client block on full socket buffers) and then reads everything: the stream must be the host's, exactly
			n, ms := num(a, "n", 24<<20), num(a, "ms", 6500)
			chunk := prng(prodSeed+int64(ai), n)
			produced = append(produced, chunk...)
			sendErr := make(chan error, 1)
			go func() { sendErr <- bc.Send(chunk) }()
			time.Sleep(time.Duration(ms) * time.Millisecond)
			npk, rcv, allwf := 0, 0, true
			deadline := time.Now().Add(40 * time.Second)
			for len(received) < len(produced) && time.Now().Before(deadline) {
				b, err := t.Recv(5 * time.Second)
				if err != nil {
					if strings.Contains(err.Error(), "unframeable") {
						allwf = false // what the gateway sent at this point is not the head of a packet
					}
					break
				}
				d := tsgu.Decode(b)
				if d.Type != tsgu.PktData {
					allwf = false
					continue
				}
				npk++
				if !d.WellForm || d.HdrLen != d.WireLen {
					allwf = false
				}
				received = append(received, d.Payload...)
				rcv += len(d.Payload)
			}
			pre := len(received) <= len(produced) && bytes.Equal(received, produced[:len(received)])
			tw.Line(M{"ev": "b2c", "transport": r.Transport, "n": n, "sizecls": "stalled-client", "npk": npk, "rcv": rcv, "prefix": pre, "allwf": allwf})
			if len(received) < len(produced) || !pre {
				// the stream broke: what follows on this tunnel says nothing more
				bc.Close()
				return nil
			}
			select {
			case <-sendErr:
			case <-time.After(10 * time.Second):
			}
		case "bs":
			n := num(a, "n", 1)
			chunk := prng(prodSeed+int64(ai), n)
			produced = append(produced, chunk...)
			if err := bc.Send(chunk); err != nil {
				return fmt.Errorf("host write: %w", err)
			}
			npk, rcv, allwf := 0, 0, true
			deadline := time.Now().Add(10 * time.Second)
			for len(received) < len(produced) && time.Now().Before(deadline) {
				b, err := t.Recv(time.Until(deadline))
				if err != nil {
					if strings.Contains(err.Error(), "unframeable") {
						allwf = false
					}
					break
				}
				d := tsgu.Decode(b)
				if d.Type != tsgu.PktData {
					allwf = false
					continue
				}
				npk++
				if !d.WellForm || d.HdrLen != d.WireLen {
					allwf = false
				}
				received = append(received, d.Payload...)
				rcv += len(d.Payload)
			}
			pre := len(received) <= len(produced) && bytes.Equal(received, produced[:len(received)])
			tw.Line(M{"ev": "b2c", "transport": r.Transport, "n": n, "sizecls": sizeCls(n), "npk": npk, "rcv": rcv, "prefix": pre, "allwf": allwf})
		}
	}
	return nil
}

------------------------------- MODULE Lifecycle -------------------------------
(* The life of a tunnel inside the gateway process at the grain of the hook      *)
(* points of the implementation (gateway.go HandleGatewayProtocol /              *)
(* handle*Protocol, track.go, process.go Process, common.go readMessage /        *)
(* forward / receive, tunnel.go Write): HTTP handler invocations, the legacy     *)
(* OUT/IN pairing through the connection cache, the registry critical sections,  *)
(* the packet loop, the host connection, the relay goroutine and the writer      *)
(* section of the client transport.                                              *)
(*                                                                               *)
(* One action per hook point.  Every action X is given as                        *)
(*     Pre_X(u, ..)  the set of NAMES of the preconditions that do not hold      *)
(*     Eff_X(u, ..)  the tunnel record after the step                            *)
(* The system specification takes X when Pre_X = {} (and explores every          *)
(* interleaving of several tunnels' goroutines); the trace specification         *)
(* (LifecycleTrace) replays the hook events recorded from the real gateway in    *)
(* the gateway's own order through the same Eff_X and reports every name in      *)
(* Pre_X - so an implementation step that the design does not allow is reported  *)
(* with the property it breaks (C01 dial / relay gates, C07 pairing, C09 mutual  *)
(* exclusion, C11 release order).                                                *)
EXTENDS Integers, Sequences, FiniteSets, TLC

Roles == {"handler", "loop", "relay"}

\* state of one tunnel object
Fresh(cid) == [cid |-> cid,
               tr |-> "unknown",      \* "ws" | "legacy"
               out |-> "none",        \* legacy OUT side: none | attached | accepted | published
               h |-> "none",          \* serving handler: none | open | drained | registering | serving | unregistering | unregistered
               hin |-> 0,             \* HTTP handler invocations currently inside HandleGatewayProtocol for this tunnel
               loop |-> "none",       \* none | idle | reading | handling | exited
               relay |-> "none",      \* none | running | exited
               reg |-> FALSE,         \* in the connection registry
               dials |-> 0, conn |-> FALSE,
               wr |-> {},             \* goroutine roles inside Tunnel.Write
               cur |-> 0,             \* type of the packet the loop is handling (0 = none)
               prog |-> 0,            \* how far the packets RECEIVED so far got through handshake(1), tunnel create(4), tunnel auth(6)
               user |-> "",           \* the user the tunnel acts for ("" = nobody yet)
               resp |-> 0]            \* packets the loop has written to the client since it took up the current packet (capped at 2)

VARIABLES st,       \* tunnel object -> record
          regBusy   \* tunnel objects inside RegisterTunnel / RemoveTunnel
vars == <<st, regBusy>>

Known(u) == u \in DOMAIN st
Get(u, cid) == IF Known(u) THEN st[u] ELSE Fresh(cid)
Put(u, r) == [x \in DOMAIN st \cup {u} |-> IF x = u THEN r ELSE st[x]]
If(c, name) == IF c THEN {} ELSE {name}

-------------------------------------------------------------------------------
\* HTTP handler enters / leaves
Pre_Enter(u, cid, found) ==
  If(Known(u) => st[u].cid = cid, "G_C07_OneConnectionIdPerTunnel")
  \* the connection cache hands out a tunnel only under the id its OUT side published it with
  \cup If(found => (Known(u) /\ st[u].out = "published"), "G_C07_FoundOnlyIfPublished")
Eff_Enter(u, cid) == [Get(u, cid) EXCEPT !.hin = @ + 1]
\* the request that makes the tunnel object (found = FALSE) gives it the user the authentication backend confirmed for
\* that request; a request that finds the object in the cache joins it and changes nothing
Eff_EnterAs(u, cid, found, usr) == [Eff_Enter(u, cid) EXCEPT !.user = IF found THEN @ ELSE usr]

\* the last handler leaving a tunnel leaves nothing behind
Pre_Exit(u) ==
  LET t == st[u] IN
  If(t.hin > 0, "G_C11_ExitMatchesEnter")
  \cup If(t.hin = 1 => (~t.reg /\ t.loop \in {"none", "exited"} /\ t.h \in {"none", "unregistered"}), "G_C11_HandlerLeavesClean")
Eff_Exit(u) == [st[u] EXCEPT !.hin = IF @ > 0 THEN @ - 1 ELSE 0]

\* websocket: upgrade done, transport attached
Pre_WsOpen(u) == If(st[u].hin > 0 /\ st[u].tr = "unknown" /\ st[u].h = "none", "G_C07_TransportAttachedOnce")
Eff_WsOpen(u) == [st[u] EXCEPT !.tr = "ws", !.h = "open"]

\* legacy OUT side: attached, accepted (200 sent), published in the cache under its connection id
\* (a second RDG_OUT_DATA request may replace the connection the tunnel answers on: not while a writer is inside the
\* writer section, and no packet of the tunnel goes out on the new connection before the response to that request -
\* i.e. between "attached" and "accepted" - see Pre_WriteBegin)
Pre_OutAttached(u) == If(st[u].hin > 0 /\ st[u].tr # "ws", "G_C07_TransportAttachedOnce")
                      \cup If(st[u].wr = {}, "G_C09_OutReplacedOutsideTheWriterSection")
Eff_OutAttached(u) == [st[u] EXCEPT !.tr = "legacy", !.out = "attached"]
Pre_OutAccepted(u) == If(st[u].out = "attached", "G_C07_OutOrder")
Eff_OutAccepted(u) == [st[u] EXCEPT !.out = "accepted"]
Pre_OutPublished(u) == If(st[u].out = "accepted", "G_C07_OutOrder")
Eff_OutPublished(u) == [st[u] EXCEPT !.out = "published"]

\* legacy IN side pairs with the tunnel whose OUT side is published, once
Pre_InAttached(u) ==
  If(st[u].out = "published", "G_C07_InPairsWithPublishedOut")
  \cup If(st[u].h = "none" /\ st[u].hin > 0, "G_C07_TransportAttachedOnce")
Eff_InAttached(u) == [st[u] EXCEPT !.h = "open"]
Pre_InDrained(u) == If(st[u].h = "open" /\ st[u].tr = "legacy", "G_C07_OutOrder")
Eff_InDrained(u) == [st[u] EXCEPT !.h = "drained"]

\* registry critical sections
Pre_RegBegin(u) ==
  If(regBusy = {}, "G_C09_RegistrySerialised")
  \cup If(st[u].h = (IF st[u].tr = "ws" THEN "open" ELSE "drained") /\ ~st[u].reg, "G_C11_RegisterOnce")
Eff_RegBegin(u) == [st[u] EXCEPT !.h = "registering"]
Pre_RegEnd(u) == If(st[u].h = "registering" /\ u \in regBusy, "G_C09_RegistrySerialised")
Eff_RegEnd(u) == [st[u] EXCEPT !.h = "serving", !.reg = TRUE]
Pre_UnregBegin(u) ==
  If(regBusy = {}, "G_C09_RegistrySerialised")
  \cup If(st[u].loop = "exited" /\ st[u].reg /\ st[u].h = "serving", "G_C11_UnregisterAfterLoop")
Eff_UnregBegin(u) == [st[u] EXCEPT !.h = "unregistering"]
Pre_UnregEnd(u) == If(st[u].h = "unregistering" /\ u \in regBusy, "G_C09_RegistrySerialised")
Eff_UnregEnd(u) == [st[u] EXCEPT !.h = "unregistered", !.reg = FALSE]

\* packet loop
Pre_Reading(u) == If(st[u].reg /\ st[u].h = "serving" /\ st[u].loop \in {"none", "idle"}, "G_C11_LoopOnlyWhileRegistered")
Eff_Reading(u) == [st[u] EXCEPT !.loop = "reading"]
Pre_Read(u) == If(st[u].loop = "reading", "G_C08_OneReaderPerTunnel")
Eff_Read(u) == [st[u] EXCEPT !.loop = "idle"]
\* packet types of MS-TSGU as the loop sees them
T_HS == 1  T_CREATE == 4  T_AUTH == 6  T_CHAN == 8  T_DATA == 10  T_KEEPALIVE == 13  T_CLOSE == 16
\* a request packet is answered by exactly one packet before the next one is taken up; data, keepalives and unknown
\* types are not answered at all; a tunnel that ends while handling a packet has sent at most one packet for it
Requests == {T_HS, T_CREATE, T_AUTH, T_CHAN}
Answered(t) == IF t \in Requests THEN 1 ELSE 0
Unanswered == {T_DATA, T_KEEPALIVE}
NextProg(pr, t) == IF (pr = 0 /\ t = T_HS) \/ (pr = 1 /\ t = T_CREATE) \/ (pr = 2 /\ t = T_AUTH) THEN pr + 1 ELSE pr
Pre_Recv(u, t) == If(st[u].loop = "idle", "G_C08_OneReaderPerTunnel")
Eff_Recv(u, t) == [st[u] EXCEPT !.loop = "handling", !.cur = t, !.prog = NextProg(@, t), !.resp = 0]
\* the user the tunnel acts for when a packet arrives (usr, "?" = not reported) is the one it was opened as.  The one
\* place where it is set again is the tunnel request (its access cookie names the user): a change can show at the packet
\* that follows a tunnel request received in order (prog = 2), never later and never before
Pre_RecvAs(u, t, usr) == Pre_Recv(u, t) \cup If(usr \in {"?", st[u].user} \/ st[u].prog = 2, "G_C05_TunnelUserIsTheConfirmedOne")
Eff_RecvAs(u, t, usr) == [Eff_Recv(u, t) EXCEPT !.user = IF usr = "?" THEN @ ELSE usr]
Pre_Step(u) == If(st[u].loop = "handling", "G_C08_OneReaderPerTunnel")
               \cup If(st[u].loop = "handling" => (st[u].cur # T_CLOSE /\ st[u].resp = Answered(st[u].cur)), "G_C16_OneResponsePerRequestPacket")
Eff_Step(u) == [st[u] EXCEPT !.loop = "idle", !.cur = 0]
Pre_LoopExit(u) == If(st[u].loop \in {"none", "idle", "handling", "reading"} /\ st[u].h = "serving", "G_C11_LoopExitsOnce")
                   \cup If(st[u].loop = "handling" => (st[u].resp <= 1 /\ (st[u].cur \in Unanswered => st[u].resp = 0)), "G_C16_OneResponsePerRequestPacket")
Eff_LoopExit(u) == [st[u] EXCEPT !.loop = "exited"]

\* host connection: attempted by the loop while it handles a packet, at most once per tunnel
Pre_Dial(u) ==
  If(st[u].loop = "handling", "G_C01_DialByTheLoopOnly")
  \cup If(st[u].dials = 0 /\ ~st[u].conn, "G_C01_AtMostOneDial")
  \* seen from inside the gateway: only while a channel request is being handled, and only on a tunnel that has
  \* received handshake, tunnel create and tunnel authorisation in that order before
  \cup If(st[u].cur = T_CHAN /\ st[u].prog = 3, "G_C01_DialOnlyForAChannelRequestAfterTheSteps")
Eff_Dial(u) == [st[u] EXCEPT !.dials = IF @ < 2 THEN @ + 1 ELSE @]
Pre_Dialed(u, ok) == If(st[u].dials >= 1 /\ st[u].loop = "handling" /\ ~st[u].conn, "G_C01_DialByTheLoopOnly")
Eff_Dialed(u, ok) == [st[u] EXCEPT !.conn = ok]

\* payload towards the host: by the loop, on a connected tunnel
Pre_ToHost(u) == If(st[u].loop = "handling" /\ st[u].conn, "G_C01_ForwardOnlyOnAConnectedTunnel")
                 \cup If(st[u].cur = T_DATA, "G_C01_ForwardOnlyDataPackets")
Eff_ToHost(u) == st[u]

\* relay goroutine (host -> client): exists only for a connected tunnel
Pre_RelayRead(u) == If(st[u].conn /\ st[u].relay \in {"none", "running"}, "G_C01_RelayOnlyAfterConnect")
Eff_RelayRead(u) == [st[u] EXCEPT !.relay = "running"]
Pre_RelayExit(u) == If(st[u].conn /\ st[u].relay \in {"none", "running"}, "G_C11_RelayExitsOnce")
Eff_RelayExit(u) == [st[u] EXCEPT !.relay = "exited"]

\* writer section of the client transport
Pre_WriteBegin(u, role) ==
  If(st[u].wr = {}, "G_C09_OneWriterPerClient")
  \cup If(role = "loop" => st[u].loop = "handling", "G_C16_ResponsesOnlyWhileHandling")
  \cup If(role = "relay" => (st[u].conn /\ st[u].relay = "running"), "G_C01_RelayOnlyAfterConnect")
  \cup If(role \in {"loop", "relay"}, "G_C09_OneWriterPerClient")
  \cup If(st[u].out # "attached", "G_C09_NoPacketBeforeTheResponseToTheOutRequest")
Eff_WriteBegin(u, role) == [st[u] EXCEPT !.wr = @ \cup {role}, !.resp = IF role = "loop" /\ @ < 2 THEN @ + 1 ELSE @]
Pre_WriteEnd(u, role) == If(role \in st[u].wr, "G_C09_OneWriterPerClient")
Eff_WriteEnd(u, role) == [st[u] EXCEPT !.wr = @ \ {role}]

-------------------------------------------------------------------------------
\* The system: the goroutines of a few tunnels, every interleaving.
CONSTANTS Tunnels,   \* tunnel objects of the model
          Kind       \* tunnel object -> "ws" | "legacy"

Cid(u) == u   \* distinct connection identifiers
UserOf(u) == u   \* and distinct users

Init == st = [u \in Tunnels |-> Fresh(Cid(u))] /\ regBusy = {}

Take(pre, u, r) == pre = {} /\ st' = Put(u, r) /\ UNCHANGED regBusy

\* at most two handler invocations per tunnel are explored (legacy: OUT then IN); found = the cache holds it
Enter(u) == /\ st[u].hin = 0 /\ st[u].h = "none"
            /\ IF Kind[u] = "ws" THEN st[u].tr = "unknown" ELSE st[u].out \in {"none", "published"}
            /\ Take(Pre_Enter(u, Cid(u), st[u].out = "published"), u, Eff_EnterAs(u, Cid(u), st[u].out = "published", UserOf(u)))
Exit(u) == /\ st[u].hin > 0
           /\ (st[u].h \in {"none", "unregistered"} /\ st[u].out \in {"none", "published"})
           /\ (st[u].h = "none" => (Kind[u] = "legacy" /\ st[u].out = "published"))
           /\ Take(Pre_Exit(u), u, Eff_Exit(u))
WsOpen(u) == Kind[u] = "ws" /\ st[u].hin > 0 /\ st[u].h = "none" /\ Take(Pre_WsOpen(u), u, Eff_WsOpen(u))
OutAttached(u) == Kind[u] = "legacy" /\ st[u].hin > 0 /\ st[u].out = "none" /\ Take(Pre_OutAttached(u), u, Eff_OutAttached(u))
OutAccepted(u) == st[u].out = "attached" /\ Take(Pre_OutAccepted(u), u, Eff_OutAccepted(u))
OutPublished(u) == st[u].out = "accepted" /\ Take(Pre_OutPublished(u), u, Eff_OutPublished(u))
InAttached(u) == Kind[u] = "legacy" /\ st[u].hin > 0 /\ st[u].out = "published" /\ st[u].h = "none" /\ Take(Pre_InAttached(u), u, Eff_InAttached(u))
InDrained(u) == st[u].tr = "legacy" /\ st[u].h = "open" /\ Take(Pre_InDrained(u), u, Eff_InDrained(u))
RegBegin(u) == /\ st[u].h = (IF st[u].tr = "ws" THEN "open" ELSE "drained") /\ st[u].tr # "unknown"
               /\ Pre_RegBegin(u) = {} /\ st' = Put(u, Eff_RegBegin(u)) /\ regBusy' = regBusy \cup {u}
RegEnd(u) == st[u].h = "registering" /\ Pre_RegEnd(u) = {} /\ st' = Put(u, Eff_RegEnd(u)) /\ regBusy' = regBusy \ {u}
Reading(u) == st[u].h = "serving" /\ st[u].loop \in {"none", "idle"} /\ Take(Pre_Reading(u), u, Eff_Reading(u))
Read(u) == st[u].loop = "reading" /\ Take(Pre_Read(u), u, Eff_Read(u))
Recv(u) == st[u].loop = "idle" /\ \E t \in {T_HS, T_CREATE, T_AUTH, T_CHAN, T_DATA, T_KEEPALIVE, T_CLOSE} : Take(Pre_RecvAs(u, t, st[u].user), u, Eff_RecvAs(u, t, st[u].user))
Step(u) == /\ st[u].loop = "handling" /\ st[u].wr \cap {"loop"} = {}
           /\ st[u].cur # T_CLOSE /\ st[u].resp = Answered(st[u].cur)
           /\ Take(Pre_Step(u), u, Eff_Step(u))
\* the loop ends: a read failed (client gone), a packet was refused, or a close was answered
LoopExit(u) == st[u].h = "serving" /\ st[u].loop \in {"idle", "handling"} /\ st[u].wr \cap {"loop"} = {} /\ Take(Pre_LoopExit(u), u, Eff_LoopExit(u))
Dial(u) == st[u].loop = "handling" /\ st[u].dials = 0 /\ st[u].cur = T_CHAN /\ st[u].prog = 3 /\ Take(Pre_Dial(u), u, Eff_Dial(u))
Dialed(u) == st[u].loop = "handling" /\ st[u].dials = 1 /\ ~st[u].conn /\ st[u].relay = "none"
             /\ \E ok \in BOOLEAN : Take(Pre_Dialed(u, ok), u, Eff_Dialed(u, ok))
ToHost(u) == st[u].loop = "handling" /\ st[u].conn /\ st[u].cur = T_DATA /\ Take(Pre_ToHost(u), u, Eff_ToHost(u))
RelayRead(u) == st[u].conn /\ st[u].relay \in {"none", "running"} /\ "relay" \notin st[u].wr /\ Take(Pre_RelayRead(u), u, Eff_RelayRead(u))
\* the relay ends when its read from the host fails: the host hung up, or the loop closed the connection on its way out
RelayExit(u) == st[u].conn /\ st[u].relay \in {"none", "running"} /\ "relay" \notin st[u].wr /\ Take(Pre_RelayExit(u), u, Eff_RelayExit(u))
WriteBegin(u, role) == /\ role \notin st[u].wr
                       /\ (role = "loop" => (st[u].loop = "handling" /\ st[u].resp = 0 /\ st[u].cur \in Requests \cup {T_CLOSE}))
                       /\ (role = "relay" => st[u].relay = "running")
                       /\ Take(Pre_WriteBegin(u, role), u, Eff_WriteBegin(u, role))
WriteEnd(u, role) == role \in st[u].wr /\ Take(Pre_WriteEnd(u, role), u, Eff_WriteEnd(u, role))
UnregBegin(u) == /\ st[u].h = "serving" /\ st[u].loop = "exited"
                 /\ Pre_UnregBegin(u) = {} /\ st' = Put(u, Eff_UnregBegin(u)) /\ regBusy' = regBusy \cup {u}
UnregEnd(u) == st[u].h = "unregistering" /\ Pre_UnregEnd(u) = {} /\ st' = Put(u, Eff_UnregEnd(u)) /\ regBusy' = regBusy \ {u}

Next == \E u \in Tunnels :
          \/ Enter(u) \/ Exit(u) \/ WsOpen(u) \/ OutAttached(u) \/ OutAccepted(u) \/ OutPublished(u) \/ InAttached(u) \/ InDrained(u)
          \/ RegBegin(u) \/ RegEnd(u) \/ Reading(u) \/ Read(u) \/ Recv(u) \/ Step(u) \/ LoopExit(u)
          \/ Dial(u) \/ Dialed(u) \/ ToHost(u) \/ RelayRead(u) \/ RelayExit(u)
          \/ (\E role \in {"loop", "relay"} : WriteBegin(u, role) \/ WriteEnd(u, role))
          \/ UnregBegin(u) \/ UnregEnd(u)
Spec == Init /\ [][Next]_vars

-------------------------------------------------------------------------------
\* What the design guarantees (checked for every interleaving of the model's tunnels)
TypeOK == \A u \in DOMAIN st : st[u].hin \in 0..2 /\ st[u].dials \in 0..2 /\ st[u].wr \subseteq {"loop", "relay"}
\* C09
RegistryMutex == Cardinality(regBusy) <= 1
WriteMutex == \A u \in DOMAIN st : Cardinality(st[u].wr) <= 1
\* C11
LoopImpliesRegistered == \A u \in DOMAIN st : st[u].loop \in {"idle", "reading", "handling"} => st[u].reg
NothingLeftWhenHandlersAreGone ==
  \A u \in DOMAIN st : (st[u].hin = 0 /\ st[u].h # "none") => (~st[u].reg /\ st[u].loop = "exited" /\ st[u].h = "unregistered")
\* C01
AtMostOneDial == \A u \in DOMAIN st : st[u].dials <= 1
RelayNeedsConnection == \A u \in DOMAIN st : st[u].relay # "none" => st[u].conn
ConnectionNeedsRegisteredLoop == \A u \in DOMAIN st : st[u].conn => st[u].dials = 1
ConnectionNeedsTheSteps == \A u \in DOMAIN st : st[u].dials > 0 => st[u].prog = 3
\* C05 / C07: a tunnel acts for the user it was opened as, whatever the other tunnels do
UserIsTheOneItWasOpenedAs == \A u \in DOMAIN st : st[u].user \in {"", UserOf(u)} /\ (st[u].loop # "none" => st[u].user = UserOf(u))
\* C11: the registry holds exactly the tunnels that are being served
RegCount(s) == Cardinality({x \in DOMAIN s : s[x].reg})
\* C09 / C06: nothing is written to the client between the attachment of an OUT connection and the response to its request
NoWriterBeforeTheAccept == \A u \in DOMAIN st : st[u].out = "attached" => st[u].wr = {}
\* C16
ResponseDiscipline == \A u \in DOMAIN st : st[u].resp <= 1 /\ (st[u].cur \in Unanswered => st[u].resp = 0)
\* C07
PairingById == \A u \in DOMAIN st : st[u].cid = Cid(u)
InOnlyAfterPublish == \A u \in DOMAIN st : (st[u].tr = "legacy" /\ st[u].h # "none") => st[u].out = "published"
=============================================================================

package main

import "google.golang.org/grpc"

type drvConn struct{ c *grpc.ClientConn }

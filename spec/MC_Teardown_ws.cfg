SPECIFICATION Spec
CONSTANTS Transport = "ws"
INVARIANTS NothingBeforeTheEnd GaugeNeverNegative
PROPERTIES EndingReleasesEverything ReleasedIsStable
CHECK_DEADLOCK FALSE

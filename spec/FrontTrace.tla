------------------------------ MODULE FrontTrace ------------------------------
(* Trace specification for C05: requests to /remoteDesktopGateway/ of the real   *)
(* binary (real rdpgw-auth behind it) under every startable mechanism set.       *)
EXTENDS Front, Json, TLCExt, IOUtils
TTraceFile == IF "TRACE" \in DOMAIN IOEnv THEN IOEnv.TRACE ELSE "trace.ndjson"
TraceLog == ndJsonDeserialize(TTraceFile)
VARIABLES l, viol, cover
tvars == <<m, r, reached, jar, n, l, viol, cover>>
Line == TraceLog[l]
Range(s) == {s[i] : i \in 1..Len(s)}
\* e: [mechs, method, authz (class name), scheme, wellFormed, confirmed, free, status, challenges, reached, user, wantUser, panicked]
Bad(e) ==
  LET ms == Range(e.mechs)
      rq == [scheme |-> e.scheme, wellFormed |-> e.wellFormed, confirmed |-> e.confirmed] IN
  (IF ~e.free /\ MayNotReach(ms, rq) /\ e.reached THEN {IF Len(e.prior) > 0 THEN "G_C05_HistoryOpensNothing" ELSE "G_C05_OnlyConfirmedCredentials"} ELSE {})
  \cup (IF ~e.free /\ ShouldReach(ms, rq) /\ ~e.reached THEN {"G_C05_ConfirmedCredentialsReach"} ELSE {})
  \cup (IF e.reached /\ ~OpenAtHttp(ms) /\ e.user # e.wantUser THEN {"G_C05_UserIsTheConfirmedOne"} ELSE {})
  \cup (IF e.scheme = "none" /\ ~OpenAtHttp(ms) /\ ~(e.status = 401 /\ Range(e.challenges) = Challenges(ms)) THEN {"G_C05_ChallengePerScheme"} ELSE {})
  \cup (IF e.panicked THEN {"G_C10_NoPanic"} ELSE {})
\* a tunnel opened with confirmed credentials acts for that user at every packet it receives, whatever other requests
\* (other users, failed or missing credentials) the gateway served in between
BadTun(e) == IF \E k \in 1..Len(e.seen) : e.seen[k] # e.confirmed THEN {"G_C05_TunnelUserIsTheConfirmedOne"} ELSE {}
IsTun == Line.ev = "tunuser"
TInit == /\ l = 1 /\ viol = {} /\ cover = {} /\ m = {"openid"} /\ r = [scheme |-> "none", wellFormed |-> FALSE, confirmed |-> FALSE]
         /\ reached = TRUE /\ jar = FALSE /\ n = 1
TNext == /\ l <= Len(TraceLog)
         /\ viol' = viol \cup (IF IsTun THEN {<<l, g, Line.cls, Line.transport>> : g \in BadTun(Line)} ELSE {<<l, g, Line.cls, Line.authz>> : g \in Bad(Line)})
         /\ cover' = cover \cup (IF IsTun THEN {<<"tunuser", Line.cls, Line.transport, Line.scheme>>}
                                  ELSE {<<Line.cls, Line.authz, Line.reached>>} \cup (IF Len(Line.prior) > 0 THEN {<<"after", Line.prior[Len(Line.prior)], Line.authz, Line.cookies > 0>>} ELSE {}))
         /\ l' = l + 1 /\ UNCHANGED <<m, r, reached, jar, n>>
TSpec == TInit /\ [][TNext]_tvars
AtEnd == l = Len(TraceLog) + 1 =>
           PrintT(<<"VERIF_RESULT", ToJson([viol |-> viol, cover |-> cover, lines |-> Len(TraceLog)])>>)
TraceAccepted == TLCGet("stats").diameter = Len(TraceLog) + 1
=============================================================================

// Package pam is a pure-Go stand-in for github.com/msteinert/pam/v2 used only
// by the verification harness (the sandbox has no PAM headers). It keeps the
// API surface cmd/auth uses. Policy of the stub "PAM stack": user U is
// authenticated iff the conversation answers the echo-off prompt with
// "pw-"+U; users starting with "locked" fail account management; for users
// starting with "slow" the stack takes 400 ms to answer (a directory lookup).
package pam

import (
	"errors"
	"strings"
	"time"
)

type Style int

const (
	PromptEchoOff Style = 1
	PromptEchoOn  Style = 2
	ErrorMsg      Style = 3
	TextInfo      Style = 4
	BinaryPrompt  Style = 7
)

type Flags int

type Transaction struct {
	user    string
	handler func(Style, string) (string, error)
}

func StartFunc(service, user string, handler func(Style, string) (string, error)) (*Transaction, error) {
	if strings.HasPrefix(user, "startfail") {
		return nil, errors.New("pam stub: start failed")
	}
	return &Transaction{user: user, handler: handler}, nil
}

func (t *Transaction) End() error { return nil }

func (t *Transaction) Authenticate(f Flags) error {
	pw, err := t.handler(PromptEchoOff, "Password: ")
	if err != nil {
		return err
	}
	if strings.HasPrefix(t.user, "slow") {
		time.Sleep(400 * time.Millisecond)
	}
	if t.user != "" && pw == "pw-"+t.user {
		return nil
	}
	return errors.New("Authentication failure")
}

func (t *Transaction) AcctMgmt(f Flags) error {
	if strings.HasPrefix(t.user, "locked") {
		return errors.New("User account has expired")
	}
	return nil
}

SPECIFICATION TSpec
CONSTANTS
  Browsers = {"b1"}
  MaxAge = 1
INVARIANT AtEnd
POSTCONDITION TraceAccepted
CHECK_DEADLOCK FALSE

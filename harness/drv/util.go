package drv

import "encoding/base64"

func b64std(s string) string { return base64.StdEncoding.EncodeToString([]byte(s)) }

--------------------------------- MODULE Front ---------------------------------
(* The HTTP front door of the gateway endpoint (main.go route table, web/basic,  *)
(* web/ntlm, SPNEGO): which requests reach the tunnel handler, as whom, and what *)
(* a request without credentials is told.                                        *)
EXTENDS Integers, Sequences, FiniteSets, TLC

Mechs == {"openid", "kerberos", "local", "ntlm"}
\* configurations that can be started (Config!Refuse): not ntlm together with kerberos
Startable(m) == m # {} /\ ~({"ntlm", "kerberos"} \subseteq m)

\* the scheme a request's (first) Authorization header uses
Schemes == {"none", "empty", "basic", "ntlm", "negotiate-ntlm", "negotiate-krb", "other"}
\* mechanism that serves a scheme
Serves(s) == CASE s = "basic" -> "local" [] s = "ntlm" -> "ntlm" [] s = "negotiate-ntlm" -> "ntlm" [] s = "negotiate-krb" -> "kerberos" [] OTHER -> "nobody"

\* r: [scheme, wellFormed, confirmed]  confirmed = the authentication backend confirms these credentials
\*    (for NTLM that includes: negotiate and authenticate on the same connection, in that order)
OpenAtHttp(m) == m = {"openid"}
ShouldReach(m, r) == OpenAtHttp(m) \/ (Serves(r.scheme) \in m /\ r.wellFormed /\ r.confirmed)
MayNotReach(m, r) == ~OpenAtHttp(m) /\ ~(Serves(r.scheme) \in m /\ r.wellFormed /\ r.confirmed)

\* challenges offered to a request without Authorization header
Challenges(m) == (IF "ntlm" \in m THEN {"NTLM", "Negotiate"} ELSE {})
                 \cup (IF "local" \in m THEN {"Basic"} ELSE {})
                 \cup (IF "kerberos" \in m THEN {"Negotiate"} ELSE {})

\* ---- the table as a model (every configuration x request class) ----------------
VARIABLES m, r
Init == /\ m \in {x \in SUBSET Mechs : Startable(x)}
        /\ r \in [scheme : Schemes, wellFormed : BOOLEAN, confirmed : BOOLEAN]
Next == UNCHANGED <<m, r>>
Spec == Init /\ [][Next]_<<m, r>>
ExactlyOne == ShouldReach(m, r) # MayNotReach(m, r)
DisabledSchemeNeverReaches == (~OpenAtHttp(m) /\ Serves(r.scheme) \notin m) => MayNotReach(m, r)
NoCredentialsNeverReach == (~OpenAtHttp(m) /\ r.scheme \in {"none", "empty", "other"}) => MayNotReach(m, r)
SomethingToTry == ~OpenAtHttp(m) => Challenges(m) # {}
=============================================================================

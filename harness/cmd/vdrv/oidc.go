package main

import (
	"math/rand"

	"verifharness/drv"
)

func init() {
	commands["oidc"] = func(rep *report) error {
		var ss []*drv.OiScript
		if err := loadJSONL(*fScripts, func() interface{} { return &drv.OiScript{} }, func(v interface{}) { ss = append(ss, v.(*drv.OiScript)) }); err != nil {
			return err
		}
		return grouped(rep, len(ss), func(i int) drv.ScriptCfg { return ss[i].Cfg }, func(i int) string { return ss[i].ID },
			func(inst *drv.Inst, i int, tw *drv.TraceWriter, rng *rand.Rand, local map[string]interface{}) error {
				return inst.RunOidc(ss[i], tw, rng)
			})
	}
}

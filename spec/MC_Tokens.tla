------------------------------ MODULE MC_Tokens ------------------------------
(* Design check of the token rules as a small system: the gateway mints        *)
(* cookies for IdP access tokens, time passes, the IdP revokes or fails, an     *)
(* attacker forges tokens with every combination of attributes, and anything   *)
(* may be presented at any time.  Acceptance is Tokens!PaaAccept of the         *)
(* presented token's description at that moment.  The invariants restate C02   *)
(* from the outside (who made the token, when, what the IdP says now).          *)
EXTENDS Tokens, TLC

CONSTANTS ATs, MaxNow, Step, MaxMinted     \* access tokens, time bound, tick (seconds), live cookies

VARIABLES now, minted, idp, lastp
vars == <<now, minted, idp, lastp>>

\* a concrete token in the model: who made it and with which attributes
Forged == [by : {"attacker"}, form : {"compact", "json", "nested"}, alg : {"HS256", "HS512", "none", "RS256"},
           key : {"gw", "other"}, iss : {"rdpgw", "other"}, expAt : {10000}, at : ATs, mut : {"none"}]
\* the attacker does not know the gateway key: "gw" keyed forgeries are only
\* possible as unmodified copies of minted tokens (mut = none is then a replay)
Feasible(t) == t.by = "attacker" => (t.key = "gw" => FALSE)

Describe(t) ==
  IF t.by = "gw"
    THEN [form |-> "compact", alg |-> "HS256", key |-> "gw", iss |-> "rdpgw", hasExp |-> TRUE, exp |-> t.expAt - now,
          hasNbf |-> FALSE, nbf |-> 0, at |-> idp[t.at], mut |-> t.mut]
    ELSE [form |-> t.form, alg |-> t.alg, key |-> t.key, iss |-> t.iss, hasExp |-> TRUE, exp |-> t.expAt - now,
          hasNbf |-> FALSE, nbf |-> 0, at |-> idp[t.at], mut |-> t.mut]

Init == now = 0 /\ minted = {} /\ idp = [a \in ATs |-> "valid"] /\ lastp = [t |-> "none", ok |-> FALSE, idpSaid |-> "unknown", at |-> 0]

Mint(a) == /\ minted' = minted \cup {[by |-> "gw", expAt |-> now + Lifetime, at |-> a, mut |-> "none", mintedAt |-> now]}
           /\ UNCHANGED <<now, idp, lastp>>
Tick == now + Step <= MaxNow /\ now' = now + Step /\ UNCHANGED <<minted, idp, lastp>>
IdpChange(a, s) == idp' = [idp EXCEPT ![a] = s] /\ UNCHANGED <<now, minted, lastp>>
\* present a minted token, possibly tampered with
PresentMinted(t, m) == /\ lastp' = [t |-> [t EXCEPT !.mut = m], ok |-> PaaAccept(Describe([t EXCEPT !.mut = m])), idpSaid |-> idp[t.at], at |-> now]
                       /\ UNCHANGED <<now, minted, idp>>
PresentForged(t) == /\ Feasible(t)
                    /\ lastp' = [t |-> t, ok |-> PaaAccept(Describe(t)), idpSaid |-> idp[t.at], at |-> now]
                    /\ UNCHANGED <<now, minted, idp>>

Next == \/ \E a \in ATs : Mint(a)
        \/ Tick
        \/ \E a \in ATs, s \in {"valid", "revoked", "error", "unknown"} : IdpChange(a, s)
        \/ \E t \in minted, m \in {"none", "payload", "sig", "hdr", "trunc"} : PresentMinted(t, m)
        \/ \E t \in Forged : PresentForged(t)
Spec == Init /\ [][Next]_vars

Bound == Cardinality(minted) <= MaxMinted

\* C02 from the outside
OnlyGatewayMinted == lastp.ok => (lastp.t.by = "gw" /\ lastp.t.mut = "none")
OnlyUnexpired     == lastp.ok => lastp.at <= lastp.t.expAt + Leeway
OnlyWhileIdpHonours == lastp.ok => lastp.idpSaid = "valid"
LifetimeFiveMinutes == \A t \in minted : t.expAt - t.mintedAt <= 300
FreshMintIsAccepted == \A t \in minted : (t.mintedAt = now /\ idp[t.at] = "valid") => PaaAccept(Describe(t))
NeverAfterSixMinutes == \A t \in minted : now > t.mintedAt + 360 => ~PaaAccept(Describe(t))
=============================================================================

SPECIFICATION Spec
CONSTANTS
  Configs <- MCConfigs
  CapsVals <- MCCaps
  BodyCls <- MCBody
  Off <- MCOff
  MaxSend = 8
CONSTRAINT Bounded
INVARIANTS
  TypeOK
  H_C01_AtMostOneDial
  H_C01_DialAfterAuthorisation
  H_C01_RelayAfterChannel
  H_C01_SuccessOnlyInOrder
  H_C01_OksInOrder
  H_C01_OutOfOrderNeverSucceeds
  H_C01_ErrorOrCloseEnds
  H_C01_SilentAfterEnd
  H_C02_CookieNeeded
  H_C02_RefusalCode
  H_C03_OnlyAllowedDialled
  H_C03_DeniedCode
  H_C17_Handshake
  H_C17_NoMechanismNoEntry
  H_C16_StatusTruth
CHECK_DEADLOCK FALSE

------------------------------- MODULE Interleave -------------------------------
(* Schedules of several tunnels' steps: every maximal behaviour is one            *)
(* interleaving. Used to generate the multi-tunnel conformance scripts of C07.    *)
EXTENDS Integers, Sequences, FiniteSets, TLC
CONSTANTS Tunnels, Steps
VARIABLE pos
Init == pos = [t \in Tunnels |-> 0]
Step(t) == pos[t] < Steps /\ pos' = [pos EXCEPT ![t] = @ + 1]
Next == \E t \in Tunnels : Step(t)
Spec == Init /\ [][Next]_pos
Bounded == \A t \in Tunnels : pos[t] \in 0..Steps
=============================================================================

----------------------------- MODULE MC_UserTok -----------------------------
(* C15 design check: /tokeninfo status over the product of token attributes    *)
(* and verifier modes; restated from the outside (which keys made the token).  *)
EXTENDS Tokens, TLC
VARIABLES vm, method, hasParam, t
vars == <<vm, method, hasParam, t>>
Toks == [form : {"jwe", "jws", "garbage", "empty"}, mode : {"enc", "signenc"}, encKey : {"gw", "other"}, sigKey : {"gw", "other", "none"},
         sigAlg : {"HS256", "HS512", "none"}, encAlg : {"dir+A128CBC-HS256"}, iss : {"rdpgw", "other", "missing"},
         hasExp : BOOLEAN, exp : {-600, -30, 300}, mut : {"none", "seg1", "seg3", "seg4", "seg5"}]
Init == vm \in {"enc", "signenc"} /\ method \in {"GET", "POST", "PUT"} /\ hasParam \in BOOLEAN /\ t \in Toks
Next == UNCHANGED vars
Spec == Init /\ [][Next]_vars
St == TokenInfoStatus(vm, method, hasParam, t)
OnlyConfiguredKeys == St = 200 => (t.form = "jwe" /\ t.encKey = "gw" /\ (vm = "signenc" => t.sigKey = "gw" /\ t.sigAlg = "HS256") /\ t.mut = "none")
OnlyIssuerAndUnexpired == St = 200 => (t.iss = "rdpgw" /\ (t.hasExp => t.exp >= -Leeway))
ModesDoNotMix == St = 200 => t.mode = vm
StatusClasses == /\ (method # "GET" => St = 405)
                 /\ (method = "GET" /\ (~hasParam \/ t.form = "empty") => St = 400)
                 /\ St \in {200, 400, 403, 405}
=============================================================================

#!/usr/bin/env python3
"""Self-tests of the machinery (thorough tier / on demand):
  necessity  - every guard of Tunnel.tla switched off must make TLC report a violated property invariant
  binding    - a recorded trace with one corrupted field must be rejected by the trace specification
"""
import json, os, re, shutil, sys
sys.path.insert(0, os.path.dirname(os.path.abspath(__file__)))
from vlib import *

GUARDS = ["G_C01_SuccessInOrder", "G_C01_DialGate", "G_C01_FwdGate", "G_C01_OutOfOrderEnds", "G_C01_ErrorEnds", "G_C01_SilentAfterEnd", "G_C01_NoReplyToData",
          "G_C17_MatchIff", "G_C02_CookieIff", "G_C16_CreateAccepted", "G_C16_AuthAccepted", "G_C03_DialIffAllowed", "G_C03_MalformedNotDialled", "G_C16_ChannelTruth",
          "G_C06_DataForwarded", "G_C06_KeepaliveHarmless", "G_C11_CloseAnswered", "G_C16_CodesTruthful"]


def necessity(work, guards=GUARDS):
    res = {}
    for g in guards:
        mod = "MC_ProtoOff"
        d = os.path.join(SPEC, mod + ".tla")
        with open(d, "w") as f:
            f.write("---- MODULE %s ----\nEXTENDS Tunnel\nMCConfigs == [tokenAuth : BOOLEAN, smartCard : BOOLEAN]\nMCCaps == {0, 1, 2, 4}\nMCBody == {\"valid\", \"trunc\"}\nMCOff == {\"%s\"}\n====\n" % (mod, g))
        try:
            r = tlc(mod, "MC_Proto.cfg", work, workers=8, timeout=600, extra=["-continue"], tag="off-" + g)
        finally:
            os.remove(d)
        res[g] = sorted(set(r["violated"]))
    return res


def main():
    w = Work("selftest")
    try:
        res = necessity(w)
        for g, v in res.items():
            print("%-28s -> %s" % (g, ", ".join(v) if v else "NOT NEEDED by any H_ invariant"))
    finally:
        w.cleanup()


if __name__ == "__main__":
    main()

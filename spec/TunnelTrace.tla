----------------------------- MODULE TunnelTrace -----------------------------
(* Trace specification of module Tunnel: reads executions recorded on the real *)
(* gateway (NDJSON, one line per handled client packet with the observed       *)
(* reaction) and evaluates every guard of Tunnel on every step.  Traces of a   *)
(* whole run are concatenated; a "reset" line starts the next one.             *)
(*                                                                             *)
(* The state is advanced by observation only (NextPhase); guards that fail are *)
(* collected in viol as <<line, guard>> and printed once at the end.           *)
EXTENDS Tunnel, Json, TLCExt, IOUtils

CONSTANT TraceFile
TConfigs == {}
TCaps == {}
TBody == {}
TOff == {}
TTraceFile == IF "TRACE" \in DOMAIN IOEnv THEN IOEnv.TRACE ELSE "trace.ndjson"
TraceLog == ndJsonDeserialize(TraceFile)

VARIABLES l, viol, cover

tvars == <<cfg, phase, nd, oks, tokOk, last, l, viol, cover>>

Tok == INSTANCE Tokens
Pol == INSTANCE Policy

Line == TraceLog[l]

\* ---- abstraction of a logged packet -----------------------------------------
AbsPkt(lp) ==
  CASE lp.k = "hs"     -> [k |-> "hs", cls |-> lp.cls, caps |-> lp.caps, major |-> lp.major, minor |-> lp.minor]
    [] lp.k = "create" -> [k |-> "create", cls |-> lp.cls, cookieGood |-> (lp.hascookie /\ Tok!PaaAccept(lp.tok))]
    [] lp.k = "chan"   -> [k |-> "chan", cls |-> lp.cls, hostAllowed |-> Pol!Verdict(lp.pol), reach |-> lp.reach]
    [] OTHER           -> [k |-> lp.k, cls |-> lp.cls]

\* ---- abstraction of the observed reaction -------------------------------------
FirstResp(lo) == lo.resps[1]
AbsOut(lo) ==
  [resp |-> IF Len(lo.resps) = 0 THEN "none" ELSE StatusClass(FirstResp(lo).status),
   dial |-> Len(lo.dials) > 0,
   conn |-> lo.conn,
   fwd  |-> lo.nfwd > 0,
   end  |-> lo.end]

\* ---- field-level guards on the concrete response (C16, C17) -----------------
FieldGuards == {"G_C16_OneResponse", "G_C16_TypeMatches", "G_C16_WellFormed", "G_C17_AdvertiseEcho",
                "G_C16_AuthPolicyFields", "G_C01_OneDial", "G_C03_DialIsRequest", "G_C03_OnlyTheRequestedAddress"}

FieldHolds(g, c, p, lp, lo) ==
  LET n == Len(lo.resps)
      r == FirstResp(lo) IN
  CASE g = "G_C16_OneResponse"  -> n <= 1
    [] g = "G_C16_TypeMatches"  -> n >= 1 => r.pt = RespType(p.k)
    [] g = "G_C16_WellFormed"   -> \A i \in 1..n : lo.resps[i].wf /\ lo.resps[i].hdrlen = lo.resps[i].wirelen
    [] g = "G_C17_AdvertiseEcho" ->
         (n >= 1 /\ p.k = "hs" /\ r.pt = 2 /\ r.status = S_OK /\ p.cls = "valid") =>
            (r.caps = SCaps(c) /\ r.major = p.major /\ r.minor = p.minor)
    [] g = "G_C16_AuthPolicyFields" ->
         (n >= 1 /\ p.k = "auth" /\ r.pt = 7 /\ r.status = S_OK) =>
            (r.fields = 3 /\ r.redir = RedirFlags(c.redir) /\ r.idle = IdleOf(c.idle))
    [] g = "G_C01_OneDial" -> Len(lo.dials) <= 1
    \* what the loopback hosts themselves saw: whoever accepted a connection during this step is the requested endpoint
    \* (a name that resolves - localhost, or no name at all - is the loopback address with the requested port)
    [] g = "G_C03_OnlyTheRequestedAddress" ->
         (p.k # "chan" \/ p.cls = "valid") => \A i \in 1..Len(lo.hostconns) :
            /\ p.k = "chan"
            /\ LET hc == lo.hostconns[i]
                    want == Pol!Join(lp.pol.name, lp.pol.port) IN
                hc = want \/ (Pol!StripNul(lp.pol.name) \in {<<"HL">>, <<>>} /\ hc[Len(hc)] = lp.pol.port)
    [] g = "G_C03_DialIsRequest" ->
         (p.k = "chan" /\ p.cls = "valid") => \A i \in 1..Len(lo.dials) : lo.dials[i] = Pol!Join(lp.pol.name, lp.pol.port)

FieldViolated(c, p, lp, lo) == {g \in FieldGuards : ~FieldHolds(g, c, p, lp, lo)}

\* ---- the properties themselves, on the state the observations lead to -------------
\* Tunnel.tla states the properties on the last step and the history summary (oks, tokOk, nd) and TLC shows that the
\* step guards imply them for every history.  Here they are evaluated directly on every state of the recorded
\* execution: a step that passed because an EARLIER step was answered wrongly (a tunnel request accepted without an
\* acceptable cookie, then a connection) is reported under the property it breaks.
HistNames == {"G_C01_HistAtMostOneDial", "G_C01_HistDialAfterAuthorisation", "G_C01_HistRelayAfterChannel", "G_C01_HistSuccessOnlyInOrder",
              "G_C01_HistOksInOrder", "G_C01_HistErrorOrCloseEnds", "G_C02_HistCookieNeeded", "G_C03_HistOnlyAllowedDialled", "G_C17_HistNoMechanismNoEntry"}
HistHolds(g) ==
  CASE g = "G_C01_HistAtMostOneDial" -> H_C01_AtMostOneDial
    [] g = "G_C01_HistDialAfterAuthorisation" -> H_C01_DialAfterAuthorisation
    [] g = "G_C01_HistRelayAfterChannel" -> H_C01_RelayAfterChannel
    [] g = "G_C01_HistSuccessOnlyInOrder" -> H_C01_SuccessOnlyInOrder
    [] g = "G_C01_HistOksInOrder" -> H_C01_OksInOrder
    [] g = "G_C01_HistErrorOrCloseEnds" -> H_C01_ErrorOrCloseEnds
    [] g = "G_C02_HistCookieNeeded" -> H_C02_CookieNeeded
    [] g = "G_C03_HistOnlyAllowedDialled" -> H_C03_OnlyAllowedDialled
    [] g = "G_C17_HistNoMechanismNoEntry" -> H_C17_NoMechanismNoEntry
\* (the state is the one after line l - 1)
HistBad == {<<l - 1, g, last.ph, last.p.k, last.p.cls>> : g \in {x \in HistNames : ~HistHolds(x)}}

\* ---- the trace actions ---------------------------------------------------------
TInit == /\ l = 1 /\ viol = {} /\ cover = {}
         /\ cfg = [tokenAuth |-> FALSE, smartCard |-> FALSE]
         /\ phase = "init" /\ nd = 0 /\ oks = <<>> /\ tokOk = FALSE /\ last = NoLast

TReset == /\ l <= Len(TraceLog) /\ Line.ev = "reset"
          /\ cfg' = Line.cfg
          /\ phase' = "init" /\ nd' = 0 /\ oks' = <<>> /\ tokOk' = FALSE /\ last' = NoLast
          /\ l' = l + 1 /\ viol' = viol \cup HistBad /\ UNCHANGED cover

TPkt == /\ l <= Len(TraceLog) /\ Line.ev = "pkt"
        /\ LET o  == AbsOut(Line.o)
               p0 == AbsPkt(IF Line.p.k = "chan" THEN [Line.p EXCEPT !.reach = Line.o.conn] ELSE Line.p)
               \* a cookie in another encoding of the same token (mut = "neutral", e.g. with the wire string's NUL
               \* terminator) may be accepted or refused: its verdict is taken from the observation
               p  == IF Line.p.k = "create" /\ Line.p.hascookie /\ Line.p.tok.mut = "neutral" /\ Tok!PaaAccept(Line.p.tok)
                       THEN [p0 EXCEPT !.cookieGood = (o.resp = "ok")] ELSE p0
               \* whether the requested address accepts connections is a fact of the environment: taken from the attempt itself
               n  == IF nd > 1 THEN 1 ELSE nd
               bad == Violated(cfg, phase, n, p, o) \cup FieldViolated(cfg, p, Line.p, Line.o)
           IN /\ viol' = viol \cup {<<l, g, phase, p.k, p.cls>> : g \in bad} \cup HistBad
              /\ cover' = cover \cup {<<p.k, phase, o.resp>>}
              /\ phase' = NextPhase(phase, p, o)
              /\ nd' = nd + Len(Line.o.dials)
              /\ oks' = IF o.resp = "ok" THEN Append(oks, p.k) ELSE oks
              /\ tokOk' = IF o.resp = "ok" /\ p.k = "create" THEN p.cookieGood ELSE tokOk
              /\ last' = [p |-> p, o |-> o, ph |-> phase, nd |-> nd, oks |-> oks, tokOk |-> tokOk]
        /\ l' = l + 1 /\ UNCHANGED cfg

\* isolation observation of a multi-tunnel run: after a payload moved on this tunnel, own = exactly this tunnel's
\* bytes arrived at this tunnel's peer, foreign = some other tunnel's peer received bytes as well
TIso == /\ l <= Len(TraceLog) /\ Line.ev = "iso"
        /\ viol' = viol \cup (IF ~Line.own THEN {<<l, "G_C07_OwnDataArrives", phase, Line.dir, "valid">>} ELSE {})
                        \cup (IF Line.foreign THEN {<<l, "G_C07_NothingLeaksToOthers", phase, Line.dir, "valid">>} ELSE {})
        /\ cover' = cover \cup {<<"iso", phase, Line.dir>>}
        /\ l' = l + 1 /\ UNCHANGED <<cfg, phase, nd, oks, tokOk, last>>

\* after the packet loop has ended (the client has not hung up): did the gateway close the connection it answers on?
\* lastk = kind of the packet that ended the tunnel
TFin == /\ l <= Len(TraceLog) /\ Line.ev = "fin"
        /\ viol' = viol \cup (IF ~Line.closed THEN {<<l, IF Line.lastk = "hs" THEN "G_C17_RefusalEndsTheTunnel" ELSE "G_C11_EndedTunnelIsClosed", phase, Line.lastk, "valid">>} ELSE {})
        /\ cover' = cover \cup {<<"fin", phase, Line.lastk>>}
        /\ l' = l + 1 /\ UNCHANGED <<cfg, phase, nd, oks, tokOk, last>>

TNext == TReset \/ TPkt \/ TIso \/ TFin
TSpec == TInit /\ [][TNext]_tvars

\* printed exactly once, when the whole log has been consumed
AtEnd == l = Len(TraceLog) + 1 =>
           PrintT(<<"VERIF_RESULT", ToJson([viol |-> viol \cup HistBad, cover |-> cover, lines |-> Len(TraceLog)])>>)
TraceAccepted == TLCGet("stats").diameter = Len(TraceLog) + 1
=============================================================================

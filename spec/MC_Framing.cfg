SPECIFICATION Spec
CONSTANTS
  H = 2
  Sizes = {1, 2, 3, 5}
  MaxPkts = 3
INVARIANTS NeverEarly NeverPastBad FailOnlyIfUnframeable SameWhateverTheReads BadLengthEnds
CHECK_DEADLOCK FALSE

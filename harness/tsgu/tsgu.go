// Package tsgu is an independent MS-TSGU (HTTP transport) packet encoder and
// decoder written from the protocol document. It deliberately does not use
// anything from rdpgw's protocol package so that a symmetric error in the
// implementation's own client cannot cancel out.
package tsgu

import (
	"encoding/binary"
	"fmt"
	"unicode/utf16"
)

const (
	PktHandshakeRequest     = 0x1
	PktHandshakeResponse    = 0x2
	PktExtendedAuth         = 0x3
	PktTunnelCreate         = 0x4
	PktTunnelResponse       = 0x5
	PktTunnelAuth           = 0x6
	PktTunnelAuthResponse   = 0x7
	PktChannelCreate        = 0x8
	PktChannelResponse      = 0x9
	PktData                 = 0xA
	PktServiceMessage       = 0xB
	PktReauthMessage        = 0xC
	PktKeepalive            = 0xD
	PktCloseChannel         = 0x10
	PktCloseChannelResponse = 0x11
)

const (
	StatusSuccess            = 0x00000000
	StatusAccessDenied       = 0x00000005
	StatusInternalError      = 0x800759D8
	StatusRapAccessDenied    = 0x800759DA
	StatusCapabilityMismatch = 0x800759E9
	StatusCookieAuthDenied   = 0x800759F8
)

// Header builds an 8-byte packet header with an arbitrary length field.
func Header(pt uint16, length uint32) []byte {
	b := make([]byte, 8)
	binary.LittleEndian.PutUint16(b[0:], pt)
	binary.LittleEndian.PutUint16(b[2:], 0)
	binary.LittleEndian.PutUint32(b[4:], length)
	return b
}

// Packet wraps a body with a correct header.
func Packet(pt uint16, body []byte) []byte {
	return append(Header(pt, uint32(len(body)+8)), body...)
}

func UTF16LE(s string) []byte {
	u := utf16.Encode([]rune(s))
	b := make([]byte, 2*len(u))
	for i, c := range u {
		binary.LittleEndian.PutUint16(b[2*i:], c)
	}
	return b
}

func Handshake(major, minor byte, version, extAuth uint16) []byte {
	b := make([]byte, 6)
	b[0], b[1] = major, minor
	binary.LittleEndian.PutUint16(b[2:], version)
	binary.LittleEndian.PutUint16(b[4:], extAuth)
	return Packet(PktHandshakeRequest, b)
}

// TunnelCreate with an optional PAA cookie (UTF-16LE, as the field demands).
func TunnelCreate(caps uint32, cookie string, withCookie bool) []byte {
	b := make([]byte, 8)
	binary.LittleEndian.PutUint32(b[0:], caps)
	if withCookie {
		binary.LittleEndian.PutUint16(b[4:], 0x1)
		c := UTF16LE(cookie)
		l := make([]byte, 2)
		binary.LittleEndian.PutUint16(l, uint16(len(c)))
		b = append(b, l...)
		b = append(b, c...)
	}
	return Packet(PktTunnelCreate, b)
}

// TunnelCreateRaw lets the caller choose the cookie length field and bytes.
func TunnelCreateRaw(caps uint32, fields uint16, cbCookie uint16, cookie []byte) []byte {
	b := make([]byte, 8)
	binary.LittleEndian.PutUint32(b[0:], caps)
	binary.LittleEndian.PutUint16(b[4:], fields)
	l := make([]byte, 2)
	binary.LittleEndian.PutUint16(l, cbCookie)
	b = append(b, l...)
	b = append(b, cookie...)
	return Packet(PktTunnelCreate, b)
}

// TunnelAuth in the layout rdpgw and its bundled client use: cbClientName, name.
func TunnelAuth(name string) []byte {
	n := UTF16LE(name)
	b := make([]byte, 2)
	binary.LittleEndian.PutUint16(b, uint16(len(n)))
	return Packet(PktTunnelAuth, append(b, n...))
}

func ChannelCreateRaw(nres, nalt byte, port, proto uint16, cbName uint16, name []byte) []byte {
	b := make([]byte, 8)
	b[0], b[1] = nres, nalt
	binary.LittleEndian.PutUint16(b[2:], port)
	binary.LittleEndian.PutUint16(b[4:], proto)
	binary.LittleEndian.PutUint16(b[6:], cbName)
	return Packet(PktChannelCreate, append(b, name...))
}

// ChannelCreateAlt is a channel request with alternate resource names after the resource name.
func ChannelCreateAlt(server string, alts []string, port uint16) []byte {
	b := make([]byte, 6)
	b[0], b[1] = 1, byte(len(alts))
	binary.LittleEndian.PutUint16(b[2:], port)
	binary.LittleEndian.PutUint16(b[4:], 3)
	for _, n := range append([]string{server}, alts...) {
		u := UTF16LE(n)
		l := make([]byte, 2)
		binary.LittleEndian.PutUint16(l, uint16(len(u)))
		b = append(append(b, l...), u...)
	}
	return Packet(PktChannelCreate, b)
}

func ChannelCreate(server string, port uint16) []byte {
	n := UTF16LE(server)
	return ChannelCreateRaw(1, 0, port, 3, uint16(len(n)), n)
}

// Data packet with an independent declared length.
func Data(declared uint16, carried []byte) []byte {
	b := make([]byte, 2)
	binary.LittleEndian.PutUint16(b, declared)
	return Packet(PktData, append(b, carried...))
}

func Keepalive() []byte { return Packet(PktKeepalive, nil) }

func CloseChannel(status uint32) []byte {
	b := make([]byte, 4)
	binary.LittleEndian.PutUint32(b, status)
	return Packet(PktCloseChannel, b)
}

// Decoded is the field-level view of one packet received from the gateway.
type Decoded struct {
	Type      int    `json:"pt"`
	HdrLen    int    `json:"hdrlen"`  // length field of the header
	WireLen   int    `json:"wirelen"` // bytes actually received for this packet
	Status    int64  `json:"status"`  // -1 when the packet has no status
	Fields    int    `json:"fields"`  // fields-present mask, -1 when n/a
	Reserved  int    `json:"reserved"`
	WellForm  bool   `json:"wf"`  // body length is exactly what type+mask imply
	Why       string `json:"why"` // reason when not well-formed
	Major     int    `json:"major"`
	Minor     int    `json:"minor"`
	SrvVer    int    `json:"srvver"`
	Caps      int64  `json:"caps"`
	TunnelID  int64  `json:"tunnelid"`
	Redir     int64  `json:"redir"`
	Idle      int64  `json:"idle"`
	ChannelID int64  `json:"channelid"`
	DataDecl  int    `json:"decl"`    // declared payload length of a DATA packet
	DataLen   int    `json:"datalen"` // payload bytes carried
	Payload   []byte `json:"-"`
}

// Decode one complete packet (header + body as delimited by the transport).
func Decode(p []byte) Decoded {
	d := Decoded{Type: -1, Status: -1, Fields: -1, Caps: -1, TunnelID: -1, Redir: -1, Idle: -1, ChannelID: -1, Major: -1, Minor: -1, SrvVer: -1, DataDecl: -1, DataLen: -1}
	d.WireLen = len(p)
	if len(p) < 8 {
		d.Why = "short header"
		return d
	}
	d.Type = int(binary.LittleEndian.Uint16(p[0:]))
	d.Reserved = int(binary.LittleEndian.Uint16(p[2:]))
	d.HdrLen = int(binary.LittleEndian.Uint32(p[4:]))
	b := p[8:]
	need := func(n int) bool {
		if len(b) < n {
			d.Why = fmt.Sprintf("body too short: need %d have %d", n, len(b))
			return false
		}
		return true
	}
	exact := func(n int) {
		if len(b) == n {
			d.WellForm = true
		} else {
			d.Why = fmt.Sprintf("body length %d, mask implies %d", len(b), n)
		}
	}
	switch d.Type {
	case PktHandshakeResponse:
		if !need(10) {
			return d
		}
		d.Status = int64(binary.LittleEndian.Uint32(b[0:]))
		d.Major, d.Minor = int(b[4]), int(b[5])
		d.SrvVer = int(binary.LittleEndian.Uint16(b[6:]))
		d.Caps = int64(binary.LittleEndian.Uint16(b[8:]))
		exact(10)
	case PktTunnelResponse:
		if !need(10) {
			return d
		}
		d.SrvVer = int(binary.LittleEndian.Uint16(b[0:]))
		d.Status = int64(binary.LittleEndian.Uint32(b[2:]))
		d.Fields = int(binary.LittleEndian.Uint16(b[6:]))
		off := 10
		if d.Fields&0x1 != 0 {
			if !need(off + 4) {
				return d
			}
			d.TunnelID = int64(binary.LittleEndian.Uint32(b[off:]))
			off += 4
		}
		if d.Fields&0x2 != 0 {
			if !need(off + 4) {
				return d
			}
			d.Caps = int64(binary.LittleEndian.Uint32(b[off:]))
			off += 4
		}
		if d.Fields&^0x3 != 0 {
			d.Why = "variable-length optional fields announced"
			return d
		}
		exact(off)
	case PktTunnelAuthResponse:
		if !need(8) {
			return d
		}
		d.Status = int64(binary.LittleEndian.Uint32(b[0:]))
		d.Fields = int(binary.LittleEndian.Uint16(b[4:]))
		off := 8
		if d.Fields&0x1 != 0 {
			if !need(off + 4) {
				return d
			}
			d.Redir = int64(binary.LittleEndian.Uint32(b[off:]))
			off += 4
		}
		if d.Fields&0x2 != 0 {
			if !need(off + 4) {
				return d
			}
			d.Idle = int64(binary.LittleEndian.Uint32(b[off:]))
			off += 4
		}
		if d.Fields&^0x3 != 0 {
			d.Why = "variable-length optional fields announced"
			return d
		}
		exact(off)
	case PktChannelResponse, PktCloseChannelResponse:
		if d.Type == PktCloseChannelResponse && len(b) == 4 {
			// plain HTTP_CLOSE_PACKET layout
			d.Status = int64(binary.LittleEndian.Uint32(b[0:]))
			d.WellForm = true
			return d
		}
		if !need(8) {
			return d
		}
		d.Status = int64(binary.LittleEndian.Uint32(b[0:]))
		d.Fields = int(binary.LittleEndian.Uint16(b[4:]))
		off := 8
		if d.Fields&0x1 != 0 {
			if !need(off + 4) {
				return d
			}
			d.ChannelID = int64(binary.LittleEndian.Uint32(b[off:]))
			off += 4
		}
		if d.Fields&0x4 != 0 {
			if !need(off + 2) {
				return d
			}
			off += 2
		}
		if d.Fields&0x2 != 0 {
			d.Why = "variable-length optional fields announced"
			return d
		}
		exact(off)
	case PktData:
		if !need(2) {
			return d
		}
		d.DataDecl = int(binary.LittleEndian.Uint16(b[0:]))
		d.DataLen = len(b) - 2
		d.Payload = b[2:]
		d.WellForm = d.DataDecl == d.DataLen
		if !d.WellForm {
			d.Why = "payload length field differs from payload carried"
		}
	case PktKeepalive:
		exact(0)
	default:
		d.Why = "unexpected packet type from a server"
	}
	return d
}

SPECIFICATION Spec
INVARIANTS NeverDies NeverPanics
CHECK_DEADLOCK FALSE

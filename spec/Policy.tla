-------------------------------- MODULE Policy --------------------------------
(* Host and address policy of rdpgw (security.CheckHost, CheckSession,         *)
(* web.getHost, web.EnrichContext).  Strings are sequences of symbols; the     *)
(* symbol "PH" is the user placeholder of a host entry and "NUL" a NUL char.   *)
EXTENDS Integers, Sequences, FiniteSets

Contains(s, x) == \E i \in 1..Len(s) : s[i] = x
FirstIdx(s, x) == CHOOSE i \in 1..Len(s) : s[i] = x /\ \A j \in 1..(i - 1) : s[j] # x

\* replace the first placeholder of a host entry by the user name
Subst(e, user) == IF Contains(e, "PH")
                    THEN LET i == FirstIdx(e, "PH") IN SubSeq(e, 1, i - 1) \o user \o SubSeq(e, i + 1, Len(e))
                    ELSE e

\* a UTF-16 name as the protocol defines it: one trailing terminator is not part of the name
StripNul(n) == IF n # <<>> /\ n[Len(n)] = "NUL" THEN SubSeq(n, 1, Len(n) - 1) ELSE n

\* host:port with IPv6 literals bracketed (what a dial string looks like); the
\* symbol "H6" stands for an IPv6 literal, i.e. text that contains colons
HasColon(n) == Contains(n, ":") \/ Contains(n, "%") \/ Contains(n, "H6")
Join(name, port) == LET n == StripNul(name) IN
                    IF HasColon(n) THEN <<"[">> \o n \o <<"]", ":", port>>
                    ELSE n \o <<":", port>>

\* client address of a request: first X-Forwarded-For element if the header is present,
\* else the TCP peer.  Addresses are records [ip, text] (same ip, different text = a
\* textual variant of the same address).
ClientAddr(xff, peer) == IF xff # <<>> THEN xff[1] ELSE peer

\* list-based policy for a host string h (sequence of symbols)
ListAllows(sel, hosts, user, h) ==
  CASE sel = "any" -> TRUE
    [] sel = "signed" -> FALSE
    [] sel \in {"roundrobin", "unsigned"} ->
         /\ user # <<>>
         /\ \E i \in 1..Len(hosts) : Subst(hosts[i], user) = h
    [] OTHER -> FALSE

\* q: [tokenAuth, sel, hosts, user, name, port, tokHost, verifyIp, tokAddr, xff, peer]
\* verdict "yes": must be connected; "no": must be refused; "free": either
\* (only for textual variants of the same client address)
Verdict(q) ==
  LET h == Join(q.name, q.port)
      listOk == ListAllows(q.sel, q.hosts, q.user, h)
      hostOk == q.tokenAuth => (h = q.tokHost)
      cli == ClientAddr(q.xff, q.peer)
      addrSame == q.tokAddr.text = cli.text
      addrOther == q.tokAddr.ip # cli.ip
  IN IF ~listOk \/ ~hostOk THEN "no"
     ELSE IF ~q.tokenAuth \/ ~q.verifyIp THEN "yes"
     ELSE IF addrSame THEN "yes"
     ELSE IF addrOther THEN "no"
     ELSE "free"

\* ---------------------------------------------------------------- /connect host choice (C12)
\* sel, configured hosts, query parameter (<<>> = absent, else <<value>>), verdict of the
\* query token and its subject; returns the set of hosts the file may name, {} = refuse
Offered(sel, hosts, param, qOk, qSub) ==
  CASE sel = "roundrobin" -> {hosts[i] : i \in 1..Len(hosts)}
    [] sel = "unsigned" -> IF param # <<>> /\ \E i \in 1..Len(hosts) : hosts[i] = param[1] THEN {param[1]} ELSE {}
    [] sel = "signed" -> IF param # <<>> /\ qOk /\ \E i \in 1..Len(hosts) : hosts[i] = qSub THEN {qSub} ELSE {}
    [] sel = "any" -> IF param # <<>> THEN {param[1]} ELSE {}
    [] OTHER -> {hosts[i] : i \in 1..Len(hosts)}
=============================================================================

SPECIFICATION TSpec
INVARIANT AtEnd
POSTCONDITION TraceAccepted
CHECK_DEADLOCK FALSE

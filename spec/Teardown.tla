-------------------------------- MODULE Teardown --------------------------------
(* Resources of one tunnel and their release (C11): the client-facing            *)
(* connection(s), the connection to the remote desktop host, the packet loop,    *)
(* the relay goroutine, the registry entry and the connection gauge.             *)
(* (gateway.go handle*Protocol, process.go Process, common.go forward)           *)
EXTENDS Integers, Sequences, FiniteSets, TLC

CONSTANTS Transport,    \* "ws" | "legacy"
          LockedSteps,  \* release steps that take the client-writer lock ({} in the design; non-empty only for the necessity self-test)
          ClosesReplaced \* a second RDG_OUT_DATA request replaces the connection the tunnel answers on; the design closes the
                         \* one it replaces at that moment (TRUE).  FALSE only for the necessity self-test.

\* "out0": the connection of an earlier RDG_OUT_DATA request that a second one under the same identifier replaced
Conns == IF Transport = "ws" THEN {"ws"} ELSE {"in", "out", "out0"}
ClientEnds == Conns \ {"out0"}
Causes == {<<k, "-">> : k \in {"close-channel", "protocol-error", "unframeable"}} \cup {<<"fin", c>> : c \in ClientEnds} \cup {<<"rst", c>> : c \in ClientEnds}
          \cup {<<"shut", IF Transport = "ws" THEN "ws" ELSE "in">>}   \* half close of the connection the client writes on
NoCause == <<"none", "-">>

VARIABLES stage,    \* how far the exchange got: "accepted" | "channel" (a host connection exists)
          conn,     \* client connection -> "open" | "closed-by-client" | "closed" | "none" (never existed)
          host,     \* "none" | "open" | "closed"
          loop,     \* "running" | "exited"
          relay,    \* "none" | "running" | "exited"
          registered, gauge,
          cause,    \* "none" or the way the client side ended
          writer    \* "free" | "blocked": the relay sits inside Tunnel.Write, holding the writer lock, because the client
                    \* does not read (its socket buffers are full); only the end of that client connection frees it
vars == <<stage, conn, host, loop, relay, registered, gauge, cause, writer>>
\* the connection the gateway writes to the client on
WConn == IF Transport = "ws" THEN "ws" ELSE "out"
\* a release step that needs the writer lock cannot be taken while the relay is blocked inside it
LockFree(step) == step \in LockedSteps => writer = "free"

Init == /\ stage \in {"accepted", "channel"}
        /\ conn = [c \in Conns |-> IF c = "out0" THEN "none" ELSE "open"]
        /\ host = (IF stage = "channel" THEN "open" ELSE "none")
        /\ loop = "running" /\ relay = (IF stage = "channel" THEN "running" ELSE "none")
        /\ registered = TRUE /\ gauge = 1 /\ cause = NoCause
        /\ writer \in (IF stage = "channel" THEN {"free", "blocked"} ELSE {"free"})

\* the client side ends in one of the ways the property lists
End(c) == /\ cause = NoCause /\ cause' = c
          /\ conn' = IF c[2] = "-" \/ c[1] = "shut" THEN conn ELSE [conn EXCEPT ![c[2]] = "closed-by-client"]
          \* a client that closes or resets the connection the relay writes to makes the blocked write fail
          /\ writer' = IF c[2] = WConn /\ c[1] # "shut" THEN "free" ELSE writer
          /\ UNCHANGED <<stage, host, loop, relay, registered, gauge>>
\* a second RDG_OUT_DATA request under the tunnel's identifier: the tunnel answers on the new connection from now on
\* (it is "out"); what happens to the one it replaces is the design decision ClosesReplaced
SecondOut == /\ Transport = "legacy" /\ cause = NoCause /\ conn["out0"] = "none" /\ conn["out"] = "open"
             /\ conn' = [conn EXCEPT !["out0"] = IF ClosesReplaced THEN "closed" ELSE "open"]
             \* the blocked write was on the replaced connection
             /\ writer' = IF ClosesReplaced THEN "free" ELSE writer
             /\ UNCHANGED <<stage, host, loop, relay, registered, gauge, cause>>
\* the packet loop notices (a read fails, a packet is refused, a write to a dead connection fails) and returns
LoopReturns == /\ loop = "running" /\ cause # NoCause /\ LockFree("LoopReturns")
               /\ loop' = "exited"
               /\ UNCHANGED <<stage, conn, host, relay, registered, gauge, cause, writer>>
\* everything the handler owns is released when the loop has returned
CloseHost == /\ loop = "exited" /\ host = "open" /\ LockFree("CloseHost") /\ host' = "closed"
             /\ UNCHANGED <<stage, conn, loop, relay, registered, gauge, cause, writer>>
\* the websocket handler closes its connection only after it has unregistered (defer order); closing the connection
\* the relay writes to makes a blocked write fail
CloseConn(c) == /\ c # "out0"   \* nothing of the tunnel refers to a replaced connection any more
                /\ loop = "exited" /\ conn[c] # "closed" /\ LockFree("CloseConn")
                /\ (Transport = "ws" => ~registered)
                /\ conn' = [conn EXCEPT ![c] = "closed"]
                /\ writer' = IF c = WConn THEN "free" ELSE writer
                /\ UNCHANGED <<stage, host, loop, relay, registered, gauge, cause>>
Unregister == /\ loop = "exited" /\ registered /\ LockFree("Unregister") /\ registered' = FALSE /\ gauge' = gauge - 1
              /\ UNCHANGED <<stage, conn, host, loop, relay, cause, writer>>
\* the relay goroutine ends when its read from the host fails
RelayReturns == /\ relay = "running" /\ host = "closed" /\ writer = "free" /\ relay' = "exited"
                /\ UNCHANGED <<stage, conn, host, loop, registered, gauge, cause, writer>>
Next == (\E c \in Causes : End(c)) \/ SecondOut \/ LoopReturns \/ CloseHost \/ (\E c \in Conns : CloseConn(c)) \/ Unregister \/ RelayReturns
Fair == WF_vars(LoopReturns) /\ WF_vars(CloseHost) /\ (\A c \in Conns : WF_vars(CloseConn(c))) /\ WF_vars(Unregister) /\ WF_vars(RelayReturns)
Spec == Init /\ [][Next]_vars /\ Fair

Released == /\ host # "open" /\ \A c \in Conns : conn[c] \in {"closed", "none"}
            /\ loop = "exited" /\ relay # "running" /\ ~registered /\ gauge = 0
NothingBeforeTheEnd == cause = NoCause => (loop = "running" /\ registered /\ gauge = 1)
GaugeNeverNegative == gauge \in {0, 1}
EndingReleasesEverything == (cause # NoCause) ~> Released
ReleasedIsStable == [](Released => []Released)
=============================================================================

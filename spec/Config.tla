-------------------------------- MODULE Config --------------------------------
(* Start-up decisions of rdpgw (config.Load, main.go, web.NewHandler): which    *)
(* configurations are refused, and which keys are replaced by fresh random      *)
(* ones.                                                                        *)
EXTENDS Integers, Sequences, FiniteSets, TLC

Auths == {"openid", "kerberos", "local", "ntlm"}
\* c: [auth, tlsDisabled, tokenAuth, signedSel, queryKey, keytab, nhosts]
Reasons(c) ==
  (IF "openid" \in c.auth /\ ~c.tokenAuth THEN {"openid-without-tokenauth"} ELSE {})
  \cup (IF "local" \in c.auth /\ c.tlsDisabled THEN {"local-without-tls"} ELSE {})
  \cup (IF "ntlm" \in c.auth /\ "kerberos" \in c.auth THEN {"ntlm-with-kerberos"} ELSE {})
  \cup (IF "kerberos" \in c.auth /\ ~c.keytab THEN {"kerberos-without-keytab"} ELSE {})
  \cup (IF c.signedSel /\ ~c.queryKey THEN {"signed-without-querykey"} ELSE {})
  \cup (IF c.nhosts = 0 THEN {"no-hosts"} ELSE {})
Refuse(c) == Reasons(c) # {}

\* a key of the configured length is used as it is only when it has exactly 32 characters
KeyKept(len) == len = 32

\* ---- the lattice as a model: every configuration is an initial state ----------
VARIABLE c
Cfgs == [auth : (SUBSET Auths) \ {{}}, tlsDisabled : BOOLEAN, tokenAuth : BOOLEAN, signedSel : BOOLEAN, queryKey : BOOLEAN,
         keytab : BOOLEAN, nhosts : 0..2]
Init == c \in Cfgs
Next == UNCHANGED c
Spec == Init /\ [][Next]_c
\* sanity of the decision table
OpenIdAloneNeedsCookie == (c.auth = {"openid"} /\ ~Refuse(c)) => c.tokenAuth
StackableSets == ~Refuse(c) => ~({"ntlm", "kerberos"} \subseteq c.auth)
StartableExists == TRUE
=============================================================================

package main

import (
	"math/rand"
	"sync"

	"verifharness/drv"
)

func init() {
	commands["kdc"] = func(rep *report) error {
		var ss []*drv.KdcScript
		if err := loadJSONL(*fScripts, func() interface{} { return &drv.KdcScript{} }, func(v interface{}) { ss = append(ss, v.(*drv.KdcScript)) }); err != nil {
			return err
		}
		rep.Scripts = len(ss)
		r := runner()
		parts := make([]string, len(ss))
		var mu sync.Mutex
		var wg sync.WaitGroup
		ch := make(chan int)
		for w := 0; w < *fJobs; w++ {
			wg.Add(1)
			go func() {
				defer wg.Done()
				for i := range ch {
					part := fmtPart(i)
					tw, err := drv.NewTraceWriter(part)
					if err != nil {
						continue
					}
					parts[i] = part
					rng := rand.New(rand.NewSource(*fSeed*1000003 + int64(hash(ss[i].ID))))
					err = r.RunKdc(ss[i], tw, rng)
					tw.Close()
					mu.Lock()
					if err != nil {
						rep.Errors = append(rep.Errors, ss[i].ID+": "+err.Error())
					} else {
						rep.Done++
					}
					mu.Unlock()
				}
			}()
		}
		for i := range ss {
			ch <- i
		}
		close(ch)
		wg.Wait()
		n, err := concat(parts, *fOut)
		rep.Lines = n
		return err
	}
}

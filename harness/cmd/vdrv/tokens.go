package main

import (
	"math/rand"

	"verifharness/drv"
	"verifharness/envx"
)

func init() {
	commands["paa"] = func(rep *report) error {
		idp, err := envx.NewIdP()
		if err != nil {
			return err
		}
		defer idp.Close()
		tw, err := drv.NewTraceWriter(*fOut)
		if err != nil {
			return err
		}
		defer tw.Close()
		st, err := drv.RunPAA(idp, tw, rand.New(rand.NewSource(*fSeed)), *fTier)
		rep.Extra = st
		rep.Lines = tw.N
		return err
	}
	commands["usertok"] = func(rep *report) error {
		tw, err := drv.NewTraceWriter(*fOut)
		if err != nil {
			return err
		}
		defer tw.Close()
		st, err := drv.RunUserTok(tw, rand.New(rand.NewSource(*fSeed)), *fTier)
		rep.Extra = st
		rep.Lines = tw.N
		return err
	}
}

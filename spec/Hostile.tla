-------------------------------- MODULE Hostile --------------------------------
(* C10: whatever a client sends, the gateway (and its authentication service)    *)
(* answers with an error or closes that one connection; nothing panics, nothing  *)
(* exits, and other clients keep being served.  The module is the catalogue of   *)
(* hostile input classes per entry point and the outcomes the property allows;   *)
(* it has no action that lowers `alive` or raises `panics`.                      *)
EXTENDS Integers, Sequences, FiniteSets, TLC

EntryPoints == {"tunnel", "legacy-order", "authorization", "header", "ntlm-message", "kdcproxy", "web"}
\* "stalled": a channel is open, the host keeps sending and this client has stopped reading (the relay is blocked in its write)
\* "streaming": a channel is open, the host keeps sending and the client reads it all (the relay is writing all the time)
Phases == {"init", "hs", "created", "authorized", "channel", "stalled", "streaming"}
Classes(ep) ==
  CASE ep = "tunnel" -> {"hdr-len-0", "hdr-len-4", "hdr-len-7", "hdr-len-huge", "hdr-len-max", "hdr-trunc", "type-random", "type-response", "body-trunc-create", "body-long-create",
                         "body-trunc-chan", "body-long-chan", "body-odd-utf16", "body-trunc-auth", "body-long-auth", "data-decl-long", "data-empty", "data-full-64k", "data-inner-boundaries", "random-bytes", "text-message", "zero-length-message",
                         "keepalive-flood", "data-flood"}
    [] ep = "legacy-order" -> {"in-before-out", "in-only", "out-only-then-close", "out-only-many", "out-twice", "in-twice", "in-unknown-id", "no-id"}
    [] ep = "authorization" -> {"bare-ntlm", "bare-negotiate", "bare-basic", "embedded-scheme", "one-char", "long-garbage", "ntlm-garbage", "basic-notbase64", "negotiate-garbage", "nul-bytes", "basic-nonutf8", "basic-authservice-away"}
    \* request headers every endpoint's middleware reads before any authentication: forwarded-for lists that name no address,
    \* connection identifiers and upgrade requests that are not what a client would send
    [] ep = "header" -> {"xff-unknown", "xff-commas", "xff-unknown-list", "xff-blank-elements", "xff-huge", "xff-nonaddress", "connid-empty", "connid-huge", "upgrade-other", "cookie-garbage"}
    [] ep = "ntlm-message" -> {"short-negotiate", "trunc-authenticate", "bad-offsets", "challenge-type", "random", "sig-only", "huge"}
    [] ep = "kdcproxy" -> {"random-der", "nested-deep", "empty", "huge-length", "short-message", "trailing"}
    [] ep = "web" -> {"tokeninfo-garbage", "connect-garbage-cookie", "callback-garbage", "long-url", "metrics", "anonymous-after-login", "stale-cookie-after-login"}
Configs == [tls : BOOLEAN, buffers : BOOLEAN, auth : {"openid", "ntlm", "local", "kerberos"}]
Outcomes == {"error-reply", "closed-that-connection", "served", "ignored"}

VARIABLES alive, authAlive, panics, last
vars == <<alive, authAlive, panics, last>>
Init == alive = TRUE /\ authAlive = TRUE /\ panics = 0 /\ last = [ep |-> "none", cls |-> "none", out |-> "served"]
\* one hostile input: the only things that may happen
Input(ep, cls) == /\ \E o \in Outcomes : last' = [ep |-> ep, cls |-> cls, out |-> o]
                  /\ UNCHANGED <<alive, authAlive, panics>>
Next == \E ep \in EntryPoints : \E cls \in Classes(ep) : Input(ep, cls)
Spec == Init /\ [][Next]_vars
NeverDies == alive /\ authAlive
NeverPanics == panics = 0
=============================================================================

SPECIFICATION Spec
CONSTANTS
  Tunnels = {0, 1, 2}
  Steps = 7
INVARIANT Bounded
CHECK_DEADLOCK FALSE

------------------------------ MODULE MC_Proto ------------------------------
(* Exhaustive design check of the single-tunnel envelope: every sequence of   *)
(* up to MaxSend client packets, all configurations.                          *)
EXTENDS Tunnel
MCConfigs == [tokenAuth : BOOLEAN, smartCard : BOOLEAN]
MCCaps    == {0, 1, 2, 4}
MCBody    == {"valid", "trunc"}
MCOff     == {}
ASSUME EnvelopeTotal
=============================================================================

"""Gateway-level families: C11 teardown, C07 isolation, C09 concurrency, C10 hostile input."""
import json, random
from vlib import *
import fam_api as fa
import fam_stream as fs

POINTS = ["accepted", "hs", "created", "authorized", "channel", "opened"]


def c11(work, tier, seed):
    d1 = design_check("Teardown", "MC_Teardown_ws.cfg", work, workers=4, timeout=300)
    d2 = design_check("Teardown", "MC_Teardown_legacy.cfg", work, workers=4, timeout=300)
    scripts = []
    for tr in ("ws", "legacy"):
        causes = ["close-channel", "protocol-error", "unframeable"] + (["fin:ws", "rst:ws"] if tr == "ws" else ["fin:in", "rst:in", "fin:out", "rst:out"])
        for pi, point in enumerate(POINTS):
            for cause in causes:
                infl = ["none", "c2b", "b2c", "both"] if point in ("channel", "opened") else ["none"]
                for fl in infl:
                    toks = (True, False) if tier == "thorough" else ((len(scripts) % 2 == 0),)
                    for token in toks:
                        steps = fs.session(token)[:4] + [{"k": "data", "cls": "valid", "n": 10}]
                        scripts.append({"id": "d%05d" % len(scripts), "origin": "%s/%s/%s" % (point, cause, fl), "cfg": fs.base_cfg(token), "transport": tr,
                                        "tun": dict(fs.H_A, user="user1" if token else "nuser1"), "steps": steps, "point": point, "cause": cause, "inflight": fl})
    design = {"distinct": d1["distinct"] + d2["distinct"], "generated": d1["generated"] + d2["generated"]}
    out, rep, res = fa.generic("C11", work, tier, seed, "teardown", "TeardownTrace", scripts, design,
                               lambda v: "%s/%s/%s" % (v["guard"], v["a"], v["b"]),
                               "Teardown.tla: resources of one tunnel, every ending cause, release steps; safety invariants and the liveness property 'ending ~> everything released' under weak fairness, for both transports "
                               "(design). Conformance on the real binary: every point of the exchange (before handshake .. data flowing) x every way of ending (CLOSE_CHANNEL, out-of-order packet, unframeable bytes, TCP close or reset of the "
                               "websocket / legacy IN / legacy OUT connection) x data in flight (none, client->host, host->client, both) on both transports; observed within 3 s: EOF at the loopback host, EOF on every client "
                               "connection, proc.exit / relay.exit / unreg hooks, goroutine census of the protocol package, rdpgw_*_connections gauges", jobs=16)
    return out

#!/usr/bin/env python3
"""check <ID> --tier quick|thorough [--replay file]   |   check --setup

Decides one property of /verif/properties.jsonl for /repo's current working
tree: design check of the TLA+ specification with TLC, scripts generated from
the specification executed against the real code, and the recorded traces
validated by TLC against the trace specification.

exit 0: held on everything explored (KNOWN-FINDING lines for listed findings)
exit 1: VIOLATION property=<id> replay=<path>
exit 2: the machinery itself failed (never a verdict)"""
import argparse, importlib, json, os, sys, time, traceback

sys.path.insert(0, os.path.dirname(os.path.abspath(__file__)))
from vlib import *


class Outcome:
    """What a property check produced."""

    def __init__(self):
        self.violations = []   # dicts: {signature, what, detail, rerun (callable or None)}
        self.coverage = {}
        self.assumptions = []


def finish(pid, tier, seed, out, t0):
    known = [k for k in load_known() if k.get("property") == pid]
    open_sigs = {k["signature"]: k for k in known if k.get("status") == "open"}
    new, seen_known = [], {}
    for v in out.violations:
        if v["signature"] in open_sigs:
            seen_known.setdefault(v["signature"], v)
        else:
            new.append(v)
    for sig, v in sorted(seen_known.items()):
        print("KNOWN-FINDING: property=%s %s [%s]" % (pid, open_sigs[sig].get("what", v["what"]), sig))
    rc = 0
    reported = set()
    for v in new:
        if v["signature"] in reported:
            continue
        reported.add(v["signature"])
        path = save_replay(pid, "%s-%s" % (tier, "".join(ch if ch.isalnum() else "_" for ch in v["signature"])[:120]), v)
        print("VIOLATION property=%s replay=%s" % (pid, path))
        print("  %s [%s]" % (v["what"], v["signature"]))
        rc = 1
    cov = dict(out.coverage)
    cov.setdefault("samples", [])
    write_evidence(pid, tier, seed, cov, time.time() - t0, len(reported), out.assumptions)
    return rc


def main():
    ap = argparse.ArgumentParser()
    ap.add_argument("pid", nargs="?")
    ap.add_argument("--tier", default=os.environ.get("VERIF_TIER", "quick"))
    ap.add_argument("--setup", action="store_true")
    ap.add_argument("--replay")
    ap.add_argument("--no-build", action="store_true")
    a = ap.parse_args()
    seed = int(os.environ.get("VERIF_SEED", "1"))
    if a.setup:
        try:
            build_all(race=True, quiet=False)
            # warm the JVM / check TLC is usable
            w = Work("setup")
            try:
                design_check("MC_Proto", "MC_Proto.cfg", w, workers=4, timeout=300)
            finally:
                w.cleanup()
        except HarnessError as e:
            print("setup failed:", e, file=sys.stderr)
            return 2
        return 0
    if not a.pid:
        ap.error("property id required")
    pid = a.pid.upper()
    tier = "thorough" if a.tier.startswith("t") else "quick"
    t0 = time.time()
    work = Work(pid)
    try:
        import props
        fn = props.CHECKS.get(pid)
        if fn is None:
            print("no check for", pid, file=sys.stderr)
            return 2
        if not a.no_build:
            build_all(race=(pid in props.NEEDS_RACE))
        out = fn(work, tier, seed, a.replay)
        if LIFECYCLE_RUNS:
            # the specification the hook logs are replayed through is itself checked for every interleaving
            ld = design_check("MC_Lifecycle", "MC_Lifecycle.cfg", work, workers=8, timeout=600)
            if tier == "thorough" and pid == "C09":
                # three tunnels (one websocket, two legacy): 266 million distinct states, about 30-45 minutes on 16 cores
                ld = design_check("MC_Lifecycle", "MC_Lifecycle3.cfg", work, workers=16, timeout=5400)
            lv, summary = lifecycle_violations(pid, work)
            summary["design"] = {"states": ld.get("distinct"), "transitions": ld.get("generated")}
            out.violations += lv
            out.coverage["lifecycle"] = summary
        return finish(pid, tier, seed, out, t0)
    except HarnessError as e:
        print("HARNESS-ERROR property=%s: %s" % (pid, e), file=sys.stderr)
        return 2
    except Exception:
        traceback.print_exc()
        return 2
    finally:
        if not os.environ.get("VERIF_KEEP"):
            work.cleanup()


if __name__ == "__main__":
    sys.exit(main())

SPECIFICATION Spec
CONSTANTS
  LockedSteps = {} Transport = "legacy" ClosesReplaced = FALSE
INVARIANTS NothingBeforeTheEnd GaugeNeverNegative
PROPERTIES EndingReleasesEverything
CHECK_DEADLOCK FALSE

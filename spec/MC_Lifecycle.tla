---------------------------- MODULE MC_Lifecycle ----------------------------
EXTENDS Lifecycle
MCTunnels == {"a", "b"}
MCKind == [u \in MCTunnels |-> IF u = "a" THEN "ws" ELSE "legacy"]
MCTunnels3 == {"a", "b", "c"}
MCKind3 == [u \in MCTunnels3 |-> IF u = "a" THEN "ws" ELSE "legacy"]
=============================================================================

----------------------------- MODULE ConfigTrace -----------------------------
(* Trace specification for C18: outcomes of starting the real binary under      *)
(* enumerated configurations, and cross-instance use of tokens and cookies.     *)
EXTENDS Config, Json, TLCExt, IOUtils
TTraceFile == IF "TRACE" \in DOMAIN IOEnv THEN IOEnv.TRACE ELSE "trace.ndjson"
TraceLog == ndJsonDeserialize(TTraceFile)
VARIABLES l, viol, cover
tvars == <<c, l, viol, cover>>
Line == TraceLog[l]
Range(s) == {s[i] : i \in 1..Len(s)}
AbsCfg(e) == [auth |-> Range(e.auth), tlsDisabled |-> e.tlsDisabled, tokenAuth |-> e.tokenAuth, sel |-> e.sel,
              queryKey |-> e.queryKey, keytab |-> e.keytab, nhosts |-> e.nhosts, spell |-> e.spell]
AbsEff(x) == [tlsOff |-> x.tlsOff, auth |-> Range(x.auth), tokenAuth |-> x.tokenAuth, signedNoKey |-> x.signedNoKey]
Bad(e) ==
  CASE e.ev = "start" ->
         LET cf == AbsCfg(e.cfg) IN
         \* the refusal table is stated for the documented spellings; for any spelling, what runs must be safe
         (IF cf.spell = "canon" /\ Refuse(cf) /\ e.outcome # "refused" THEN {"G_C18_UnsafeRefused"} ELSE {})
         \* (a selection word that is none of the documented ones may be refused as well)
         \cup (IF cf.spell = "canon" /\ cf.sel # "other" /\ ~Refuse(cf) /\ e.outcome # "listening" THEN {"G_C18_ValidStarts"} ELSE {})
         \cup (IF e.outcome = "listening" /\ e.probed /\ Unsafe(AbsEff(e.eff)) THEN {"G_C18_RunningIsSafe"} ELSE {})
    [] e.ev = "cross" ->
         \* a token / cookie made by instance A is presented to instance B started from the same configuration
         (IF ~KeyKept(e.len) /\ e.acceptedOnOther THEN {"G_C18_ShortKeyReplaced"} ELSE {})
         \cup (IF ~KeyKept(e.len) /\ e.madeWithConfigured THEN {"G_C18_ShortKeyNotUsed"} ELSE {})
         \cup (IF KeyKept(e.len) /\ ~e.acceptedOnOther THEN {"G_C18_ConfiguredKeyUsed"} ELSE {})
         \cup (IF ~e.acceptedOnSelf THEN {"G_C18_OwnTokensValid"} ELSE {})
    [] OTHER -> {"G_UnknownEvent"}
Cell(e) == IF e.ev = "start" THEN <<"start", e.src, e.outcome, e.cfg.spell, e.cfg.sel>> ELSE <<"cross", e.key, e.len>>
TInit == l = 1 /\ viol = {} /\ cover = {} /\ c = [auth |-> {"openid"}, tlsDisabled |-> FALSE, tokenAuth |-> TRUE, sel |-> "roundrobin", queryKey |-> FALSE, keytab |-> FALSE, nhosts |-> 1, spell |-> "canon"]
TNext == /\ l <= Len(TraceLog)
         /\ viol' = viol \cup {<<l, g, Line.ev, Line.cls>> : g \in Bad(Line)}
         /\ cover' = cover \cup {Cell(Line)}
         /\ l' = l + 1 /\ UNCHANGED c
TSpec == TInit /\ [][TNext]_tvars
AtEnd == l = Len(TraceLog) + 1 =>
           PrintT(<<"VERIF_RESULT", ToJson([viol |-> viol, cover |-> cover, lines |-> Len(TraceLog)])>>)
TraceAccepted == TLCGet("stats").diameter = Len(TraceLog) + 1
=============================================================================

package main

import (
	"bufio"
	"encoding/json"
	"fmt"
	"math/rand"
	"os"
	"path/filepath"
	"sort"
	"strings"
	"sync"

	"verifharness/drv"
)

func loadJSONL(path string, mk func() interface{}, add func(interface{})) error {
	f, err := os.Open(path)
	if err != nil {
		return err
	}
	defer f.Close()
	sc := bufio.NewScanner(f)
	sc.Buffer(make([]byte, 1<<20), 1<<26)
	for sc.Scan() {
		if len(strings.TrimSpace(sc.Text())) == 0 {
			continue
		}
		v := mk()
		if err := json.Unmarshal(sc.Bytes(), v); err != nil {
			return err
		}
		add(v)
	}
	return sc.Err()
}

// grouped runs jobs grouped by configuration on parallel gateway instances.
func grouped(rep *report, n int, cfgOf func(int) drv.ScriptCfg, idOf func(int) string,
	run func(inst *drv.Inst, idx int, tw *drv.TraceWriter, rng *rand.Rand, local map[string]interface{}) error) error {
	rep.Scripts = n
	groups := map[string][]int{}
	var keys []string
	for i := 0; i < n; i++ {
		k := cfgOf(i).Key()
		if _, ok := groups[k]; !ok {
			keys = append(keys, k)
		}
		groups[k] = append(groups[k], i)
	}
	sort.Strings(keys)
	type job struct {
		idx  int
		list []int
	}
	var jobs []job
	per := (n + *fJobs*2 - 1) / (*fJobs * 2)
	if per < 1 {
		per = 1
	}
	for _, k := range keys {
		g := groups[k]
		for len(g) > 0 {
			m := per
			if m > len(g) {
				m = len(g)
			}
			jobs = append(jobs, job{len(jobs), g[:m]})
			g = g[m:]
		}
	}
	r := runner()
	var mu sync.Mutex
	var wg sync.WaitGroup
	ch := make(chan job)
	parts := make([]string, len(jobs))
	for w := 0; w < *fJobs; w++ {
		wg.Add(1)
		go func() {
			defer wg.Done()
			for j := range ch {
				part := filepath.Join(*fWork, fmt.Sprintf("part-%05d.ndjson", j.idx))
				parts[j.idx] = part
				tw, err := drv.NewTraceWriter(part)
				if err != nil {
					mu.Lock()
					rep.Errors = append(rep.Errors, err.Error())
					mu.Unlock()
					continue
				}
				inst, err := r.NewInst(cfgOf(j.list[0]))
				if err != nil {
					mu.Lock()
					rep.Errors = append(rep.Errors, "instance: "+err.Error())
					mu.Unlock()
					tw.Close()
					continue
				}
				local := map[string]interface{}{}
				for _, i := range j.list {
					rng := rand.New(rand.NewSource(*fSeed*1000003 + int64(hash(idOf(i)))))
					err := run(inst, i, tw, rng, local)
					if !inst.P.Alive() {
						// the gateway process died: a finding for the checks that look for it
						// (their trace carries it), and the next script needs a fresh instance
						mu.Lock()
						rep.Faults = append(rep.Faults, inst.P.Faults()...)
						rep.Faults = append(rep.Faults, "gateway process exited during "+idOf(i))
						mu.Unlock()
						inst.Stop()
						if ni, e := r.NewInst(cfgOf(i)); e == nil {
							inst = ni
							local = map[string]interface{}{}
						}
						if err != nil && strings.Contains(err.Error(), "GATEWAY-DIED") {
							err = nil
						}
					}
					mu.Lock()
					if err != nil {
						tail := inst.P.Stderr()
						if len(tail) > 3000 {
							tail = tail[len(tail)-3000:]
						}
						rep.Errors = append(rep.Errors, idOf(i)+": "+err.Error()+fmt.Sprintf(" [gateway alive=%v]\n%s", inst.P.Alive(), tail))
					} else {
						rep.Done++
					}
					mu.Unlock()
				}
				mu.Lock()
				rep.Faults = append(rep.Faults, inst.P.Faults()...)
				mu.Unlock()
				inst.Stop()
				tw.Close()
			}
		}()
	}
	for _, j := range jobs {
		ch <- j
	}
	close(ch)
	wg.Wait()
	lines, err := concat(parts, *fOut)
	rep.Lines = lines
	return err
}

func init() {
	commands["framing"] = func(rep *report) error {
		var ss []*drv.FrScript
		if err := loadJSONL(*fScripts, func() interface{} { return &drv.FrScript{} }, func(v interface{}) { ss = append(ss, v.(*drv.FrScript)) }); err != nil {
			return err
		}
		return grouped(rep, len(ss), func(i int) drv.ScriptCfg { return ss[i].Cfg }, func(i int) string { return ss[i].ID },
			func(inst *drv.Inst, i int, tw *drv.TraceWriter, rng *rand.Rand, local map[string]interface{}) error {
				refs, _ := local["refs"].(map[string]drv.FrResult)
				if refs == nil {
					refs = map[string]drv.FrResult{}
					local["refs"] = refs
				}
				return inst.RunFraming(ss[i], tw, rng, refs)
			})
	}
	commands["relay"] = func(rep *report) error {
		var ss []*drv.RlScript
		if err := loadJSONL(*fScripts, func() interface{} { return &drv.RlScript{} }, func(v interface{}) { ss = append(ss, v.(*drv.RlScript)) }); err != nil {
			return err
		}
		return grouped(rep, len(ss), func(i int) drv.ScriptCfg { return ss[i].Cfg }, func(i int) string { return ss[i].ID },
			func(inst *drv.Inst, i int, tw *drv.TraceWriter, rng *rand.Rand, local map[string]interface{}) error {
				return inst.RunRelay(ss[i], tw, rng)
			})
	}
}

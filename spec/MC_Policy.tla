------------------------------ MODULE MC_Policy ------------------------------
(* Exhaustive check of the host / address policy over a finite universe of    *)
(* requests (including the near-miss names of C03 and the address pairs of     *)
(* C04).  The invariants restate the properties without using Verdict's own    *)
(* case analysis.  The enumerated requests also seed the conformance scripts.  *)
EXTENDS Policy, TLC

CONSTANT Mode   \* "host" | "addr"

E1 == <<"H1", ":", "PA">>
E2 == <<"H1", ":", "PB">>
E7 == <<"H127", "PH", ":", "PA">>
E6 == <<"[", "H6", "]", ":", "PA">>
EL == <<"HL", ":", "PA">>
HostLists == {<<E1>>, <<E1, E2>>, <<E7>>, <<E6>>, <<E1, E7>>, <<EL>>}
Names == {<<"H1">>, <<"H1", "NUL">>, <<"H1", "NUL", "NUL">>, <<"H1", "NUL", "H1">>, <<"H2">>, <<"H127">>,
          <<"H1", "0">>, <<"1", "H1">>, <<"H6">>, <<"[", "H6", "]">>, <<"HL">>, <<"H127", "7">>, <<"H127", "8">>,
          <<"H127", "PH">>, <<"SUR">>, <<>>}
Ports == {"PA", "PB", "PE"}
\* ("*": a user whose name is a pattern character - a name is a name, never a pattern)
\* ("7@o.example": an account qualified with a realm - a different user from "7", with a different substituted entry)
Users == {<<>>, <<"7">>, <<"8">>, <<"*">>, <<"7", "@o.example">>}
Sels  == {"any", "signed", "roundrobin", "unsigned"}
A(ip, text) == [ip |-> ip, text |-> text]
Addrs == {A("a", "a"), A("b", "b"), A("c", "c"), A("c", "c2")}
\* forwarded-for texts that are not bare IP literals (address with port, bracketed IPv6, a word): each is an address of
\* its own - two different ones are different clients
TextOnly == {A("u1", "u1"), A("u2", "u2"), A("v1", "v1"), A("v2", "v2"), A("w1", "w1"), A("w2", "w2")}
Fwd == Addrs \cup TextOnly
Xffs == {<<>>} \cup {<<x>> : x \in Fwd} \cup {<<x, y>> : x \in Fwd, y \in {A("p", "p")}} \cup {<<A("p", "p"), x>> : x \in Addrs}

HostQs == [tokenAuth : BOOLEAN, sel : Sels, hosts : HostLists, user : Users, name : Names, port : Ports,
           tokHost : {Join(<<"H1">>, "PA"), Join(<<"H127", "7">>, "PA"), Join(<<"H6">>, "PA"), Join(<<"H1">>, "PB")},
           verifyIp : BOOLEAN, tokAddr : {A("a", "a")}, xff : {<<>>}, peer : {A("a", "a")}]
AddrQs == [tokenAuth : BOOLEAN, sel : {"roundrobin", "any"}, hosts : {<<E1>>}, user : {<<"7">>}, name : {<<"H1">>}, port : {"PA"},
           tokHost : {Join(<<"H1">>, "PA")},
           verifyIp : BOOLEAN, tokAddr : Fwd, xff : Xffs, peer : Addrs]

VARIABLE q
Init == q \in (IF Mode = "host" THEN HostQs ELSE AddrQs)
Next == UNCHANGED q
Spec == Init /\ [][Next]_q

V == Verdict(q)
H == Join(q.name, q.port)
Cli == IF q.xff # <<>> THEN q.xff[1] ELSE q.peer

\* C03
I_SignedAllowsNothing == q.sel = "signed" => V = "no"
I_TokenHostBinds      == (q.tokenAuth /\ V # "no") => H = q.tokHost
I_ListMembership      == (q.sel \in {"roundrobin", "unsigned"} /\ V # "no") =>
                            (q.user # <<>> /\ \E i \in 1..Len(q.hosts) : Subst(q.hosts[i], q.user) = H)
I_AnyAllowsAll        == (q.sel = "any" /\ ~q.tokenAuth) => V = "yes"
I_EmptyUserRefused    == (q.sel \in {"roundrobin", "unsigned"} /\ q.user = <<>>) => V = "no"
I_PlaceholderIsNotAName == (q.sel \in {"roundrobin", "unsigned"} /\ Contains(q.name, "PH") /\ ~Contains(q.user, "PH")) => V = "no"
I_ExactEntryAllowed   == (q.sel \in {"roundrobin", "unsigned"} /\ ~q.tokenAuth /\ q.user # <<>> /\
                           \E i \in 1..Len(q.hosts) : Subst(q.hosts[i], q.user) = H) => V = "yes"
\* C04
I_OtherAddressRefused == (q.tokenAuth /\ q.verifyIp /\ Cli.ip # q.tokAddr.ip) => V = "no"
I_SameAddressAccepted == (q.tokenAuth /\ q.verifyIp /\ Cli.text = q.tokAddr.text /\ H = q.tokHost /\
                           ListAllows(q.sel, q.hosts, q.user, H)) => V = "yes"
I_SwitchOffIgnoresAddress == (~q.verifyIp \/ ~q.tokenAuth) =>
                           V = Verdict([q EXCEPT !.xff = <<>>, !.peer = q.tokAddr])
I_FirstForwardedElement == (q.xff # <<>>) => V = Verdict([q EXCEPT !.xff = <<q.xff[1]>>, !.peer = A("zz", "zz")])
I_PeerWhenNoHeader      == (q.xff = <<>>) => Cli = q.peer
=============================================================================

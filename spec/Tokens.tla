-------------------------------- MODULE Tokens --------------------------------
(* Symbolic gateway tokens (Dolev-Yao style): a token is described by how it   *)
(* was made, never by its bytes.  Covers the PAA access cookie (C02), the user *)
(* token of /tokeninfo (C15) and the signed host query token (C12).            *)
(*                                                                             *)
(* Times are seconds relative to the moment of presentation; Leeway is the     *)
(* JOSE library's one minute.                                                  *)
EXTENDS Integers, Sequences, FiniteSets

Leeway == 60
Lifetime == 300   \* five minutes

Forms == {"compact", "json", "nested", "garbage", "empty", "none"}
Algs  == {"HS256", "HS384", "HS512", "RS256", "none"}
Keys  == {"gw", "other", "empty", "gwpadded"}   \* gw = the configured signing key
Issuers == {"rdpgw", "other", "missing"}
AtStates == {"valid", "unknown", "revoked", "error"}   \* what the IdP says about the embedded access token
Muts == {"none", "neutral", "hdr", "payload", "sig", "trunc"}  \* neutral: same header/payload/MAC after strict decoding

\* PAA cookie: [form, alg, key, iss, hasExp, exp, hasNbf, nbf, at, mut]; exp/nbf are offsets
\* in seconds (exp = expiry - now, nbf = notBefore - now), has* = the claim is present
PaaAccept(t) ==
  /\ t.form = "compact"
  /\ t.alg = "HS256"
  /\ t.key = "gw"
  /\ t.mut \in {"none", "neutral"}
  /\ t.iss = "rdpgw"
  /\ (~t.hasExp \/ t.exp + Leeway >= 0)
  /\ (~t.hasNbf \/ t.nbf - Leeway <= 0)
  /\ t.at = "valid"

\* a token is never judged within 10 s of a leeway boundary (the harness keeps that distance)
PaaJudgeable(t) ==
  /\ (~t.hasExp \/ t.exp + Leeway >= 10 \/ t.exp + Leeway <= -10)
  /\ (~t.hasNbf \/ t.nbf - Leeway >= 10 \/ t.nbf - Leeway <= -10)

\* a token minted by the gateway age seconds ago for a still valid access token
Minted(age, at) == [form |-> "compact", alg |-> "HS256", key |-> "gw", iss |-> "rdpgw",
                    hasExp |-> TRUE, exp |-> Lifetime - age, hasNbf |-> FALSE, nbf |-> 0, at |-> at, mut |-> "none"]

\* ------------------------------------------------------------------ C15
\* user token: [form: "jwe"|"jws"|"garbage"|"empty", mode: "enc"|"signenc", encKey, sigKey, encAlg, iss, exp, mut]
\* verifier mode vm \in {"enc", "signenc"}
UserAccept(vm, t) ==
  /\ t.form = "jwe"
  /\ t.mode = vm
  /\ t.encKey = "gw"
  /\ t.encAlg = "dir+A128CBC-HS256"
  /\ (vm = "signenc" => (t.sigKey = "gw" /\ t.sigAlg = "HS256"))
  /\ t.mut \in {"none", "neutral"}
  /\ t.iss = "rdpgw"
  /\ (~t.hasExp \/ t.exp + Leeway >= 0)

\* /tokeninfo status for (method, parameter presence, token)
TokenInfoStatus(vm, method, hasParam, t) ==
  IF method # "GET" THEN 405
  ELSE IF ~hasParam \/ t.form = "empty" THEN 400
  ELSE IF UserAccept(vm, t) THEN 200 ELSE 403

\* ------------------------------------------------------------------ C12 (signed host selection)
\* query token: [form, alg, key: "query"|"other", iss: "configured"|"other", exp, mut]
QueryAccept(t) ==
  /\ t.form = "compact" /\ t.alg = "HS256" /\ t.key = "query" /\ t.mut \in {"none", "neutral"}
  /\ t.iss = "configured" /\ (~t.hasExp \/ t.exp + Leeway >= 0)
=============================================================================

--------------------------------- MODULE Ntlm ---------------------------------
(* The NTLM verifier of the authentication service (cmd/auth/ntlm): per         *)
(* session a negotiate message is answered with a fresh challenge; a following  *)
(* authenticate message is accepted only as proof of the configured password    *)
(* against that very challenge.                                                 *)
EXTENDS Integers, Sequences, FiniteSets, TLC

CONSTANTS Sessions, MaxCh, MaxSteps
\* alice has a password, ghost is unknown, empty is configured with ""; ALICE and alice_ are NOT configured: they are
\* alice's name in another letter case / with a blank appended (NTLMv2 hashes the upper-cased name, so a proof made with
\* alice's password is cryptographically fine for them - but the named user has no configured password)
\* bob is a second configured user with his own password
\* off is in the user file twice: first with a password, then - the entry that counts - with "" (switched off); what a
\* client proves for off is the password of the replaced entry
Users == {"alice", "bob", "ghost", "empty", "ALICE", "alice_", "off"}
HasPassword(u) == u \in {"alice", "bob"}
\* "right": proof of the named user's configured password; "wrong": a wrong password; "asbob": the message names the user
\* but its proof was computed from bob's name and password (a proof of somebody else's password is no proof)
\* "near": a wrong password that is the configured one after environment-style expansion ($name, ${name}, $$)
Pws == {"right", "wrong", "asbob", "near"}

VARIABLES ctx,     \* session -> challenge the service is waiting a proof for (0 = none)
          seen,    \* session -> latest challenge the client received there (0 = none)
          nextCh,  \* challenges are fresh
          sent,    \* the last authenticate message put on the wire: [u, pw, ch] or NoMsg
          last,    \* the last call and its result
          steps
vars == <<ctx, seen, nextCh, sent, last, steps>>
NoMsg == [u |-> "none", pw |-> "none", ch |-> 0]
NoCall == [kind |-> "none", s |-> "none", msg |-> NoMsg, ctxBefore |-> 0, authed |-> FALSE, user |-> "none", challenged |-> FALSE]

Init == /\ ctx = [s \in Sessions |-> 0] /\ seen = [s \in Sessions |-> 0] /\ nextCh = 1
        /\ sent = NoMsg /\ last = NoCall /\ steps = 0

\* (a proof computed from bob's credentials in a message that names bob is simply bob's right proof)
RightProof(m) == m.pw = "right" \/ (m.pw = "asbob" /\ m.u = "bob")
Proves(m, c) == c # 0 /\ m.ch = c /\ HasPassword(m.u) /\ RightProof(m)

\* negotiate: always answered with a fresh challenge that replaces the pending one
Bump == steps < MaxSteps /\ steps' = steps + 1
Negotiate(s) ==
  /\ Bump
  /\ nextCh <= MaxCh
  /\ ctx' = [ctx EXCEPT ![s] = nextCh] /\ seen' = [seen EXCEPT ![s] = nextCh] /\ nextCh' = nextCh + 1
  /\ last' = [kind |-> "neg", s |-> s, msg |-> NoMsg, ctxBefore |-> ctx[s], authed |-> FALSE, user |-> "none", challenged |-> TRUE]
  /\ UNCHANGED sent

\* G_C14_Sound / G_C14_Complete: the verdict on an authenticate message m in session s
Verify(s, m, kind) ==
  /\ IF Proves(m, ctx[s])
       THEN /\ ctx' = [ctx EXCEPT ![s] = 0]
            /\ last' = [kind |-> kind, s |-> s, msg |-> m, ctxBefore |-> ctx[s], authed |-> TRUE, user |-> m.u, challenged |-> FALSE]
       ELSE /\ \E keep \in BOOLEAN : ctx' = [ctx EXCEPT ![s] = IF keep THEN ctx[s] ELSE 0]   \* the pending challenge may survive a failed attempt or not
            /\ last' = [kind |-> kind, s |-> s, msg |-> m, ctxBefore |-> ctx[s], authed |-> FALSE, user |-> "none", challenged |-> FALSE]
  /\ UNCHANGED <<seen, nextCh>>

\* the client answers the latest challenge it saw in session src, as user u with password pw, in session s
Authenticate(s, u, pw, src) ==
  /\ Bump
  /\ seen[src] # 0
  /\ LET m == [u |-> u, pw |-> pw, ch |-> seen[src]] IN Verify(s, m, "auth") /\ sent' = m
Replay(s) == Bump /\ sent # NoMsg /\ Verify(s, sent, "replay") /\ UNCHANGED sent
Garbage(s) ==
  /\ Bump
  /\ \E keep \in BOOLEAN : ctx' = [ctx EXCEPT ![s] = IF keep THEN ctx[s] ELSE 0]
  /\ last' = [kind |-> "garbage", s |-> s, msg |-> NoMsg, ctxBefore |-> ctx[s], authed |-> FALSE, user |-> "none", challenged |-> FALSE]
  /\ UNCHANGED <<seen, nextCh, sent>>

Next == \E s \in Sessions :
          \/ Negotiate(s) \/ Replay(s) \/ Garbage(s)
          \/ \E u \in Users, pw \in Pws, src \in Sessions : Authenticate(s, u, pw, src)
Spec == Init /\ [][Next]_vars

\* C14, restated on the last call
OnlyProofOfPassword ==
  last.authed => /\ last.kind \in {"auth", "replay"}
                 /\ last.ctxBefore # 0 /\ last.msg.ch = last.ctxBefore        \* a negotiate came first, in this session, and the proof is for that challenge
                 /\ HasPassword(last.msg.u) /\ RightProof(last.msg)
                 /\ last.user = last.msg.u
NeverUnknownOrEmpty == last.authed => last.msg.u \in {"alice", "bob"}
HonestClientSucceeds ==
  (last.kind = "auth" /\ last.ctxBefore # 0 /\ last.msg.ch = last.ctxBefore /\ last.msg.u \in {"alice", "bob"} /\ RightProof(last.msg)) => last.authed
NoReplayAfterSuccess == (last.authed) => ctx[last.s] = 0
ChallengesFresh == \A s, t \in Sessions : (s # t /\ ctx[s] # 0) => ctx[s] # ctx[t]
=============================================================================

SPECIFICATION Spec
INVARIANTS ExactlyOne DisabledSchemeNeverReaches NoCredentialsNeverReach SomethingToTry HistoryOpensNothing ReachIffConfirmed
CHECK_DEADLOCK FALSE

package drv

import (
	"verifharness/wsraw"
	"sort"
	"bufio"
	"encoding/json"
	"fmt"
	"math/rand"
	"net"
	"os"
	"strings"
	"time"

	"verifharness/forge"
	"verifharness/gw"
	"verifharness/tsgu"
)

// Script is an abstract single-tunnel scenario generated from the spec.
type Script struct {
	ID        string                   `json:"id"`
	Origin    string                   `json:"origin"`
	Cfg       ScriptCfg                `json:"cfg"`
	Transport string                   `json:"transport"`
	Tun       TunParams                `json:"tun"`
	Steps     []map[string]interface{} `json:"steps"`
	// Grp: scripts with the same non-empty group (and configuration) run in this order on one
	// gateway instance and are never split over instances (re-execution with history)
	Grp string `json:"grp,omitempty"`
	// DupIn (legacy): see OpenOpts.DupIn
	DupIn bool `json:"dupIn,omitempty"`
	// Job / Pos: the instance (job) the script ran on and its position there (set by the runner)
	Job int `json:"-"`
	Pos int `json:"-"`
}

// TunParams describe who opens the tunnel and with which token.
type TunParams struct {
	User     string   `json:"user"`     // IdP subject / NTLM user / basic user
	Login    string   `json:"login"`    // preferred_username at login when it differs from the subject
	HostName []string `json:"hostName"` // host the token is minted for (symbols) - name part
	HostPort string   `json:"hostPort"`
	Entry    []string `json:"entry"`   // for "unsigned": the configured entry passed as ?host=
	MintIP   string   `json:"mintIP"`
	MintXFF  string   `json:"mintXFF"`
	UseIP    string   `json:"useIP"`
	UseXFF   string   `json:"useXFF"`
	// legacy: where the RDG_OUT_DATA request comes from when that is not where the RDG_IN_DATA request comes from
	OutElsewhere bool   `json:"outElsewhere,omitempty"`
	OutIP        string `json:"outIP,omitempty"`
	OutXFF       string `json:"outXFF,omitempty"`
	// Cid: connection identifier to present instead of a fresh unique one (websocket only): tunnels of different
	// users that follow each other on one gateway may well carry the same identifier
	Cid string `json:"cid,omitempty"`
	// CarryCookie: the tunnel request carries the session cookie of the browser that downloaded the connection file
	// (the client address of a request is the address it comes from, whatever session it belongs to)
	CarryCookie bool `json:"carryCookie,omitempty"`
	// LoginGroup: tunnels of one group present connection files downloaded by ONE logged-in browser session (same
	// user, same IdP access token) - for different hosts
	LoginGroup string `json:"loginGroup,omitempty"`
}

func LoadScripts(path string) ([]Script, error) {
	f, err := os.Open(path)
	if err != nil {
		return nil, err
	}
	defer f.Close()
	var out []Script
	sc := bufio.NewScanner(f)
	sc.Buffer(make([]byte, 1<<20), 1<<26)
	for sc.Scan() {
		if len(strings.TrimSpace(sc.Text())) == 0 {
			continue
		}
		var s Script
		if err := json.Unmarshal(sc.Bytes(), &s); err != nil {
			return nil, fmt.Errorf("script: %w", err)
		}
		out = append(out, s)
	}
	return out, sc.Err()
}

// TraceWriter writes NDJSON trace lines.
type TraceWriter struct {
	w *bufio.Writer
	f *os.File
	N int
}

func NewTraceWriter(path string) (*TraceWriter, error) {
	f, err := os.Create(path)
	if err != nil {
		return nil, err
	}
	return &TraceWriter{w: bufio.NewWriterSize(f, 1<<20), f: f}, nil
}

func (t *TraceWriter) Line(v interface{}) {
	b, err := json.Marshal(v)
	if err != nil {
		panic(err)
	}
	t.w.Write(b)
	t.w.WriteByte('\n')
	t.N++
}

func (t *TraceWriter) Close() error {
	t.w.Flush()
	return t.f.Close()
}

type M = map[string]interface{}

func addrRec(text string) M {
	ip := text
	if p := net.ParseIP(strings.TrimSpace(text)); p != nil {
		ip = p.String()
	}
	return M{"ip": ip, "text": text}
}

func xffList(x string) []interface{} {
	out := []interface{}{}
	if x == "" {
		return out
	}
	for _, e := range strings.Split(strings.ReplaceAll(x, "\n", ","), ",") {
		out = append(out, addrRec(strings.TrimSpace(e)))
	}
	return out
}

func hi(x int64) int { return int((x >> 16) & 0xffff) }
func lo(x int64) int { return int(x & 0xffff) }
func pair(x int64) []int {
	if x < 0 {
		return []int{-1, -1}
	}
	return []int{hi(x), lo(x)}
}

// RespRec renders a decoded response for the trace.
func RespRec(d tsgu.Decoded) M {
	return M{"pt": d.Type, "status": pair(d.Status), "wf": d.WellForm, "why": d.Why, "hdrlen": d.HdrLen, "wirelen": d.WireLen,
		"fields": d.Fields, "caps": d.Caps, "major": d.Major, "minor": d.Minor, "redir": pair(d.Redir), "idle": pair(d.Idle),
		"tunnelid": d.TunnelID, "channelid": d.ChannelID}
}

func str(m map[string]interface{}, k, def string) string {
	if v, ok := m[k].(string); ok {
		return v
	}
	return def
}
func num(m map[string]interface{}, k string, def int) int {
	if v, ok := m[k].(float64); ok {
		return int(v)
	}
	return def
}
func syms(m map[string]interface{}, k string) []string {
	out := []string{}
	if v, ok := m[k].([]interface{}); ok {
		for _, x := range v {
			if s, ok := x.(string); ok {
				out = append(out, s)
			}
		}
	}
	return out
}

// cookie material for one tunnel
type cookieCtx struct {
	good    string
	goodTok M
	claims  map[string]interface{}
	at      string
}

func tokRec(form, alg, key, iss string, hasExp bool, exp int, hasNbf bool, nbf int, at, mut string) M {
	return M{"form": form, "alg": alg, "key": key, "iss": iss, "hasExp": hasExp, "exp": exp, "hasNbf": hasNbf, "nbf": nbf, "at": at, "mut": mut}
}

// BadCookieKinds lists the forged cookie classes used for "bad" cookies.
var BadCookieKinds = []string{"garbage", "tiny", "emptystr", "expired", "wrongkey", "algnone", "hs384", "hs512", "rs256", "wrongiss", "noiss",
	"revoked", "unknownat", "idperror", "nbffuture", "json", "flatjson", "nested", "mutpayload", "mutsig", "muthdr", "trunc", "emptykey", "expiredleeway"}

// Forge builds a cookie of the given bad kind with its abstract description.
func (i *Inst) Forge(kind string, cc *cookieCtx, rng *rand.Rand) (string, M) {
	now := time.Now().Unix()
	base := func() map[string]interface{} {
		m := map[string]interface{}{}
		for k, v := range cc.claims {
			m[k] = v
		}
		// a fresh, still valid access token of the same subject so that only the
		// varied attribute is wrong
		m["accessToken"] = i.IdP.Issue(fmt.Sprint(cc.claims["sub"]))
		m["exp"] = now + 300
		return m
	}
	key := []byte(KeyPAASign)
	switch kind {
	case "garbage":
		b := make([]byte, 10+rng.Intn(60))
		for k := range b {
			b[k] = byte(33 + rng.Intn(90))
		}
		return string(b), tokRec("garbage", "none", "other", "missing", false, 0, false, 0, "unknown", "none")
	case "tiny":
		// a string of 1..11 characters (shorter than any token part), dots included
		t := []string{"a", "..", "a.b", "a.b.c", "e30.e30.", "x.y.z.w", "0123456789", "eyJ.eyJ.sig"}[rng.Intn(8)]
		return t, tokRec("garbage", "none", "other", "missing", false, 0, false, 0, "unknown", "none")
	case "emptystr":
		return "", tokRec("empty", "none", "other", "missing", false, 0, false, 0, "unknown", "none")
	case "expired":
		m := base()
		m["exp"] = now - 600
		return forge.JWS("HS256", key, forge.Header("HS256"), forge.Claims(m)), tokRec("compact", "HS256", "gw", "rdpgw", true, -600, false, 0, "valid", "none")
	case "expiredleeway":
		m := base()
		m["exp"] = now - 30 // inside the one-minute leeway: still acceptable
		return forge.JWS("HS256", key, forge.Header("HS256"), forge.Claims(m)), tokRec("compact", "HS256", "gw", "rdpgw", true, -30, false, 0, "valid", "none")
	case "wrongkey":
		return forge.JWS("HS256", []byte("another-key-another-key-another-k"), forge.Header("HS256"), forge.Claims(base())), tokRec("compact", "HS256", "other", "rdpgw", true, 300, false, 0, "valid", "none")
	case "emptykey":
		return forge.JWS("HS256", []byte{}, forge.Header("HS256"), forge.Claims(base())), tokRec("compact", "HS256", "empty", "rdpgw", true, 300, false, 0, "valid", "none")
	case "algnone":
		return forge.JWS("none", nil, forge.Header("none"), forge.Claims(base())), tokRec("compact", "none", "gw", "rdpgw", true, 300, false, 0, "valid", "none")
	case "hs384":
		return forge.JWS("HS384", key, forge.Header("HS384"), forge.Claims(base())), tokRec("compact", "HS384", "gw", "rdpgw", true, 300, false, 0, "valid", "none")
	case "hs512":
		return forge.JWS("HS512", key, forge.Header("HS512"), forge.Claims(base())), tokRec("compact", "HS512", "gw", "rdpgw", true, 300, false, 0, "valid", "none")
	case "rs256":
		return forge.JWS("RS256", nil, forge.Header("RS256"), forge.Claims(base())), tokRec("compact", "RS256", "other", "rdpgw", true, 300, false, 0, "valid", "none")
	case "wrongiss":
		m := base()
		m["iss"] = "rdpgw2"
		return forge.JWS("HS256", key, forge.Header("HS256"), forge.Claims(m)), tokRec("compact", "HS256", "gw", "other", true, 300, false, 0, "valid", "none")
	case "noiss":
		m := base()
		delete(m, "iss")
		return forge.JWS("HS256", key, forge.Header("HS256"), forge.Claims(m)), tokRec("compact", "HS256", "gw", "missing", true, 300, false, 0, "valid", "none")
	case "revoked":
		m := base()
		i.IdP.SetToken(m["accessToken"].(string), "revoked")
		return forge.JWS("HS256", key, forge.Header("HS256"), forge.Claims(m)), tokRec("compact", "HS256", "gw", "rdpgw", true, 300, false, 0, "revoked", "none")
	case "unknownat":
		m := base()
		m["accessToken"] = "at-never-issued-" + fmt.Sprint(rng.Int63())
		return forge.JWS("HS256", key, forge.Header("HS256"), forge.Claims(m)), tokRec("compact", "HS256", "gw", "rdpgw", true, 300, false, 0, "unknown", "none")
	case "idperror":
		m := base()
		i.IdP.SetToken(m["accessToken"].(string), "error")
		return forge.JWS("HS256", key, forge.Header("HS256"), forge.Claims(m)), tokRec("compact", "HS256", "gw", "rdpgw", true, 300, false, 0, "error", "none")
	case "nbffuture":
		m := base()
		m["nbf"] = now + 600
		return forge.JWS("HS256", key, forge.Header("HS256"), forge.Claims(m)), tokRec("compact", "HS256", "gw", "rdpgw", true, 300, true, 600, "valid", "none")
	case "json":
		t := forge.JWS("HS256", key, forge.Header("HS256"), forge.Claims(base()))
		return forge.JSONGeneral(t), tokRec("json", "HS256", "gw", "rdpgw", true, 300, false, 0, "valid", "none")
	case "flatjson":
		t := forge.JWS("HS256", key, forge.Header("HS256"), forge.Claims(base()))
		return forge.JSONFlattened(t), tokRec("json", "HS256", "gw", "rdpgw", true, 300, false, 0, "valid", "none")
	case "nested":
		t := forge.JWS("HS256", key, forge.Header("HS256"), forge.Claims(base()))
		return forge.Nested(t, key), tokRec("nested", "HS256", "gw", "missing", false, 0, false, 0, "valid", "none")
	case "mutpayload", "mutsig", "muthdr":
		t := forge.JWS("HS256", key, forge.Header("HS256"), forge.Claims(base()))
		p := strings.Split(t, ".")
		seg := map[string]int{"muthdr": 0, "mutpayload": 1, "mutsig": 2}[kind]
		for tries := 0; tries < 50; tries++ {
			b := []byte(p[seg])
			pos := rng.Intn(len(b))
			const al = "ABCDEFGHIJKLMNOPQRSTUVWXYZabcdefghijklmnopqrstuvwxyz0123456789-_"
			b[pos] = al[rng.Intn(len(al))]
			q := append([]string{}, p...)
			q[seg] = string(b)
			mt := strings.Join(q, ".")
			if mt != t && !forge.SameMeaning(t, mt) {
				return mt, tokRec("compact", "HS256", "gw", "rdpgw", true, 300, false, 0, "valid", map[string]string{"muthdr": "hdr", "mutpayload": "payload", "mutsig": "sig"}[kind])
			}
		}
		return t + "x", tokRec("compact", "HS256", "gw", "rdpgw", true, 300, false, 0, "valid", "sig")
	case "trunc":
		t := forge.JWS("HS256", key, forge.Header("HS256"), forge.Claims(base()))
		return t[:len(t)-1-rng.Intn(20)], tokRec("compact", "HS256", "gw", "rdpgw", true, 300, false, 0, "valid", "trunc")
	}
	return "x", tokRec("garbage", "none", "other", "missing", false, 0, false, 0, "unknown", "none")
}

// describeMinted derives the abstract description of a gateway-minted token
// with the harness's independent decoder.
func (i *Inst) describeMinted(tok, at string) (M, map[string]interface{}) {
	claims, ok := forge.PayloadClaims(tok)
	if !ok {
		return tokRec("garbage", "none", "other", "missing", false, 0, false, 0, "unknown", "none"), nil
	}
	segs, _ := forge.Split(tok)
	var hdr map[string]interface{}
	json.Unmarshal(segs[0], &hdr)
	alg, _ := hdr["alg"].(string)
	key := "other"
	if forge.VerifyHS256(tok, []byte(KeyPAASign)) {
		key = "gw"
	}
	iss := "missing"
	if v, ok := claims["iss"].(string); ok {
		if v == "rdpgw" {
			iss = "rdpgw"
		} else {
			iss = "other"
		}
	}
	hasExp, exp := false, 0
	if v, ok := claims["exp"].(float64); ok {
		hasExp, exp = true, int(int64(v)-time.Now().Unix())
	}
	hasNbf, nbf := false, 0
	if v, ok := claims["nbf"].(float64); ok {
		hasNbf, nbf = true, int(int64(v)-time.Now().Unix())
	}
	st := "unknown"
	if a, ok := claims["accessToken"].(string); ok && i.IdP != nil {
		st = i.IdP.State(a)
	}
	return tokRec("compact", alg, key, iss, hasExp, exp, hasNbf, nbf, st, "none"), claims
}

// ProtoSession executes the steps of one tunnel one at a time, so that the
// steps of several tunnels can be interleaved by the caller.
type ProtoSession struct {
	I     *Inst
	S     Script
	PC    *ProtoCtx
	T     *TunConn
	Lines []M
}

func (i *Inst) NewSession(s Script, rng *rand.Rand) *ProtoSession {
	return &ProtoSession{I: i, S: s, PC: i.NewProtoCtx(s, rng)}
}

// Open emits the reset line and establishes the tunnel.
func (ps *ProtoSession) Open() error {
	s, cfg := ps.S, ps.S.Cfg
	rd := cfg.Redir
	if rd == nil {
		rd = DefaultRedir()
	}
	ps.Lines = append(ps.Lines, M{"ev": "reset", "script": s.ID, "origin": s.Origin, "transport": s.Transport, "job": s.Job, "pos": s.Pos,
		"cfg": M{"tokenAuth": cfg.TokenAuth, "smartCard": cfg.SmartCard, "redir": rd, "idle": cfg.Idle}})
	oo := ps.PC.OpenOpts()
	for _, st := range s.Steps {
		if str(st, "cookie", "") == "ageing" {
			if err := ps.PC.PrepareAgeing(); err != nil {
				return err
			}
		}
	}
	if s.Tun.CarryCookie {
		if err := ps.PC.EnsureMint(); err != nil {
			return err
		}
		if ps.I.lastMintCookies != "" {
			oo.Headers = append(oo.Headers, [2]string{"Cookie", ps.I.lastMintCookies})
		}
	}
	oo.DupIn = s.DupIn
	t, rep, err := ps.I.Open(oo)
	if err != nil {
		return fmt.Errorf("open: %w", err)
	}
	if t == nil {
		return fmt.Errorf("open refused: %d", rep.Status)
	}
	ps.T = t
	return nil
}

// secondIn: when the gateway accepted a second RDG_IN_DATA connection for this tunnel (DupIn), a whole session is sent
// on it as well after the script's own steps; what the gateway makes of it shows in its hook log (Lifecycle).
func (ps *ProtoSession) secondIn() {
	t := ps.T
	if t == nil || t.In2 == nil {
		return
	}
	t.In2.WriteChunk(make([]byte, 100))
	time.Sleep(30 * time.Millisecond)
	for _, st := range ps.S.Steps {
		k := str(st, "k", "")
		if k == "idle" || k == "hostsend" {
			continue
		}
		if pkt, _, err := ps.PC.Build(st); err == nil {
			if t.In2.WriteChunk(pkt) != nil {
				return
			}
			time.Sleep(40 * time.Millisecond)
		}
	}
}

// Step executes step k of the script and records the gateway's reaction.
func (ps *ProtoSession) Step(k int) (Reaction, error) {
	i, s, cfg := ps.I, ps.S, ps.S.Cfg
	st := s.Steps[k]
	kind := str(st, "k", "other")
	if kind == "reout" {
		// legacy: the client sends a second RDG_OUT_DATA request under the tunnel's identifier (from the address it uses
		// anyway) and reads on there; the tunnel is the same tunnel, with the same token and the same address binding
		t := ps.T
		if t == nil || t.In == nil || t.Exited || t.Broken {
			return Reaction{}, nil
		}
		m := i.P.Mark()
		oo := ps.PC.OpenOpts()
		o2, _, err := wsraw.DialLegacyOut(i.dialOpts(oo, t.Cid))
		if err != nil || o2 == nil {
			return Reaction{}, nil
		}
		i.P.Wait(m, 5*time.Second, func(e gw.Event) bool { return e.Cid == t.Cid && e.Pt == "legacy.out.published" })
		t.Out.WaitEOF(2 * time.Second)
		t.Out.Close()
		t.Out = o2
		return Reaction{}, nil
	}
	if kind == "ownerget" {
		// meanwhile the browser that downloaded this tunnel's connection file asks for /connect again, from ITS address
		// and with its session cookie (the owner reloading the page): not this tunnel's business
		if b := ps.I.lastMintBrowser; b != nil {
			b.Get(ps.I.BaseURL() + "/connect")
		}
		return Reaction{}, nil
	}
	if kind == "idle" {
		// the client keeps the connection open and says nothing for a while
		time.Sleep(time.Duration(num(st, "ms", 1000)) * time.Millisecond)
		return Reaction{}, nil
	}
	pkt, lp, err := ps.PC.Build(st)
	if err != nil {
		return Reaction{}, err
	}
	// connections the loopback hosts have seen so far (the environment's own view of who was connected to)
	before := map[string]int{}
	for name, be := range i.Backends {
		before[name] = be.NConns()
	}
	r, err := ps.T.Step(pkt)
	if err != nil {
		return r, fmt.Errorf("script %s step %s: %w", s.ID, kind, err)
	}
	resps := []interface{}{}
	for _, d := range r.Resps {
		resps = append(resps, RespRec(d))
	}
	dials := []interface{}{}
	for _, h := range r.Dials {
		hint := append([][]string{syms(st, "name"), {str(st, "port", "")}, ps.PC.UserSyms}, cfg.Hosts...)
		dials = append(dials, i.Abs(h, hint))
	}
	hostconns := []interface{}{}
	if kind == "chan" {
		time.Sleep(2 * time.Millisecond)
		ipSym := map[string]string{"127.0.0.1": "H1", "127.0.0.2": "H2", "::1": "H6"}
		names := []string{}
		for name := range i.Backends {
			names = append(names, name)
		}
		sort.Strings(names)
		for _, name := range names {
			be := i.Backends[name]
			if be.NConns() > before[name] {
				port := "P" + name
				if name == "F" {
					port = "PD"
				}
				hostconns = append(hostconns, []string{ipSym[be.IP], ":", port})
			}
		}
	}
	lo := M{"hostconns": hostconns, "resps": resps, "dials": dials, "dialsraw": append([]string{}, r.Dials...), "conn": r.Conn, "nfwd": r.NFwd, "fwdbytes": r.FwdBytes, "end": r.End, "skipped": r.Skipped}
	ps.Lines = append(ps.Lines, M{"ev": "pkt", "p": lp, "o": lo})
	return r, nil
}

// Finish checks that nothing happened on the tunnel's loop after it ended and closes the client side.
func (ps *ProtoSession) Finish() {
	i, t := ps.I, ps.T
	if t == nil {
		return
	}
	defer func() {
		t.Close()
		if ps.S.Tun.Cid != "" && ps.S.Transport == "ws" {
			// the identifier is used again by a later tunnel: wait until this one has left the gateway so that its
			// last hook events are not mistaken for the next tunnel's
			i.P.Wait(t.OpenMark, 5*time.Second, func(e gw.Event) bool { return e.Cid == t.Cid && e.Pt == "gw.exit" })
		}
	}()
	// a tunnel whose packet loop has ended is over for the client as well: the gateway closes the connection it answers
	// on (the client of this script has not hung up - it even went on sending)
	if t.Exited && !t.Broken {
		closed := "timeout"
		if t.WS != nil {
			closed = t.WS.WaitEOF(3 * time.Second)
		} else if t.Out != nil {
			closed = t.Out.WaitEOF(3 * time.Second)
		}
		lastk, lastresp := "none", []int{-1, -1}
		for k := len(ps.Lines) - 1; k >= 0; k-- {
			l := ps.Lines[k]
			if l["ev"] != "pkt" {
				continue
			}
			o, _ := l["o"].(M)
			if o == nil || o["skipped"] == true {
				continue
			}
			if p, ok := l["p"].(M); ok {
				lastk = fmt.Sprint(p["k"])
			}
			break
		}
		ps.Lines = append(ps.Lines, M{"ev": "fin", "closed": closed != "timeout", "how": closed, "lastk": lastk, "lastresp": lastresp})
	}
	if extra := t.AfterEnd(); len(extra) > 0 {
		resps, dials, nf := 0, []interface{}{}, 0
		for _, e := range extra {
			switch e.Pt {
			case "tun.write.begin":
				resps++
			case "proc.dial":
				dials = append(dials, i.Abs(e.Str(0), nil))
			case "relay.c2b":
				nf++
			}
		}
		rs := []interface{}{}
		for k := 0; k < resps; k++ {
			rs = append(rs, M{"pt": 0, "status": []int{-1, -1}, "wf": false, "hdrlen": 0, "wirelen": 0, "fields": -1, "caps": -1, "major": -1, "minor": -1, "redir": []int{-1, -1}, "idle": []int{-1, -1}})
		}
		ps.Lines = append(ps.Lines, M{"ev": "pkt", "p": M{"k": "other", "cls": "valid", "afterend": true},
			"o": M{"hostconns": []interface{}{}, "resps": rs, "dials": dials, "conn": false, "nfwd": nf, "fwdbytes": 0, "end": true, "skipped": false}})
	}
}

// RunProto executes single-tunnel protocol scripts against inst and appends
// their traces.
func (i *Inst) RunProto(s Script, tw *TraceWriter, rng *rand.Rand) error {
	ps := i.NewSession(s, rng)
	err := ps.Open()
	if err == nil {
		for k := range s.Steps {
			if _, err = ps.Step(k); err != nil {
				break
			}
		}
		if err == nil {
			ps.secondIn()
		}
	}
	ps.Finish()
	for _, l := range ps.Lines {
		tw.Line(l)
	}
	return err
}

// Package gw starts the real rdpgw binary (built from /repo's working tree with
// -tags verif) with a generated configuration, connects its verification hook
// channel, and exposes hook events and gates to the drivers.
package gw

import (
	"strconv"
	"bufio"
	"bytes"
	"encoding/json"
	"fmt"
	"net"
	"os"
	"os/exec"
	"path/filepath"
	"sort"
	"strings"
	"sync"
	"syscall"
	"time"
)

// Event is one hook event emitted by the gateway.
type Event struct {
	Seq   int64         `json:"seq"`
	Pt    string        `json:"pt"`
	Cid   string        `json:"cid"`
	Tun   string        `json:"tun"`
	Role  string        `json:"role"`
	A     []interface{} `json:"a"`
	Gated bool          `json:"gated"`
	Panicking bool      `json:"panicking"`
	Gpt   string        `json:"gpt"`
	Tag   string        `json:"tag"`
	N     int           `json:"n"`
	By    map[string]int `json:"by"`
	User  *string        `json:"user"` // proc.recv: the user the tunnel acts for at that packet
	NReg  *int           `json:"nreg"` // reg.end / unreg.end: size of the registry after the change
}

func (e Event) Int(i int) int {
	if i < len(e.A) {
		if f, ok := e.A[i].(float64); ok {
			return int(f)
		}
	}
	return -1
}
func (e Event) Str(i int) string {
	if i < len(e.A) {
		if s, ok := e.A[i].(string); ok {
			return s
		}
	}
	return ""
}
func (e Event) Bool(i int) bool {
	if i < len(e.A) {
		if b, ok := e.A[i].(bool); ok {
			return b
		}
	}
	return false
}

// Config is the subset of rdpgw's configuration the drivers vary. Empty
// values are omitted from the YAML (so rdpgw's defaults apply).
type Config struct {
	Authentication []string
	Tls            string // "disable" | "" (auto) | "enable"
	CertFile       string
	KeyFile        string
	Hosts          []string
	HostSelection  string
	SessionStore   string
	SessionKey     string
	SessionEncKey  string
	GatewayAddress string
	AuthSocket     string
	SendBuf        int
	ReceiveBuf     int
	BasicTimeout   int

	ProviderUrl  string
	ClientId     string
	ClientSecret string

	Keytab   string
	Krb5Conf string

	TokenAuth       *bool
	SmartCardAuth   *bool
	IdleTimeout     *int
	RedirectAll     *bool
	DisableRedirect *bool
	EnableClipboard *bool
	EnablePrinter   *bool
	EnablePort      *bool
	EnablePnp       *bool
	EnableDrive     *bool

	PAASigningKey   string
	PAAEncKey       string
	UserEncKey      string
	UserSigningKey  string
	QuerySigningKey string
	QueryIssuer     string
	VerifyClientIp  *bool
	EnableUserToken *bool

	ClientDefaults   string
	UsernameTemplate string
	SplitUserDomain  *bool
	NoUsername       *bool

	ExtraYAML string            // appended verbatim
	Env       map[string]string // extra environment (RDPGW_ variables)
	NoFile    bool              // do not write a config file at all (env only)
}

func B(b bool) *bool { return &b }
func I(i int) *int   { return &i }

func q(s string) string {
	b, _ := json.Marshal(s)
	return string(b)
}

// YAML renders the configuration (port filled in by Start).
func (c *Config) YAML(port int) string {
	var sb strings.Builder
	w := func(f string, a ...interface{}) { fmt.Fprintf(&sb, f, a...) }
	w("Server:\n")
	w(" Port: %d\n", port)
	if c.Authentication != nil {
		w(" Authentication:\n")
		for _, a := range c.Authentication {
			w("  - %s\n", a)
		}
	}
	if c.Tls != "" {
		w(" Tls: %s\n", c.Tls)
	}
	if c.CertFile != "" {
		w(" CertFile: %s\n", q(c.CertFile))
		w(" KeyFile: %s\n", q(c.KeyFile))
	}
	if c.Hosts != nil {
		w(" Hosts:\n")
		for _, h := range c.Hosts {
			w("  - %s\n", q(h))
		}
	}
	if c.HostSelection != "" {
		w(" HostSelection: %s\n", c.HostSelection)
	}
	if c.SessionStore != "" {
		w(" SessionStore: %s\n", c.SessionStore)
	}
	if c.SessionKey != "" {
		w(" SessionKey: %s\n", q(c.SessionKey))
	}
	if c.SessionEncKey != "" {
		w(" SessionEncryptionKey: %s\n", q(c.SessionEncKey))
	}
	if c.GatewayAddress != "" {
		w(" GatewayAddress: %s\n", q(c.GatewayAddress))
	}
	if c.AuthSocket != "" {
		w(" AuthSocket: %s\n", q(c.AuthSocket))
	}
	if c.SendBuf != 0 {
		w(" SendBuf: %d\n", c.SendBuf)
	}
	if c.ReceiveBuf != 0 {
		w(" ReceiveBuf: %d\n", c.ReceiveBuf)
	}
	if c.BasicTimeout != 0 {
		w(" BasicAuthTimeout: %d\n", c.BasicTimeout)
	}
	if c.ProviderUrl != "" {
		w("OpenId:\n ProviderUrl: %s\n ClientId: %s\n ClientSecret: %s\n", q(c.ProviderUrl), q(c.ClientId), q(c.ClientSecret))
	}
	if c.Keytab != "" || c.Krb5Conf != "" {
		w("Kerberos:\n")
		if c.Keytab != "" {
			w(" Keytab: %s\n", q(c.Keytab))
		}
		if c.Krb5Conf != "" {
			w(" Krb5Conf: %s\n", q(c.Krb5Conf))
		}
	}
	caps := ""
	addb := func(sec *string, k string, v *bool) {
		if v != nil {
			*sec += fmt.Sprintf(" %s: %t\n", k, *v)
		}
	}
	addb(&caps, "TokenAuth", c.TokenAuth)
	addb(&caps, "SmartCardAuth", c.SmartCardAuth)
	if c.IdleTimeout != nil {
		caps += fmt.Sprintf(" IdleTimeout: %d\n", *c.IdleTimeout)
	}
	addb(&caps, "RedirectAll", c.RedirectAll)
	addb(&caps, "DisableRedirect", c.DisableRedirect)
	addb(&caps, "EnableClipboard", c.EnableClipboard)
	addb(&caps, "EnablePrinter", c.EnablePrinter)
	addb(&caps, "EnablePort", c.EnablePort)
	addb(&caps, "EnablePnp", c.EnablePnp)
	addb(&caps, "EnableDrive", c.EnableDrive)
	if caps != "" {
		w("Caps:\n%s", caps)
	}
	sec := ""
	adds := func(k, v string) {
		if v != "" {
			sec += fmt.Sprintf(" %s: %s\n", k, q(v))
		}
	}
	adds("PAATokenSigningKey", c.PAASigningKey)
	adds("PAATokenEncryptionKey", c.PAAEncKey)
	adds("UserTokenEncryptionKey", c.UserEncKey)
	adds("UserTokenSigningKey", c.UserSigningKey)
	adds("QueryTokenSigningKey", c.QuerySigningKey)
	adds("QueryTokenIssuer", c.QueryIssuer)
	addb(&sec, "VerifyClientIp", c.VerifyClientIp)
	addb(&sec, "EnableUserToken", c.EnableUserToken)
	if sec != "" {
		w("Security:\n%s", sec)
	}
	cl := ""
	if c.ClientDefaults != "" {
		cl += fmt.Sprintf(" Defaults: %s\n", q(c.ClientDefaults))
	}
	if c.UsernameTemplate != "" {
		cl += fmt.Sprintf(" UsernameTemplate: %s\n", q(c.UsernameTemplate))
	}
	addb(&cl, "SplitUserDomain", c.SplitUserDomain)
	addb(&cl, "NoUsername", c.NoUsername)
	if cl != "" {
		w("Client:\n%s", cl)
	}
	sb.WriteString(c.ExtraYAML)
	return strings.ReplaceAll(sb.String(), "%PORT%", fmt.Sprint(port))
}

// Proc is a running gateway.
type Proc struct {
	Cmd     *exec.Cmd
	Port    int
	Addr    string
	Dir     string
	TLS     bool
	mu      sync.Mutex
	cond    *sync.Cond
	events  []Event
	ctl     net.Conn
	ctlL    net.Listener
	stderr  *syncBuf
	exited  chan struct{}
	exitErr error
}

type syncBuf struct {
	mu sync.Mutex
	b  bytes.Buffer
}

func (s *syncBuf) Write(p []byte) (int, error) {
	s.mu.Lock()
	defer s.mu.Unlock()
	if s.b.Len() > 8<<20 {
		// keep the head (start-up) and drop the middle: panics are found by scanning as we go
		return len(p), nil
	}
	return s.b.Write(p)
}
func (s *syncBuf) String() string {
	s.mu.Lock()
	defer s.mu.Unlock()
	return s.b.String()
}

var (
	portMu   sync.Mutex
	portNext int
)

// FreePort hands out listening ports. Within one driver process every port is
// handed out once (a counter from a per-process random base), and a port is
// probed on the wildcard address before use; that leaves only a small race
// with other processes, which Start detects and retries.
func FreePort() int {
	portMu.Lock()
	defer portMu.Unlock()
	// the ports handed out stay BELOW the kernel's ephemeral range (32768..60999): the listeners of the fake hosts, IdP
	// and KDCs get their ports from that range (":0"), and one of them taking the port between this probe and the
	// gateway's own bind made the gateway exit with "address already in use" after the harness had seen "something
	// listens there" (rare "connection refused" for every script of one instance)
	// ... and every test process keeps to a slice of its own (500 ports, chosen by its pid): several of them run on one
	// machine at the same time
	lo := 12000 + (os.Getpid()%40)*500
	if portNext == 0 {
		portNext = lo + int(time.Now().UnixNano()%400)
	}
	for i := 0; i < 5000; i++ {
		portNext++
		if portNext >= lo+500 {
			portNext = lo
		}
		l, err := net.Listen("tcp", fmt.Sprintf(":%d", portNext))
		if err != nil {
			continue
		}
		l.Close()
		return portNext
	}
	return 0
}

// ListensOn tells whether process pid holds a listening TCP socket on the given port (several test processes on one
// machine hand out ports from the same range: "somebody listens there" is not "this gateway listens there").
func ListensOn(pid, port int) bool {
	inodes := map[string]bool{}
	for _, f := range []string{"/proc/net/tcp", "/proc/net/tcp6"} {
		b, err := os.ReadFile(f)
		if err != nil {
			continue
		}
		for _, ln := range strings.Split(string(b), "\n")[1:] {
			fs := strings.Fields(ln)
			if len(fs) < 10 || fs[3] != "0A" {
				continue
			}
			k := strings.LastIndex(fs[1], ":")
			if k < 0 {
				continue
			}
			if p, err := strconv.ParseInt(fs[1][k+1:], 16, 32); err == nil && int(p) == port {
				inodes[fs[9]] = true
			}
		}
	}
	if len(inodes) == 0 {
		return false
	}
	ents, err := os.ReadDir(fmt.Sprintf("/proc/%d/fd", pid))
	if err != nil {
		return false
	}
	for _, e := range ents {
		if l, err := os.Readlink(fmt.Sprintf("/proc/%d/fd/%s", pid, e.Name())); err == nil && strings.HasPrefix(l, "socket:[") {
			if inodes[strings.TrimSuffix(strings.TrimPrefix(l, "socket:["), "]")] {
				return true
			}
		}
	}
	return false
}

// StartOpts control how the process is started.
type StartOpts struct {
	Binary   string
	WorkDir  string // parent scratch dir; a fresh sub dir is made
	NoWait   bool   // do not wait for the port (start-up refusal tests)
	WaitFor  time.Duration
	NoHooks  bool
	ExtraEnv []string
}

// Start launches the gateway. With NoWait it returns right after exec. A lost
// race for the listening port (another process took it between probing and
// binding) is retried with a new port.
func Start(cfg *Config, o StartOpts) (*Proc, error) {
	var p *Proc
	var err error
	for try := 0; try < 5; try++ {
		p, err = start1(cfg, o)
		if err != nil && p != nil && strings.Contains(p.Stderr(), "address already in use") && !o.NoWait {
			p.Stop()
			continue
		}
		return p, err
	}
	return p, err
}

func start1(cfg *Config, o StartOpts) (*Proc, error) {
	dir, err := os.MkdirTemp(o.WorkDir, "gw-")
	if err != nil {
		return nil, err
	}
	p := &Proc{Dir: dir, stderr: &syncBuf{}, exited: make(chan struct{})}
	p.cond = sync.NewCond(&p.mu)
	p.Port = FreePort()
	p.Addr = fmt.Sprintf("127.0.0.1:%d", p.Port)
	p.TLS = cfg.Tls != "disable"
	conf := filepath.Join(dir, "rdpgw.yaml")
	if !cfg.NoFile {
		if err := os.WriteFile(conf, []byte(cfg.YAML(p.Port)), 0600); err != nil {
			return nil, err
		}
	}
	tmp := filepath.Join(dir, "tmp")
	os.MkdirAll(tmp, 0700)
	env := []string{"PATH=" + os.Getenv("PATH"), "HOME=" + dir, "TMPDIR=" + tmp}
	if !o.NoHooks {
		sock := filepath.Join(dir, "ctl.sock")
		l, err := net.Listen("unix", sock)
		if err != nil {
			return nil, err
		}
		p.ctlL = l
		env = append(env, "RDPGW_VERIF_CTL="+sock)
		go p.acceptCtl()
	}
	keys := make([]string, 0, len(cfg.Env))
	for k := range cfg.Env {
		keys = append(keys, k)
	}
	sort.Strings(keys)
	for _, k := range keys {
		env = append(env, k+"="+cfg.Env[k])
	}
	if cfg.NoFile {
		env = append(env, fmt.Sprintf("RDPGW_SERVER__PORT=%d", p.Port))
	}
	env = append(env, o.ExtraEnv...)
	cmd := exec.Command(o.Binary, "-c", conf)
	cmd.Dir = dir
	cmd.Env = env
	cmd.Stderr = p.stderr
	cmd.Stdout = p.stderr
	cmd.SysProcAttr = &syscall.SysProcAttr{Pdeathsig: syscall.SIGKILL}
	if err := cmd.Start(); err != nil {
		return nil, err
	}
	p.Cmd = cmd
	go func() {
		p.exitErr = cmd.Wait()
		close(p.exited)
		p.mu.Lock()
		p.cond.Broadcast()
		p.mu.Unlock()
	}()
	if o.NoWait {
		return p, nil
	}
	wait := o.WaitFor
	if wait == 0 {
		wait = 15 * time.Second
	}
	deadline := time.Now().Add(wait)
	for time.Now().Before(deadline) {
		select {
		case <-p.exited:
			return p, fmt.Errorf("gateway exited during start-up: %v\n%s", p.exitErr, tail(p.stderr.String(), 2000))
		default:
		}
		c, err := net.DialTimeout("tcp", p.Addr, 200*time.Millisecond)
		if err == nil {
			c.Close()
			if p.Cmd != nil && p.Cmd.Process != nil && !ListensOn(p.Cmd.Process.Pid, p.Port) {
				// somebody else's listener (another test process on this machine took the port in between)
				time.Sleep(3 * time.Millisecond)
				continue
			}
			// somebody listens there - make sure it is this process (a lost bind race
			// makes the gateway exit with "address already in use" a moment later)
			time.Sleep(15 * time.Millisecond)
			select {
			case <-p.exited:
				return p, fmt.Errorf("gateway exited during start-up: %v\n%s", p.exitErr, tail(p.stderr.String(), 2000))
			default:
			}
			if !o.NoHooks {
				// wait for the hook channel as well
				for time.Now().Before(deadline) {
					p.mu.Lock()
					ok := p.ctl != nil
					p.mu.Unlock()
					if ok {
						return p, nil
					}
					time.Sleep(2 * time.Millisecond)
				}
				return p, fmt.Errorf("hook channel did not connect")
			}
			return p, nil
		}
		time.Sleep(3 * time.Millisecond)
	}
	p.Stop()
	return p, fmt.Errorf("gateway did not listen on %s within %s\n%s", p.Addr, wait, tail(p.stderr.String(), 2000))
}

func tail(s string, n int) string {
	if len(s) > n {
		return s[len(s)-n:]
	}
	return s
}

func (p *Proc) acceptCtl() {
	c, err := p.ctlL.Accept()
	if err != nil {
		return
	}
	p.mu.Lock()
	p.ctl = c
	p.cond.Broadcast()
	p.mu.Unlock()
	sc := bufio.NewScanner(c)
	sc.Buffer(make([]byte, 1<<16), 1<<22)
	for sc.Scan() {
		var e Event
		if err := json.Unmarshal(sc.Bytes(), &e); err != nil {
			continue
		}
		p.mu.Lock()
		p.events = append(p.events, e)
		p.cond.Broadcast()
		p.mu.Unlock()
	}
}

// Mark returns the current number of events (use as "since" index).
func (p *Proc) Mark() int {
	p.mu.Lock()
	defer p.mu.Unlock()
	return len(p.events)
}

// Since returns a copy of the events from index i on.
func (p *Proc) Since(i int) []Event {
	p.mu.Lock()
	defer p.mu.Unlock()
	if i > len(p.events) {
		i = len(p.events)
	}
	return append([]Event(nil), p.events[i:]...)
}

// Wait blocks until an event at index >= from satisfies pred, returning its
// index, or until the timeout or the death of the process (index -1).
func (p *Proc) Wait(from int, timeout time.Duration, pred func(Event) bool) (int, Event) {
	deadline := time.Now().Add(timeout)
	timer := time.AfterFunc(timeout+5*time.Millisecond, func() {
		p.mu.Lock()
		p.cond.Broadcast()
		p.mu.Unlock()
	})
	defer timer.Stop()
	p.mu.Lock()
	defer p.mu.Unlock()
	i := from
	for {
		for ; i < len(p.events); i++ {
			if pred(p.events[i]) {
				return i, p.events[i]
			}
		}
		if time.Now().After(deadline) {
			return -1, Event{}
		}
		select {
		case <-p.exited:
			// drain what is there, then give up
			if i >= len(p.events) {
				return -1, Event{}
			}
		default:
		}
		p.cond.Wait()
	}
}

func (p *Proc) send(cmd map[string]interface{}) error {
	p.mu.Lock()
	c := p.ctl
	p.mu.Unlock()
	if c == nil {
		return fmt.Errorf("no hook channel")
	}
	b, _ := json.Marshal(cmd)
	_, err := c.Write(append(b, '\n'))
	return err
}

func (p *Proc) Gate(pt, cid, role string) error {
	from := p.Mark()
	if err := p.send(map[string]interface{}{"op": "gate", "pt": pt, "cid": cid, "role": role}); err != nil {
		return err
	}
	if i, _ := p.Wait(from, 5*time.Second, func(e Event) bool { return e.Pt == "ctl.gate" && e.Gpt == pt && e.Cid == cid }); i < 0 {
		return fmt.Errorf("gate not acknowledged")
	}
	return nil
}
func (p *Proc) Release(pt, cid, role string, n int) error {
	return p.send(map[string]interface{}{"op": "release", "pt": pt, "cid": cid, "role": role, "n": n})
}
func (p *Proc) Ungate(pt, cid, role string) error {
	from := p.Mark()
	if err := p.send(map[string]interface{}{"op": "ungate", "pt": pt, "cid": cid, "role": role}); err != nil {
		return err
	}
	if i, _ := p.Wait(from, 5*time.Second, func(e Event) bool { return e.Pt == "ctl.ungate" && e.Gpt == pt && e.Cid == cid }); i < 0 {
		return fmt.Errorf("ungate not acknowledged")
	}
	return nil
}

// Goroutines asks the gateway for its goroutine census.
func (p *Proc) Goroutines(tag string) (Event, error) {
	from := p.Mark()
	if err := p.send(map[string]interface{}{"op": "goroutines", "cid": tag}); err != nil {
		return Event{}, err
	}
	i, e := p.Wait(from, 5*time.Second, func(e Event) bool { return e.Pt == "ctl.goroutines" && e.Tag == tag })
	if i < 0 {
		return e, fmt.Errorf("no goroutine census")
	}
	return e, nil
}

// Sync round-trips a marker through the hook channel.
func (p *Proc) Sync(tag string) error {
	if p.ctlL == nil {
		return nil
	}
	from := p.Mark()
	if err := p.send(map[string]interface{}{"op": "sync", "cid": tag}); err != nil {
		return err
	}
	if i, _ := p.Wait(from, 5*time.Second, func(e Event) bool { return e.Pt == "ctl.sync" && e.Tag == tag }); i < 0 {
		return fmt.Errorf("no sync")
	}
	return nil
}

func (p *Proc) Alive() bool {
	select {
	case <-p.exited:
		return false
	default:
		return true
	}
}

// WaitExit waits for the process to exit and returns its exit code (-1 on
// timeout, -2 when killed by a signal).
func (p *Proc) WaitExit(timeout time.Duration) int {
	select {
	case <-p.exited:
	case <-time.After(timeout):
		return -1
	}
	if p.Cmd.ProcessState == nil {
		return -2
	}
	if ws, ok := p.Cmd.ProcessState.Sys().(syscall.WaitStatus); ok && ws.Signaled() {
		return -2
	}
	return p.Cmd.ProcessState.ExitCode()
}

func (p *Proc) Stderr() string { return p.stderr.String() }

// Stop kills the process and removes its scratch directory.
func (p *Proc) Stop() {
	if p.Cmd != nil && p.Cmd.Process != nil {
		p.Cmd.Process.Kill()
		select {
		case <-p.exited:
		case <-time.After(3 * time.Second):
		}
	}
	if p.ctlL != nil {
		p.ctlL.Close()
	}
	p.mu.Lock()
	if p.ctl != nil {
		p.ctl.Close()
	}
	p.mu.Unlock()
	os.RemoveAll(p.Dir)
}

// Faults scans stderr for signs of runtime faults.
func (p *Proc) Faults() []string {
	var out []string
	for _, l := range strings.Split(p.stderr.String(), "\n") {
		if strings.Contains(l, "panic serving") || strings.HasPrefix(l, "panic:") || strings.HasPrefix(l, "fatal error:") || strings.Contains(l, "WARNING: DATA RACE") {
			out = append(out, l)
		}
	}
	return out
}

-------------------------------- MODULE Gateway --------------------------------
(* Several tunnels inside one gateway process: the goroutines that serve them     *)
(* (HTTP handler, packet loop, relay), the state they share (connection registry, *)
(* the client-facing writer of each tunnel, the legacy connection cache) and the  *)
(* data they move.  C07 (isolation), C09 (no unsynchronised sharing).             *)
EXTENDS Integers, Sequences, FiniteSets, TLC

CONSTANTS T,          \* tunnel identities
          Legacy,     \* subset of T using the RDG_IN/OUT pair
          MaxWrites,  \* writes per goroutine explored
          Serialised  \* TRUE: the implementation takes the locks (the design); FALSE only for the necessity self-test

Roles == {"handler", "loop", "relay"}
G == Roles \X T          \* goroutines

VARIABLES pc,        \* goroutine -> program point
          registry,  \* tunnels in the connection registry
          regBusy,   \* goroutines inside a registry critical section
          writing,   \* tunnel -> goroutines inside Tunnel.Write for that tunnel
          nwrites,   \* goroutine -> writes done
          toClient,  \* tunnel -> sequence of frames received by its client: [by, from]  (from: the tunnel whose data it carries)
          toHost,    \* tunnel -> sequence of payload owners received by its host
          cache      \* connection id (= tunnel identity) -> tunnel whose OUT side is published
vars == <<pc, registry, regBusy, writing, nwrites, toClient, toHost, cache>>

Init == /\ pc = [g \in G |-> IF g[1] = "handler" THEN "start" ELSE "idle"]
        /\ registry = {} /\ regBusy = {} /\ writing = [t \in T |-> {}]
        /\ nwrites = [g \in G |-> 0]
        /\ toClient = [t \in T |-> <<>>] /\ toHost = [t \in T |-> <<>>]
        /\ cache = [t \in T |-> "none"]

h(t) == <<"handler", t>>
lp(t) == <<"loop", t>>
rl(t) == <<"relay", t>>

\* ---- handler: (legacy: publish OUT under the connection id), register, run the loop, unregister
Publish(t) == /\ t \in Legacy /\ pc[h(t)] = "start"
              /\ cache' = [cache EXCEPT ![t] = t]      \* keyed by this tunnel's own connection id only
              /\ pc' = [pc EXCEPT ![h(t)] = "published"]
              /\ UNCHANGED <<registry, regBusy, writing, nwrites, toClient, toHost>>
RegBegin(t) == /\ pc[h(t)] = (IF t \in Legacy THEN "published" ELSE "start")
               /\ (Serialised => regBusy = {})
               /\ regBusy' = regBusy \cup {h(t)} /\ pc' = [pc EXCEPT ![h(t)] = "registering"]
               /\ UNCHANGED <<registry, writing, nwrites, toClient, toHost, cache>>
RegEnd(t) == /\ pc[h(t)] = "registering"
             /\ registry' = registry \cup {t} /\ regBusy' = regBusy \ {h(t)}
             /\ pc' = [pc EXCEPT ![h(t)] = "serving", ![lp(t)] = "running"]
             /\ UNCHANGED <<writing, nwrites, toClient, toHost, cache>>
\* ---- packet loop: answers packets (writes to its own client), forwards client payload to its own host, opens the channel
WriteBegin(g) == /\ pc[g] = "running" /\ nwrites[g] < MaxWrites
                 /\ (Serialised => writing[g[2]] = {})
                 /\ writing' = [writing EXCEPT ![g[2]] = @ \cup {g}]
                 /\ pc' = [pc EXCEPT ![g] = "inwrite"]
                 /\ UNCHANGED <<registry, regBusy, nwrites, toClient, toHost, cache>>
WriteEnd(g) == /\ pc[g] = "inwrite"
               /\ writing' = [writing EXCEPT ![g[2]] = @ \ {g}]
               /\ toClient' = [toClient EXCEPT ![g[2]] = Append(@, [by |-> g, from |-> g[2], whole |-> Cardinality(writing[g[2]]) = 1])]
               /\ nwrites' = [nwrites EXCEPT ![g] = @ + 1]
               /\ pc' = [pc EXCEPT ![g] = "running"]
               /\ UNCHANGED <<registry, regBusy, toHost, cache>>
OpenChannel(t) == /\ pc[lp(t)] = "running" /\ pc[rl(t)] = "idle"
                  /\ pc' = [pc EXCEPT ![rl(t)] = "running"]
                  /\ UNCHANGED <<registry, regBusy, writing, nwrites, toClient, toHost, cache>>
Forward(t) == /\ pc[lp(t)] = "running" /\ pc[rl(t)] # "idle" /\ Len(toHost[t]) < MaxWrites
              /\ toHost' = [toHost EXCEPT ![t] = Append(@, t)]
              /\ UNCHANGED <<pc, registry, regBusy, writing, nwrites, toClient, cache>>
\* ---- teardown: the loop ends, the relay ends, the handler unregisters
LoopEnd(t) == /\ pc[lp(t)] = "running" /\ pc' = [pc EXCEPT ![lp(t)] = "done", ![rl(t)] = IF pc[rl(t)] = "running" THEN "done" ELSE pc[rl(t)]]
              /\ UNCHANGED <<registry, regBusy, writing, nwrites, toClient, toHost, cache>>
UnregBegin(t) == /\ pc[h(t)] = "serving" /\ pc[lp(t)] = "done"
                 /\ (Serialised => regBusy = {})
                 /\ regBusy' = regBusy \cup {h(t)} /\ pc' = [pc EXCEPT ![h(t)] = "unregistering"]
                 /\ UNCHANGED <<registry, writing, nwrites, toClient, toHost, cache>>
UnregEnd(t) == /\ pc[h(t)] = "unregistering"
               /\ registry' = registry \ {t} /\ regBusy' = regBusy \ {h(t)}
               /\ cache' = [cache EXCEPT ![t] = "none"]
               /\ pc' = [pc EXCEPT ![h(t)] = "gone"]
               /\ UNCHANGED <<writing, nwrites, toClient, toHost>>

Next == \E t \in T : Publish(t) \/ RegBegin(t) \/ RegEnd(t) \/ OpenChannel(t) \/ Forward(t) \/ LoopEnd(t) \/ UnregBegin(t) \/ UnregEnd(t)
                     \/ WriteBegin(lp(t)) \/ WriteEnd(lp(t)) \/ WriteBegin(rl(t)) \/ WriteEnd(rl(t))
Spec == Init /\ [][Next]_vars

\* C09
WriteMutex == \A t \in T : Cardinality(writing[t]) <= 1
RegistryMutex == Cardinality(regBusy) <= 1
FramesWhole == \A t \in T : \A i \in 1..Len(toClient[t]) : toClient[t][i].whole
\* C07
ClientGetsOwnData == \A t \in T : \A i \in 1..Len(toClient[t]) : toClient[t][i].from = t /\ toClient[t][i].by[2] = t
HostGetsOwnData == \A t \in T : \A i \in 1..Len(toHost[t]) : toHost[t][i] = t
PairingByConnectionId == \A t \in T : cache[t] \in {"none", t}
RegistryTracksServing == \A t \in T : pc[h(t)] = "serving" => t \in registry
=============================================================================

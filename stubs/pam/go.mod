module github.com/msteinert/pam/v2

go 1.20

SPECIFICATION Spec
INVARIANTS ExactlyOne DisabledSchemeNeverReaches NoCredentialsNeverReach SomethingToTry
CHECK_DEADLOCK FALSE

"""Single-tunnel protocol family: scripts generated from the Tunnel
specification's state graph, executed against the real gateway binary over
both transports, and judged by TLC with the TunnelTrace specification.
Serves C01, C02 (tunnel level), C03, C04, C16, C17."""
import json, os, random, re, collections
from vlib import *

H_A = {"hostName": ["H1"], "hostPort": "PA", "entry": ["H1", ":", "PA"]}


def model_graph(work, tag="MC_Proto"):
    """Exhaustive design check of the envelope + dump of its state graph."""
    dot = work.path("proto.dot")
    r = design_check("MC_Proto", "MC_Proto.cfg", work, workers=8, timeout=600, extra=["-dump", "dot,actionlabels", dot])
    nodes, roots, edges = parse_dot(dot)
    return r, nodes, roots, edges


def core_of(label):
    v = state_vars(label)
    return (v["cfg"], v["phase"], v["nd"], v["oks"], v["tokOk"])


def forceable_cover(nodes, roots, edges):
    """(core state, packet) cover over environment-forceable paths: a step is
    used to *reach* a state only if the model gives it a single successor."""
    core = {n: core_of(l) for n, l in nodes.items()}
    succ = collections.defaultdict(lambda: collections.defaultdict(set))
    for s, d, act, args in edges:
        if act != "Handle":
            continue
        succ[core[s]][args].add(core[d])
    paths = {}
    q = collections.deque()
    for r in roots:
        c = core[r]
        if c not in paths:
            paths[c] = []
            q.append(c)
    while q:
        c = q.popleft()
        for a, ds in sorted(succ[c].items()):
            if len(ds) != 1:
                continue
            d = next(iter(ds))
            if d not in paths:
                paths[d] = paths[c] + [a]
                q.append(d)
    cover = []
    for c in sorted(paths):
        for a in sorted(succ[c]):
            cover.append((c, paths[c], a))
    return cover, paths, succ


def cfg_of_core(c):
    m = re.search(r"tokenAuth \|-> (TRUE|FALSE), smartCard \|-> (TRUE|FALSE)", c[0])
    return m.group(1) == "TRUE", m.group(2) == "TRUE"


def script_cfg(tokenAuth, smartCard, h):
    """Pick a concrete configuration for a model configuration (rotating by hash)."""
    if tokenAuth:
        sel = ["roundrobin", "unsigned", "any", "unsigned"][h % 4]
        hosts = [["H1", ":", "PA"]] if sel == "roundrobin" else [["H1", ":", "PA"], ["H1", ":", "PB"], ["H1", ":", "PD"]]
        return {"tokenAuth": True, "smartCard": smartCard, "auth": "openid", "sel": sel, "hosts": hosts, "verifyIp": True, "idle": [0, 30, -1][h % 3]}
    auth = "local" if h % 7 == 0 else "ntlm"
    sel = ["roundrobin", "any", "unsigned"][h % 3]
    c = {"tokenAuth": False, "smartCard": smartCard, "auth": auth, "sel": sel,
         "hosts": [["H1", ":", "PA"], ["H1", ":", "PD"]], "verifyIp": True, "idle": [0, 30, -1][h % 3]}
    if auth == "local":
        c["tls"] = True
    return c


def step_of(pkt, cfg, h, tun):
    """Model packet -> abstract script step (python side picks concrete classes)."""
    p = parse_tla_value(pkt)
    k = p["k"]
    st = {"k": k, "cls": p.get("cls", "valid")}
    if k == "hs":
        st.update({"caps": p["caps"], "major": 1 + h % 3, "minor": h % 5})
    elif k == "create":
        st["cookie"] = "good" if p["cookieGood"] else (["bad", "bad", "none", "bad"][h % 4])
    elif k == "chan":
        ha = p["hostAllowed"]
        if ha in ("yes", "free"):
            st.update({"name": tun["hostName"], "port": tun["hostPort"]})
        else:
            variants = [(["H1"], "PE"), (["H2"], tun["hostPort"]), (["H1", "NUL", "H1"], tun["hostPort"])]
            if cfg["tokenAuth"] and cfg["sel"] != "roundrobin":
                variants.append((["H1"], "PB" if tun["hostPort"] != "PB" else "PA"))
            n, pt = variants[h % len(variants)]
            if cfg["sel"] == "any" and not cfg["tokenAuth"]:
                # 'any' without a token allows every host: a refusal cannot be provoked
                n, pt = ["H1"], "PE"
            st.update({"name": n, "port": pt})
    elif k == "data":
        st["n"] = [0, 1, 17, 1500][h % 4]
    elif k == "other":
        st["pt"] = [0x3, 0xB, 0xC, 0x7f, 0x0, 0x2, 0x5, 0x11][h % 8]
    return st


def gen_graph_scripts(work, seed, tier):
    r, nodes, roots, edges = model_graph(work)
    cover, paths, succ = forceable_cover(nodes, roots, edges)
    rng = random.Random(seed)
    allpk = sorted({a for c in succ for a in succ[c]})
    scripts = []
    nprobe = 1 if tier == "quick" else 3
    for (c, path, a) in cover:
        tokenAuth, smartCard = cfg_of_core(c)
        for pi in range(nprobe):
            h = stable_hash("%s|%s|%s|%d|%d" % (c, path, a, pi, seed))
            cfg = script_cfg(tokenAuth, smartCard, h)
            user = "user1" if cfg["auth"] == "openid" else ("1" if cfg["auth"] == "local" else "nuser1")
            tun = dict(H_A, user=user)
            if h % 11 == 0 and cfg["sel"] != "roundrobin":
                tun.update({"hostPort": "PD", "entry": ["H1", ":", "PD"]})   # allowed but nothing listens
            if h % 13 == 0 and cfg["tokenAuth"]:
                # textual variant of the same client address (verdict "free")
                tun.update({"mintXFF": "::1", "useXFF": "0:0:0:0:0:0:0:1"})
            if h % 17 == 0 and cfg["tokenAuth"]:
                tun.update({"mintXFF": "10.1.1.1, 10.9.9.9", "useXFF": "10.1.1.2"})  # another client address
            probe = allpk[rng.randrange(len(allpk))]
            steps = [step_of(x, cfg, stable_hash(x + str(i) + str(h)), tun) for i, x in enumerate(path + [a, probe])]
            transports = ["ws", "legacy"] if tier == "thorough" else [["ws", "legacy"][h % 2]]
            for tr in transports:
                scripts.append({"id": "g%05d-%s" % (len(scripts), tr), "origin": "graph:%s/%s" % (c[1], a), "cfg": cfg,
                                "transport": tr, "tun": tun, "steps": steps})
    return r, scripts


def gen_random_scripts(seed, n, maxlen=14):
    """Seeded random packet sequences biased towards progress (long live histories)."""
    rng = random.Random(seed * 7919 + 13)
    scripts = []
    canon = ['[k |-> "hs", cls |-> "valid", caps |-> %d]', '[k |-> "create", cls |-> "valid", cookieGood |-> TRUE]',
             '[k |-> "auth", cls |-> "valid"]', '[k |-> "chan", cls |-> "valid", hostAllowed |-> "yes"]']
    noise = ['[k |-> "data", cls |-> "valid"]', '[k |-> "keepalive", cls |-> "valid"]', '[k |-> "other", cls |-> "valid"]',
             '[k |-> "close", cls |-> "valid"]', '[k |-> "hs", cls |-> "trunc", caps |-> 2]', '[k |-> "create", cls |-> "valid", cookieGood |-> FALSE]',
             '[k |-> "chan", cls |-> "valid", hostAllowed |-> "no"]', '[k |-> "auth", cls |-> "trunc"]', '[k |-> "chan", cls |-> "trunc", hostAllowed |-> "no"]',
             '[k |-> "create", cls |-> "trunc", cookieGood |-> FALSE]']
    for i in range(n):
        tokenAuth, smartCard = rng.random() < 0.6, rng.random() < 0.3
        h = rng.getrandbits(30)
        cfg = script_cfg(tokenAuth, smartCard, h)
        user = "user1" if cfg["auth"] == "openid" else ("1" if cfg["auth"] == "local" else "nuser1")
        tun = dict(H_A, user=user)
        caps = (2 if tokenAuth else 0) | (1 if smartCard and rng.random() < 0.5 else 0)
        if not tokenAuth and not smartCard:
            caps = 0
        if tokenAuth or smartCard:
            caps = caps or 1
        seq, pos = [], 0
        for _ in range(rng.randrange(3, maxlen)):
            x = rng.random()
            if pos < 4 and x < 0.55:
                p = canon[pos] % caps if pos == 0 else canon[pos]
                pos += 1
            elif pos >= 4 and x < 0.7:
                p = noise[rng.randrange(0, 3)]
            else:
                p = noise[rng.randrange(len(noise))]
            seq.append(p)
        steps = [step_of(x, cfg, rng.getrandbits(30), tun) for x in seq]
        scripts.append({"id": "r%05d" % i, "origin": "rand:%d:%d" % (seed, i), "cfg": cfg, "transport": ["ws", "legacy"][i % 2], "tun": tun, "steps": steps})
    return scripts


def locate(trace_lines, lineno):
    """Script id and packet index of a trace line (1-based)."""
    sid, idx = None, 0
    for i in range(lineno):
        ev = trace_lines[i]
        if ev.get("ev") == "reset":
            sid, idx = ev.get("script"), 0
        else:
            idx += 1
    return sid, idx


def run_scripts(work, scripts, seed, tier, tag, jobs=12):
    sp = work.path("scripts-%s.ndjson" % tag)
    tp = work.path("trace-%s.ndjson" % tag)
    write_ndjson(sp, scripts)
    rep = run_driver("proto", work, scripts=sp, out=tp, seed=seed, jobs=jobs, tier=tier, tag=tag)
    if rep["done"] != len(scripts):
        raise HarnessError("driver finished %d of %d scripts" % (rep["done"], len(scripts)))
    res = trace_check("TunnelTrace", "TunnelTrace.cfg", tp, work, tag="tt-" + tag)
    lines = read_ndjson(tp)
    viol = []
    for v in res["viol"]:
        ln, g, phase, k, cls = v
        sid, idx = locate(lines, ln)
        viol.append({"line": ln, "guard": g, "phase": phase, "k": k, "cls": cls, "script": sid, "step": idx,
                     "event": lines[ln - 1], "transport": next((s["transport"] for s in scripts if s["id"] == sid), "?")})
    return {"report": rep, "result": res, "viol": viol, "trace": tp, "lines": lines, "faults": rep.get("faults") or []}

"""Framing (C08) and relay (C06) families."""
import json, random
from vlib import *
import fam_tunnel as ft

H_A = ft.H_A


def _outcome():
    import check as chk
    return chk.Outcome()


def session(token, n2=300):
    caps = 2 if token else 0
    return [{"k": "hs", "cls": "valid", "caps": caps, "major": 1, "minor": 0},
            {"k": "create", "cls": "valid", "cookie": "good" if token else "none"},
            {"k": "auth", "cls": "valid"},
            {"k": "chan", "cls": "valid", "name": ["H1"], "port": "PA"},
            {"k": "data", "cls": "valid", "n": 20},
            {"k": "data", "cls": "valid", "n": n2},
            {"k": "keepalive", "cls": "valid"},
            {"k": "close", "cls": "valid"}]


def base_cfg(token):
    if token:
        return {"tokenAuth": True, "smartCard": False, "auth": "openid", "sel": "roundrobin", "hosts": [["H1", ":", "PA"]], "verifyIp": True, "idle": 0}
    return {"tokenAuth": False, "smartCard": False, "auth": "ntlm", "sel": "roundrobin", "hosts": [["H1", ":", "PA"]], "verifyIp": True, "idle": 0}


def gen_framing(tier, seed):
    rng = random.Random(seed)
    out = []

    def add(origin, token, transport, mode, steps, bounds=None, cuts=None, badlen=None):
        out.append({"id": "f%05d" % len(out), "origin": origin, "cfg": base_cfg(token), "transport": transport, "mode": mode,
                    "tun": dict(H_A, user="user1" if token else "nuser1"), "steps": steps, "bounds": bounds, "cuts": cuts or [], "badlen": badlen or []})
    offs1 = [1, 2, 3, 4, 5, 6, 7, 8, 9, 10, 12, -1, -2, -5]
    offs2 = [1, 4, 7, 8, 9, -1]
    combos = [(True, "ws", "msg"), (False, "legacy", "msg"), (False, "ws", "frag"), (True, "legacy", "rawchunk")]
    if tier == "thorough":
        combos = [(tk, tr, md) for tk in (True, False) for (tr, md) in (("ws", "msg"), ("ws", "frag"), ("legacy", "msg"), ("legacy", "rawchunk"))]
    for (tk, tr, md) in combos:
        steps = session(tk)
        n = len(steps)
        allb = list(range(1, n))
        add("uncut", tk, tr, md, steps, allb)
        # one cut in one packet
        for i in range(1, n + 1):
            for o in offs1 if tier == "thorough" else offs1[::2] + [8]:
                add("cut1:p%d@%d" % (i, o), tk, tr, md, steps, allb, [[i, o]])
        # two cuts in one packet
        for i in range(1, n + 1):
            pairs = [(a, b) for a in offs2 for b in offs2 if (a > 0 and b > 0 and a < b) or (a > 0 and b < 0)]
            if tier != "thorough":
                pairs = pairs[::3]
            for a, b in pairs:
                add("cut2:p%d@%d,%d" % (i, a, b), tk, tr, md, steps, allb, [[i, a], [i, b]])
        # coalescing runs of 2..n adjacent packets
        for i in range(1, n):
            for j in range(i + 1, n + 1):
                if tier != "thorough" and (j - i) > 2 and j != n:
                    continue
                b = [x for x in allb if not (i <= x < j)]
                add("coalesce:p%d-p%d" % (i, j), tk, tr, md, steps, b)
        # whole stream in one read, and a large data packet (bigger than one 4096-byte read)
        add("coalesce:all", tk, tr, md, steps, [])
        big = session(tk, n2=6000)
        add("bigdata", tk, tr, md, big, list(range(1, len(big))))
        add("bigdata-cut", tk, tr, md, big, list(range(1, len(big))), [[6, 4000]])
        # several large data packets in one transport message (more than one maximal packet's worth of bytes), and
        # maximal packets one per message
        huge = session(tk)[:4] + [{"k": "data", "cls": "valid", "n": 30000}, {"k": "data", "cls": "valid", "n": 30000}, {"k": "data", "cls": "valid", "n": 30000},
                                  {"k": "data", "cls": "valid", "n": 9}, {"k": "close", "cls": "valid"}]
        add("coalesce:huge", tk, tr, md, huge, [1, 2, 3, 4, 7, 8])
        add("coalesce:huge-all", tk, tr, md, huge, [1, 2, 3, 4])
        maxp = session(tk)[:4] + [{"k": "data", "cls": "valid", "n": 65535}, {"k": "data", "cls": "valid", "n": 65534}, {"k": "data", "cls": "valid", "n": 65535}, {"k": "close", "cls": "valid"}]
        add("maxpackets", tk, tr, md, maxp, list(range(1, len(maxp))))
        add("coalesce:max", tk, tr, md, maxp, [1, 2, 3, 4, 7])
        # ... and the largest packets arriving in several reads (cut inside the header, right behind it, in the middle)
        for cut in ([[5, 4]], [[5, 8]], [[5, 30000]], [[6, 10], [7, -1]], [[5, 4096], [5, 8192], [7, 65000]]):
            add("maxpackets-cut", tk, tr, md, maxp, list(range(1, len(maxp))), cut)
        # random multi-cut splits with chunk boundaries independent of packets
        for r in range(12 if tier == "quick" else 150):
            b = [x for x in allb if rng.random() < 0.5]
            c = [[rng.randrange(1, n + 1), rng.choice([1, 2, 3, 5, 7, 8, 9, 11, 15, -1, -3])] for _ in range(rng.randrange(0, 5))]
            add("random:%d" % r, tk, tr, md, steps, b, c)
        # a segmentation with an empty segment (websocket: an empty binary message before / between / inside packets)
        if tr == "ws" and md == "msg":
            for e in ([0], [1], [3], [n - 1], [0, 2, 4]):
                out.append({"id": "f%05d" % len(out), "origin": "empty:%s" % "-".join(map(str, e)), "cfg": base_cfg(tk), "transport": tr, "mode": md,
                            "tun": dict(H_A, user="user1" if tk else "nuser1"), "steps": steps, "bounds": allb, "cuts": [[2, 5]] if len(e) > 1 else [], "badlen": [], "empties": e})
        # legacy: the chunk carrying the last packet(s) and the chunk that ends the request body in one write
        if tr == "legacy" and md == "msg":
            for b in (allb, allb[:-1], allb[:-2], []):
                out.append({"id": "f%05d" % len(out), "origin": "endwith:%d" % len(b), "cfg": base_cfg(tk), "transport": tr, "mode": md,
                            "tun": dict(H_A, user="user1" if tk else "nuser1"), "steps": steps, "bounds": b, "cuts": [], "badlen": [], "endWith": True})
        # unframeable streams
        for i in (1, 2, 4, 5, n):
            for L in (0, 1, 4, 7):
                add("badlen:p%d=%d" % (i, L), tk, tr, md, steps, allb, [], [[i, L]])
        add("never-completed", tk, tr, md, steps[:5], list(range(1, 5)), [], [[5, 5000]])
    return out


def check_trace(work, cmd, tracespec, scripts, seed, tier, tag, jobs=12):
    sp = work.path("scripts-%s.ndjson" % tag)
    tp = work.path("trace-%s.ndjson" % tag)
    write_ndjson(sp, scripts)
    rep = run_driver(cmd, work, scripts=sp, out=tp, seed=seed, jobs=jobs, tier=tier, tag=tag)
    if rep["done"] != len(scripts):
        raise HarnessError("driver finished %d of %d scripts" % (rep["done"], len(scripts)))
    res = trace_check(tracespec, tracespec + ".cfg", tp, work, tag="tv-" + tag)
    lines = read_ndjson(tp)
    viol = []
    for v in res["viol"]:
        ln = v[0]
        sid = None
        for i in range(ln - 1, -1, -1):
            if lines[i].get("ev") == "reset":
                sid = lines[i].get("script")
                break
        viol.append({"line": ln, "guard": v[1], "a": v[2], "b": v[3], "script": sid, "event": lines[ln - 1]})
    return rep, res, viol, lines


def family(pid, work, tier, seed, cmd, tracespec, scripts, design, sigfn, rule, jobs=12, owns=None, tag=None):
    out = _outcome()
    tag = tag or pid.lower()
    rep, res, viol, lines = check_trace(work, cmd, tracespec, scripts, seed, tier, tag, jobs)
    owns = owns or (lambda v: guard_property(v["guard"]) == pid)
    mine = [v for v in viol if owns(v)]
    byid = {s["id"]: s for s in scripts}
    if mine:
        # re-execute up to three scripts per violation signature; a signature counts only if it shows again
        per = {}
        for v in mine:
            per.setdefault(sigfn(v, byid.get(v["script"])), [])
            if v["script"] not in per[sigfn(v, byid.get(v["script"]))] and len(per[sigfn(v, byid.get(v["script"]))]) < 3:
                per[sigfn(v, byid.get(v["script"]))].append(v["script"])
        sids = sorted({x for l in per.values() for x in l})
        rep2, res2, viol2, _ = check_trace(work, cmd, tracespec, [byid[x] for x in sids], seed, tier, tag + "-confirm", jobs)
        again = {sigfn(v, byid.get(v["script"])) for v in viol2 if owns(v)}
        conf = [v for v in mine if sigfn(v, byid.get(v["script"])) in again]
        if not conf:
            raise HarnessError("%s violations did not reproduce: %s" % (pid, sorted(per)[:5]))
        mine = conf
    seen = set()
    for v in mine:
        s = byid.get(v["script"])
        sig = sigfn(v, s)
        if sig in seen:
            continue
        seen.add(sig)
        out.violations.append({"signature": sig, "what": "%s (script %s, origin %s)" % (v["guard"], v["script"], s and s.get("origin")), "guard": v["guard"], "script": s, "event": v["event"],
                               "replay": "./bin/check %s --replay <this file>" % pid})
    others = sorted({v["guard"] for v in viol if not owns(v)})
    out.coverage = {"states": design.get("distinct", 0), "transitions": design.get("generated", 0), "traces_validated_against_impl": len(scripts),
                    "evaluations": res["lines"], "distinct_nontrivial": len({s.get("origin", "").split(":")[0] + "/" + s.get("transport", "") + "/" + s.get("mode", "") for s in scripts}) + len(res["cover"]),
                    "cells": sorted("/".join(map(str, c)) for c in res["cover"]), "rule": rule, "trace_tlc": res["_tlc"],
                    "guards_of_other_properties_violated_in_these_traces": others,
                    "gateway_faults_on_stderr": (rep.get("faults") or [])[:5],
                    "samples": [{"script": scripts[0], "trace": [l for l in lines[:8]]}], "exhaustive": False}
    out.assumptions = ["hook events tr.read / proc.recv / relay.c2b report the gateway's reads, accepted packets and host writes truthfully",
                       "byte<->chunk abstraction in harness/drv/stream.go", "TLC 1.8 + CommunityModules Json"]
    return out


def origin_class(s):
    o = (s or {}).get("origin", "?")
    head = o.split(":")[0]
    if head == "badlen":
        return "badlen(%s)" % o.split("=")[-1]
    if head in ("cut1", "cut2"):
        return head
    if head == "coalesce":
        return "coalesce"
    return head


def c08(work, tier, seed, replay=None):
    design = design_check("Framing", "MC_Framing.cfg", work, workers=8, timeout=600)
    if replay:
        v = json.load(open(replay))
        scripts = [v["script"]]
    else:
        scripts = gen_framing(tier, seed)
    return family("C08", work, tier, seed, "framing", "FramingTrace", scripts, design,
                  lambda v, s: "%s/%s/%s-%s" % (v["guard"], origin_class(s), (s or {}).get("transport"), (s or {}).get("mode")),
                  "MC_Framing: every stream of <=3 packets x every sequence of read sizes (design). Conformance: an 8-packet session cut at every header-relevant offset of every packet (one and two cuts), "
                  "every coalescing run, whole-stream reads, >4096-byte packets, seeded random multi-cut splits, malformed and never-completed length fields; websocket messages, websocket continuation frames, "
                  "HTTP chunks and chunks split over TCP writes; actual read sizes from the tr.read hook; TLC compares accepted packets, responses and host bytes with the uncut run", jobs=12)


# ------------------------------------------------------------------ C06

SIZES = [0, 1, 2, 100, 4085, 4086, 4087, 4096, 8192, 65535]


def gen_relay(work, tier, seed):
    """Interleavings of client packets and host chunks come from the Relay model's state graph."""
    dot = work.path("relay.dot")
    design = design_check("Relay", "MC_RelayGen.cfg", work, workers=4, timeout=300, extra=["-dump", "dot,actionlabels", dot])
    nodes, roots, edges = parse_dot(dot)
    adj = {}
    for s, d, act, args in edges:
        if act in ("ClientData", "HostData", "ClientClose"):
            adj.setdefault(s, []).append((d, act, args))
    # all environment action sequences (paths over ClientData / HostData edges; relay steps are the gateway's)
    seqs = set()

    def walk(n, path, depth):
        if depth == 0:
            seqs.add(tuple(path))
            return
        nxt = adj.get(n, [])
        if not nxt:
            seqs.add(tuple(path))
            return
        for d, act, args in nxt:
            walk(d, path + [(act, args)], depth - 1)
    for r in roots:
        walk(r, [], 4 if tier == "quick" else 6)
    seqs = sorted(s for s in seqs if s)
    rng = random.Random(seed)
    if tier == "quick" and len(seqs) > 160:
        rng.shuffle(seqs)
        seqs = sorted(seqs[:160])
    scripts = []
    for si, sq in enumerate(seqs):
        for tr in ("ws", "legacy"):
            token = (si % 2 == 0)
            acts = []
            for act, args in sq:
                if act == "ClientData":
                    cls = parse_tla_value(args)
                    c = rng.choice(SIZES[:8] if tr == "legacy" or tier == "quick" else SIZES)
                    if cls == "eq":
                        acts.append({"a": "cs", "decl": c, "carr": c})
                    elif cls == "short":
                        d = max(c, 1) + rng.choice([1, 4, 300])
                        acts.append({"a": "cs", "decl": min(d, 65535), "carr": min(c, 65530)})
                    else:
                        acts.append({"a": "cs", "decl": c, "carr": min(c + rng.choice([1, 2, 50]), 65535)})
                elif act == "ClientClose":
                    # the orderly end: a last data packet and CLOSE_CHANNEL, in one transport write or back to back
                    acts.append({"a": "burstclose", "sizes": [rng.choice([1, 9, 100, 700])], "apart": len(scripts) % 2 == 0})
                    break
                else:
                    acts.append({"a": "bs", "n": rng.choice(SIZES + [12000, 30000] if tier == "quick" else SIZES + [12000, 100000, 1 << 20])})
            steps = session(token)[:4]
            scripts.append({"id": "y%05d" % len(scripts), "origin": "relay:%d" % si, "cfg": base_cfg(token), "transport": tr,
                            "tun": dict(H_A, user="user1" if token else "nuser1"), "steps": steps, "actions": acts})
    # several data packets in one transport write (coalesced): the payloads must arrive concatenated
    for tr in ("ws", "legacy"):
        for k in range(10 if tier == "quick" else 80):
            nb = rng.choice([2, 2, 3, 4, 6])
            sizes = [rng.choice([1, 2, 9, 100, 300, 1000, 4085, 4086] if tr == "ws" else [1, 2, 9, 100, 300, 700]) for _ in range(nb)]
            if k < 2:
                sizes = [[30000, 30000, 30000], [65535, 65535]][k]   # more than one maximal packet's worth in one write
            acts = [{"a": "cs", "decl": 50, "carr": 50}, {"a": "burst", "sizes": sizes}, {"a": "bs", "n": 200}, {"a": "burst", "sizes": sizes[::-1]}, {"a": "cs", "decl": 7, "carr": 7}]
            token = k % 2 == 0
            scripts.append({"id": "y%05d" % len(scripts), "origin": "burst:%d" % nb, "cfg": base_cfg(token), "transport": tr,
                            "tun": dict(H_A, user="user1" if token else "nuser1"), "steps": session(token)[:4], "actions": acts})
    # data packets and the CLOSE_CHANNEL that ends the channel in one transport write (and back to back): everything sent
    # before the close reaches the host
    for tr in ("ws", "legacy"):
        for k in range(6 if tier == "quick" else 40):
            nb = [1, 2, 3, 5, 8, 12][k % 6]
            sizes = [rng.choice([1, 2, 9, 100, 300, 700]) for _ in range(nb)]
            token = k % 2 == 1
            acts = [{"a": "cs", "decl": 50, "carr": 50}, {"a": "bs", "n": 200}, {"a": "burstclose", "sizes": sizes, "apart": k % 3 == 2}]
            scripts.append({"id": "y%05d" % len(scripts), "origin": "burstclose:%d" % nb, "cfg": base_cfg(token), "transport": tr,
                            "tun": dict(H_A, user="user1" if token else "nuser1"), "steps": session(token)[:4], "actions": acts})
    # a crowded gateway: the tunnel's host streams to a client that reads in bursts while six other tunnels relay streams
    # of their own to slow clients
    for k, tr in enumerate(("ws", "legacy") * (1 if tier == "quick" else 4)):
        token = k % 2 == 1
        acts = [{"a": "bs", "n": 300}, {"a": "bcrowd", "n": (3 << 20) if tier == "quick" else (8 << 20), "k": 6}, {"a": "cs", "decl": 9, "carr": 9}, {"a": "bs", "n": 5000}]
        scripts.insert(0, {"id": "y%05d" % len(scripts), "origin": "crowded:%d" % k, "cfg": base_cfg(token), "transport": tr,
                           "tun": dict(H_A, user="user1" if token else "nuser1"), "steps": session(token)[:4], "actions": acts})
    # legacy: a second RDG_OUT_DATA request while the host is sending; the client reads on there
    for k in range(4 if tier == "quick" else 24):
        token = k % 2 == 0
        acts = [{"a": "bs", "n": 300}, {"a": "reout", "n": [1 << 20, 3 << 20][k % 2], "afterms": [1, 3, 8, 20][k % 4], "gated": k % 2 == 0}, {"a": "cs", "decl": 9, "carr": 9}, {"a": "bs", "n": 5000}]
        scripts.append({"id": "y%05d" % len(scripts), "origin": "second-out:%d" % k, "cfg": base_cfg(token), "transport": "legacy",
                        "tun": dict(H_A, user="user1" if token else "nuser1"), "steps": session(token)[:4], "actions": acts})
    # a long burst and then the close while the host is behind in reading
    for k, tr in enumerate(("ws", "legacy")):
        token = k % 2 == 0
        npk = 1024 if tier == "quick" else 2048
        acts = [{"a": "cs", "decl": 50, "carr": 50}, {"a": "burstclose", "sizes": [4096] * npk, "apart": True, "slowhost": True}]
        scripts.insert(0, {"id": "y%05d" % len(scripts), "origin": "burstclose-busyhost", "cfg": base_cfg(token), "transport": tr,
                           "tun": dict(H_A, user="user1" if token else "nuser1"), "steps": session(token)[:4], "actions": acts})
    # size ladder: every size class alone in each direction
    for tr in ("ws", "legacy"):
        for n in SIZES + ([3 << 20] if tier == "thorough" else []):
            steps = session(False)[:4]
            acts = [{"a": "bs", "n": n}]
            if n <= 65535:
                acts = [{"a": "cs", "decl": n, "carr": n}] + acts
            scripts.append({"id": "y%05d" % len(scripts), "origin": "size:%d" % n, "cfg": base_cfg(False), "transport": tr,
                            "tun": dict(H_A, user="nuser1"), "steps": steps, "actions": acts})
    # the client stops reading for several seconds while the host keeps sending, then reads on: the gateway's writes
    # block meanwhile, and what finally arrives is still exactly the host's stream in well-formed packets
    for tr in ("ws", "legacy"):
        for k, ms in enumerate([6500, 12000] if tier == "quick" else [1500, 6500, 12000, 21000]):
            token = k % 2 == 1
            acts = [{"a": "bs", "n": 300}, {"a": "bstall", "n": 24 << 20, "ms": ms}, {"a": "cs", "decl": 9, "carr": 9}, {"a": "bs", "n": 5000}]
            scripts.insert(0, {"id": "y%05d" % len(scripts), "origin": "stall:%d" % ms, "cfg": base_cfg(token), "transport": tr,
                               "tun": dict(H_A, user="user1" if token else "nuser1"), "steps": session(token)[:4], "actions": acts})
    return design, scripts


def stalled_stream_scripts(tier):
    """The packets the gateway sends to a client that stops reading for a while (longer than any plausible write deadline)
    while its host keeps sending, and then reads on: data packets and what follows them."""
    scripts = []
    for tr in ("legacy", "ws"):
        for k, ms in enumerate([12000] if tier == "quick" else [6500, 12000, 21000, 33000]):
            token = (k + (tr == "ws")) % 2 == 1
            acts = [{"a": "bs", "n": 300}, {"a": "bstall", "n": 24 << 20, "ms": ms}, {"a": "cs", "decl": 9, "carr": 9}, {"a": "bs", "n": 5000}, {"a": "bs", "n": 70000}]
            scripts.append({"id": "z%05d" % len(scripts), "origin": "stall:%d" % ms, "cfg": base_cfg(token), "transport": tr,
                            "tun": dict(H_A, user="user1" if token else "nuser1"), "steps": session(token)[:4], "actions": acts})
    return scripts


def c16_stream(work, tier, seed, design):
    def sig(v, s):
        e = v["event"]
        return "%s/b2c.%s/%s" % (v["guard"], e.get("sizecls"), e.get("transport"))
    return family("C16", work, tier, seed, "relay", "RelayTrace", stalled_stream_scripts(tier), design, sig,
                  "data packets sent to a client that stalls while its host streams, and the packets after it", jobs=4, tag="c16-stream")


def c06(work, tier, seed, replay=None):
    liv = design_check("Relay", "MC_Relay.cfg", work, workers=4, timeout=300)
    design, scripts = gen_relay(work, tier, seed)
    if replay:
        scripts = [json.load(open(replay))["script"]]

    def sig(v, s):
        e = v["event"]
        if e.get("ev") == "c2b":
            cls = "closing" if e.get("closing") else ("eq" if e["carr"] == e["decl"] else ("short" if e["carr"] < e["decl"] else "long"))
            return "%s/c2b.%s/%s" % (v["guard"], cls, e.get("transport"))
        return "%s/b2c.%s/%s" % (v["guard"], e.get("sizecls"), e.get("transport"))
    out = family("C06", work, tier, seed, "relay", "RelayTrace", scripts, liv, sig,
                 "Relay.tla: all interleavings of <=3 client data packets (declared =,<,> carried) and <=3 host chunks, prefix/completeness invariants and liveness (design). Conformance: every environment "
                 "action sequence of the model's state graph up to depth 4 (quick) / 6 (thorough) with payload sizes from {0,1,2,100,4085,4086,4087,4096,8192,65535,...} replayed on an open channel of the real "
                 "binary over both transports; host-side bytes and client-side DATA packets compared with the PRNG streams; verdict by TLC (RelayTrace)", jobs=12)
    out.coverage["interleaving_model_states"] = design.get("distinct")
    return out

"""Per-property checks. Each returns a check.Outcome."""
import json, os, random
from vlib import *
import fam_tunnel as ft

NEEDS_RACE = {"C09"}
CHECKS = {}


def check(pid):
    def deco(f):
        CHECKS[pid] = f
        return f
    return deco


def Outcome():
    import check as chk
    return chk.Outcome()


# ---------------------------------------------------------------- tunnel family

def tunnel_family(pid, work, tier, seed, scripts, design, guards=None, what="", extra_cov=None, jobs=12):
    """Run scripts, validate with TunnelTrace, keep the violations of `pid`
    (re-executed once to confirm) and describe the coverage."""
    out = Outcome()
    res = ft.run_scripts(work, scripts, seed, tier, tag=pid.lower(), jobs=jobs)
    mine = [v for v in res["viol"] if guard_property(v["guard"]) == pid and (guards is None or v["guard"] in guards)]
    others = sorted({v["guard"] for v in res["viol"] if guard_property(v["guard"]) != pid})
    confirmed = []
    if mine:
        by_script = {}
        for v in mine:
            by_script.setdefault(v["script"], []).append(v)
        sids = sorted(by_script)[:40]
        again = [s for s in scripts if s["id"] in sids]
        res2 = ft.run_scripts(work, again, seed, tier, tag=pid.lower() + "-confirm", jobs=jobs)
        seen2 = {(v["script"], v["guard"]) for v in res2["viol"]}
        for sid in sids:
            for v in by_script[sid]:
                if (v["script"], v["guard"]) in seen2:
                    confirmed.append(v)
        if not confirmed:
            raise HarnessError("violations of %s did not reproduce on re-execution: %s" % (pid, [(v["script"], v["guard"]) for v in mine[:5]]))
    byid = {s["id"]: s for s in scripts}
    for v in confirmed:
        sig = "%s/%s.%s/%s/%s" % (v["guard"], v["k"], v["cls"], v["phase"], v["transport"])
        out.violations.append({"signature": sig, "what": "%s violated by the gateway's reaction to a %s packet in phase %s over %s" % (v["guard"], v["k"], v["phase"], v["transport"]),
                               "guard": v["guard"], "script": byid.get(v["script"]), "step": v["step"], "event": v["event"],
                               "replay": "./bin/check %s --replay <this file>" % pid})
    cover = res["result"]["cover"]
    ntraces = len(scripts)
    sample = []
    for s in scripts[:2]:
        tl = [e for e in res["lines"]]
        idx = next((i for i, e in enumerate(tl) if e.get("ev") == "reset" and e.get("script") == s["id"]), None)
        if idx is not None:
            j = idx + 1
            while j < len(tl) and tl[j].get("ev") != "reset":
                j += 1
            sample.append({"script": s, "trace": tl[idx:j][:6]})
    out.coverage = {
        "states": design.get("distinct", 0), "transitions": design.get("generated", 0),
        "traces_validated_against_impl": ntraces,
        "evaluations": res["result"]["lines"],
        "distinct_nontrivial": len(cover),
        "rule": "scripts = forceable (state,packet) cover of the TLC state graph of Tunnel + seeded random sequences, each run on the real rdpgw binary; "
                "distinct_nontrivial = distinct (packet kind, phase before, response class) cells of the envelope observed on the implementation",
        "envelope_cells_observed": sorted(["%s@%s->%s" % tuple(c) for c in cover]),
        "trace_events": res["result"]["lines"],
        "trace_tlc": res["result"]["_tlc"],
        "guards_of_other_properties_violated_in_these_traces": others,
        "gateway_faults_on_stderr": res["faults"][:5],
        "samples": sample,
        "exhaustive": False,
    }
    if extra_cov:
        out.coverage.update(extra_cov)
    out.assumptions = ["abstraction bytes<->classes (harness/drv, harness/tsgu) is trusted",
                       "hook events (build tag verif) report the gateway's steps truthfully; cross-checked against client-side bytes",
                       "TLC 1.8 and the CommunityModules Json reader"]
    return out


@check("C01")
def c01(work, tier, seed, replay):
    if replay:
        return replay_tunnel("C01", work, tier, seed, replay)
    design, scripts = ft.gen_graph_scripts(work, seed, tier)
    scripts += ft.gen_random_scripts(seed, 200 if tier == "quick" else 4000)
    return tunnel_family("C01", work, tier, seed, scripts, design)


def replay_tunnel(pid, work, tier, seed, path):
    with open(path) as f:
        v = json.load(f)
    s = v.get("script")
    if not s:
        raise HarnessError("replay file has no script")
    design = design_check("MC_Proto", "MC_Proto.cfg", work, workers=4, timeout=300)
    return tunnel_family(pid, work, tier, seed, [s], design)

SPECIFICATION TSpec
CONSTANTS
  Tunnels <- TTunnels
  Kind <- TKind
INVARIANT AtEnd
POSTCONDITION TraceAccepted
CHECK_DEADLOCK FALSE

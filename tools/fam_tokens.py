"""Token families: C02 (PAA access cookie) and C15 (user token / tokeninfo)."""
import json
from vlib import *
import fam_tunnel as ft


def _outcome():
    import check as chk
    return chk.Outcome()


def api_trace(work, cmd, tier, seed, tag):
    tp = work.path("trace-%s.ndjson" % tag)
    rep = run_driver(cmd, work, out=tp, seed=seed, tier=tier, tag=tag)
    res = trace_check("TokensTrace", "TokensTrace.cfg", tp, work, tag="tok-" + tag)
    lines = read_ndjson(tp)
    viol = [{"line": v[0], "guard": v[1], "ev": v[2], "kind": v[3], "event": lines[v[0] - 1]} for v in res["viol"]]
    return rep, res, viol, lines


def c02(work, tier, seed):
    import props
    out = _outcome()
    design = design_check("MC_Tokens", "MC_Tokens.cfg", work, workers=8, timeout=600)
    proto = design_check("MC_Proto", "MC_Proto.cfg", work, workers=8, timeout=600)
    # (a) every cookie class through real tunnels on both transports
    scripts = ft.gen_cookie_scripts(tier, seed)
    tun = props.tunnel_family("C02", work, tier, seed, scripts, proto, jobs=16)
    # (b) the cookie universe against the exported check, judged by TokensTrace
    rep, res, viol, lines = api_trace(work, "paa", tier, seed, "paa")
    mine = [v for v in viol if guard_property(v["guard"]) == "C02"]
    if mine:
        rep2, res2, viol2, lines2 = api_trace(work, "paa", tier, seed, "paa-confirm")
        again = {(v["guard"], v["kind"]) for v in viol2}
        mine = [v for v in mine if (v["guard"], v["kind"]) in again]
        if not mine:
            raise HarnessError("C02 API-level violations did not reproduce")
    out.violations = list(tun.violations)
    seen = set()
    for v in mine:
        sig = "%s/%s/api" % (v["guard"], v["kind"])
        if sig in seen:
            continue
        seen.add(sig)
        out.violations.append({"signature": sig, "what": "%s violated by security.CheckPAACookie for a cookie of class %s" % (v["guard"], v["kind"]),
                               "guard": v["guard"], "event": v["event"], "replay": "VERIF_SEED=%d ./bin/check C02 --tier %s" % (seed, tier)})
    cells = res["cover"]
    out.coverage = dict(tun.coverage)
    out.coverage.update({
        "states": design["distinct"], "transitions": design["generated"],
        "traces_validated_against_impl": tun.coverage["traces_validated_against_impl"] + 1,
        "evaluations": tun.coverage["evaluations"] + res["lines"],
        "distinct_nontrivial": len(cells) + tun.coverage["distinct_nontrivial"],
        "api_presentations": res["lines"], "api_cells": sorted("%s/%s->%s" % tuple(c) for c in cells),
        "tunnel_model_states": proto["distinct"],
        "rule": "MC_Tokens: mint/tick/revoke/forge/present histories (design). Conformance: (a) every forged-cookie class x selection mode x transport through a real TUNNEL_CREATE on the binary "
                "(TunnelTrace G_C02_CookieIff); (b) reference token + every single-character substitution (quick: 2 alternatives per position, thorough: all 63), bit flips, truncations, "
                "structural mutations, expiry/not-before ladders, IdP conditions and random strings presented to the real security.CheckPAACookie (TokensTrace G_C02_Sound/Complete/Mint*); "
                "distinct_nontrivial = distinct (class, verdict) cells",
        "samples": tun.coverage["samples"][:1] + [lines[0], lines[len(lines) // 2]],
    })
    out.assumptions = tun.assumptions + ["tokens are classified by the harness's own JOSE decoder (harness/forge); time classes stay >= 10 s away from the one-minute leeway boundary"]
    return out


def c15(work, tier, seed):
    out = _outcome()
    design = design_check("MC_UserTok", "MC_UserTok.cfg", work, workers=8, timeout=600)
    rep, res, viol, lines = api_trace(work, "usertok", tier, seed, "usertok")
    mine = [v for v in viol if guard_property(v["guard"]) == "C15"]
    if mine:
        rep2, res2, viol2, lines2 = api_trace(work, "usertok", tier, seed, "usertok-confirm")
        again = {(v["guard"], v["kind"]) for v in viol2}
        mine = [v for v in mine if (v["guard"], v["kind"]) in again]
        if not mine:
            raise HarnessError("C15 violations did not reproduce")
    seen = set()
    for v in mine:
        sig = "%s/%s/%s" % (v["guard"], v["kind"], v["event"].get("vm"))
        if sig in seen:
            continue
        seen.add(sig)
        out.violations.append({"signature": sig, "what": "%s violated for a user token of class %s in mode %s (status %s)" % (v["guard"], v["kind"], v["event"].get("vm"), v["event"].get("status")),
                               "guard": v["guard"], "event": v["event"], "replay": "VERIF_SEED=%d ./bin/check C15 --tier %s" % (seed, tier)})
    # at the place the tokens are issued: connection files of several users downloaded at the same time, with an
    # administrator's template and the login name rendered as name::token - the token in a file is its user's
    import fam_api as fa
    bursts = []
    for ut in ("enc", "signenc"):
        for store in ("cookie", "file"):
            cfg = {"tokenAuth": True, "smartCard": False, "auth": "openid", "sel": "unsigned", "hosts": [["H1", ":", "PA"], ["H1", ":", "PB"], ["H1", ":", "PE"]], "verifyIp": True, "idle": 0,
                   "store": store, "split": False, "rdpDefaults": True, "userTok": ut, "template": "{{ username }}::{{ token }}"}
            bursts.append({"id": "bu%s%s" % (ut, store), "kind": "burst", "cfg": cfg, "session": "authed", "param": "listed", "user": "", "peerIP": "", "xff": "", "replay": False})
            # the running gateway, configured through its file, asked about tokens of both modes made with its keys / another key
            bursts.append({"id": "ux%s%s" % (ut, store), "kind": "usertokx", "cfg": cfg, "session": "authed", "param": "listed", "user": "", "peerIP": "", "xff": "", "replay": False})
    bout, brep, bres = fa.generic("C15", work, tier, seed, "oidc", "OidcTrace", bursts, design, lambda v: "%s/%s/issue" % (v["guard"], v["a"]),
                                  "user tokens in files issued at the same time", owns=lambda v: guard_property(v["guard"]) == "C15", jobs=4, tag="c15-issue")
    out.violations += bout.violations
    cells = res["cover"]
    out.coverage = {
        "issue_bursts": {"scripts": len(bursts), "evaluations": bout.coverage.get("evaluations")},
        "states": design["distinct"], "transitions": design["generated"], "traces_validated_against_impl": 1,
        "evaluations": res["lines"], "distinct_nontrivial": len(cells),
        "cells": sorted("%s/%s->%s" % tuple(c) for c in cells),
        "rule": "MC_UserTok: product of token attributes x verifier mode (design). Conformance: minted tokens for several user names, every single-character mutation of each of the five JWE "
                "segments (quick: sampled positions), forged tokens (other keys/algorithms/issuers, expired, plain JWS, cross-mode) built by the harness's own JWE writer, random strings - each sent to the "
                "real /tokeninfo handler and security.UserInfo; TLC evaluates Tokens!TokenInfoStatus per request; distinct_nontrivial = distinct (mode, class, status) cells",
        "samples": [lines[0], lines[len(lines) // 3], lines[-1]], "trace_tlc": res["_tlc"], "exhaustive": False,
    }
    out.assumptions = ["token classes are assigned by the harness's own JOSE/JWE writer and decoder (harness/forge)", "TLC 1.8 + CommunityModules Json"]
    return out

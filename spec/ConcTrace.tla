------------------------------ MODULE ConcTrace ------------------------------
(* Trace specification for C09: critical-section events of the gateway (hooks    *)
(* inside Tunnel.Write and inside the registry functions, in the gateway's own   *)
(* order) recorded while a driver holds one goroutine inside a section and       *)
(* provokes a second one, plus the race-detector / crash sensor and the frame    *)
(* integrity seen by clients.                                                    *)
EXTENDS Integers, Sequences, FiniteSets, Json, TLC, TLCExt, IOUtils
TTraceFile == IF "TRACE" \in DOMAIN IOEnv THEN IOEnv.TRACE ELSE "trace.ndjson"
TraceLog == ndJsonDeserialize(TTraceFile)
VARIABLES l, viol, cover, inWrite, inReg, cls
tvars == <<l, viol, cover, inWrite, inReg, cls>>
Line == TraceLog[l]
\* inWrite: set of <<tunnel, goroutine>> currently inside Tunnel.Write; inReg: goroutines inside a registry function
OthersWriting(t, g) == {x \in inWrite : x[1] = t /\ x[2] # g}

TInit == l = 1 /\ viol = {} /\ cover = {} /\ inWrite = {} /\ inReg = {} /\ cls = "none"
TReset == /\ Line.ev = "reset" /\ inWrite' = {} /\ inReg' = {} /\ cls' = Line.cls /\ UNCHANGED <<viol, cover>>
TSect ==
  /\ Line.ev = "sect"
  /\ IF Line.kind = "write"
       THEN IF Line.act = "begin"
              THEN /\ viol' = viol \cup (IF OthersWriting(Line.tun, Line.g) # {} THEN {<<l, "G_C09_OneWriterPerClient", cls, Line.g>>} ELSE {})
                   /\ inWrite' = inWrite \cup {<<Line.tun, Line.g>>} /\ UNCHANGED inReg
              ELSE /\ inWrite' = inWrite \ {<<Line.tun, Line.g>>} /\ UNCHANGED <<viol, inReg>>
       ELSE IF Line.act = "begin"
              THEN /\ viol' = viol \cup (IF inReg \ {Line.g} # {} THEN {<<l, "G_C09_RegistrySerialised", cls, Line.pt>>} ELSE {})
                   /\ inReg' = inReg \cup {Line.g} /\ UNCHANGED inWrite
              ELSE /\ inReg' = inReg \ {Line.g} /\ UNCHANGED <<viol, inWrite>>
  /\ cover' = cover \cup {<<cls, Line.kind, Line.act>>}
  /\ UNCHANGED cls
TSensor ==
  /\ Line.ev = "sensor"
  /\ viol' = viol \cup (IF Line.races > 0 THEN {<<l, "G_C09_NoDataRace", cls, Line.where>>} ELSE {})
                  \cup (IF Line.fatals > 0 \/ ~Line.alive THEN {<<l, "G_C09_NoConcurrencyFault", cls, Line.first>>} ELSE {})
  /\ cover' = cover \cup {<<cls, "sensor", IF Line.races > 0 THEN "race" ELSE "clean">>}
  /\ UNCHANGED <<inWrite, inReg, cls>>
TFrames ==
  /\ Line.ev = "frames"
  /\ viol' = viol \cup (IF Line.broken > 0 THEN {<<l, "G_C09_FramesWhole", cls, "soak">>} ELSE {})
  /\ cover' = cover \cup {<<cls, "frames", IF Line.whole > 0 THEN "some" ELSE "none">>}
  /\ UNCHANGED <<inWrite, inReg, cls>>
TNext == l <= Len(TraceLog) /\ (TReset \/ TSect \/ TSensor \/ TFrames) /\ l' = l + 1
TSpec == TInit /\ [][TNext]_tvars
AtEnd == l = Len(TraceLog) + 1 =>
           PrintT(<<"VERIF_RESULT", ToJson([viol |-> viol, cover |-> cover, lines |-> Len(TraceLog)])>>)
TraceAccepted == TLCGet("stats").diameter = Len(TraceLog) + 1
=============================================================================

package drv

import (
	"context"
	"fmt"
	"io"
	"math/rand"
	"net/http"
	"net/http/httptest"
	"net/url"
	"strings"
	"time"

	"github.com/bolkedebruin/rdpgw/cmd/rdpgw/identity"
	"github.com/bolkedebruin/rdpgw/cmd/rdpgw/protocol"
	"github.com/bolkedebruin/rdpgw/cmd/rdpgw/security"
	"github.com/bolkedebruin/rdpgw/cmd/rdpgw/web"
	"github.com/coreos/go-oidc/v3/oidc"
	"golang.org/x/oauth2"

	"verifharness/envx"
	"verifharness/forge"
)

const b64alpha = "ABCDEFGHIJKLMNOPQRSTUVWXYZabcdefghijklmnopqrstuvwxyz0123456789-_"

// paaEnv wires package security the way main.go does, against the fake IdP.
type paaEnv struct {
	idp *envx.IdP
}

func newPaaEnv(idp *envx.IdP) (*paaEnv, error) {
	ctx := context.Background()
	prov, err := oidc.NewProvider(ctx, idp.URL)
	if err != nil {
		return nil, err
	}
	security.OIDCProvider = prov
	security.Oauth2Config = oauth2.Config{ClientID: idp.ClientID, ClientSecret: idp.Secret, Endpoint: prov.Endpoint(), Scopes: []string{oidc.ScopeOpenID}}
	security.SigningKey = []byte(KeyPAASign)
	security.EncryptionKey = []byte(KeyPAAEnc)
	security.VerifyClientIP = true
	return &paaEnv{idp: idp}, nil
}

func (e *paaEnv) ctx(clientIP, at string) (context.Context, *protocol.Tunnel) {
	id := identity.NewUser()
	id.SetAttribute(identity.AttrClientIp, clientIP)
	id.SetAttribute(identity.AttrAccessToken, at)
	t := &protocol.Tunnel{User: identity.NewUser()}
	ctx := context.WithValue(context.Background(), identity.CTXKey, identity.Identity(id))
	ctx = context.WithValue(ctx, protocol.CtxTunnel, t)
	return ctx, t
}

// check presents one cookie string to the real CheckPAACookie.
func (e *paaEnv) check(cookie string) (accepted bool, errs string, t *protocol.Tunnel, panicked string) {
	ctx, t := e.ctx("10.0.0.1", "")
	defer func() {
		if r := recover(); r != nil {
			panicked = fmt.Sprint(r)
		}
	}()
	ok, err := security.CheckPAACookie(ctx, cookie)
	if err != nil {
		errs = err.Error()
	}
	return ok, errs, t, ""
}

// RunPAA presents the cookie universe of C02 to security.CheckPAACookie.
func RunPAA(idp *envx.IdP, tw *TraceWriter, rng *rand.Rand, tier string) (M, error) {
	env, err := newPaaEnv(idp)
	if err != nil {
		return nil, err
	}
	stats := M{}
	n := 0
	emit := func(kind, cookie string, tok M) {
		calls0 := len(idp.Calls())
		ok, errs, t, pan := env.check(cookie)
		calls1 := len(idp.Calls())
		ev := M{"ev": "paa", "kind": kind, "tok": tok, "accepted": ok, "err": trunc(errs, 80), "panic": pan, "len": len(cookie),
			"userinfoCalls": calls1 - calls0, "user": t.User.UserName(), "host": t.TargetServer}
		tw.Line(ev)
		n++
	}
	// ---- mint: a fresh token is accepted and expires within five minutes
	mint := func(sub, host, ip string) (string, string) {
		at := idp.Issue(sub)
		ctx, _ := env.ctx(ip, at)
		tok, err := security.GeneratePAAToken(ctx, sub, host)
		if err != nil {
			return "", at
		}
		return tok, at
	}
	nm := 20
	if tier == "thorough" {
		nm = 200
	}
	for k := 0; k < nm; k++ {
		sub := fmt.Sprintf("user%d", k%7)
		tok, at := mint(sub, fmt.Sprintf("10.1.%d.%d:3389", k%250, k%13), "10.0.0.1")
		claims, ok := forge.PayloadClaims(tok)
		expIn, iss := -1, ""
		if ok {
			if v, ok := claims["exp"].(float64); ok {
				expIn = int(int64(v) - time.Now().Unix())
			}
			iss, _ = claims["iss"].(string)
		}
		okc, _, t, _ := env.check(tok)
		tw.Line(M{"ev": "mint", "expIn": expIn, "iss": iss, "hs256": forge.VerifyHS256(tok, []byte(KeyPAASign)), "acceptedFresh": okc,
			"claimsHost": fmt.Sprint(claims["remoteServer"]) == t.TargetServer, "atValid": idp.State(at) == "valid", "userIsSub": t.User.UserName() == sub})
		n++
	}
	// ---- the same string presented again while the world changes (a verdict is a function of the token, the clock
	// and the IdP - never of what was presented before): cookies that expire / become valid / are revoked between
	// two presentations. Presented now and once more at the end of the run.
	t0 := time.Now()
	type aging struct {
		kind   string
		cookie string
		at     string
		rec    func() M
	}
	var agers []aging
	{
		key := []byte(KeyPAASign)
		n0 := t0.Unix()
		mk := func(kind string, exp, nbf int64, hasNbf bool) {
			at := idp.Issue("user1")
			m := map[string]interface{}{"iss": "rdpgw", "sub": "user1", "remoteServer": "h:1", "clientIp": "10.0.0.1", "accessToken": at, "exp": n0 + exp}
			if hasNbf {
				m["nbf"] = n0 + nbf
			}
			c := forge.JWS("HS256", key, forge.Header("HS256"), forge.Claims(m))
			agers = append(agers, aging{kind, c, at, func() M {
				d := time.Now().Unix() - n0
				return tokRec("compact", "HS256", "gw", "rdpgw", true, int(exp-d), hasNbf, int(nbf-d), idp.State(at), "none")
			}})
		}
		mk("age-expiring", -48, 0, false)      // inside the leeway now, outside it at the end of the run
		mk("age-becoming-valid", 300, 72, true) // not yet valid now (beyond the leeway), valid (within the leeway) at the end
		mk("age-revoked-later", 300, 0, false)
		mk("age-steady", 300, 0, false)
		for _, a := range agers {
			emit(a.kind+":first", a.cookie, a.rec())
			emit(a.kind+":again", a.cookie, a.rec())
		}
		idp.SetToken(agers[2].at, "revoked")
		emit(agers[2].kind+":after-revocation", agers[2].cookie, agers[2].rec())
	}
	// ---- a reference token and its mutations
	sub := "user1"
	ref, refAt := mint(sub, "10.9.8.7:3389", "10.0.0.1")
	_ = refAt
	if ref == "" {
		return nil, fmt.Errorf("cannot mint a reference token")
	}
	base := tokRec("compact", "HS256", "gw", "rdpgw", true, 300, false, 0, "valid", "none")
	mutRec := func(orig, mt string, seg int) M {
		r := M{}
		for k, v := range base {
			r[k] = v
		}
		if forge.SameMeaning(orig, mt) {
			r["mut"] = "neutral"
		} else {
			r["mut"] = []string{"hdr", "payload", "sig"}[seg]
		}
		return r
	}
	emit("reference", ref, base)
	segs := strings.Split(ref, ".")
	offs := []int{0, len(segs[0]) + 1, len(segs[0]) + len(segs[1]) + 2}
	alts := 2
	if tier == "thorough" {
		alts = len(b64alpha)
	}
	for seg := 0; seg < 3; seg++ {
		for pos := 0; pos < len(segs[seg]); pos++ {
			orig := segs[seg][pos]
			// single-character substitutions
			tried := 0
			start := rng.Intn(len(b64alpha))
			for a := 0; a < len(b64alpha) && tried < alts; a++ {
				c := b64alpha[(start+a)%len(b64alpha)]
				if c == orig {
					continue
				}
				tried++
				b := []byte(ref)
				b[offs[seg]+pos] = c
				emit("subst", string(b), mutRec(ref, string(b), seg))
			}
			// single-bit flips
			for bit := 0; bit < 7; bit++ {
				if tier != "thorough" && (pos+bit)%3 != 0 {
					continue
				}
				b := []byte(ref)
				b[offs[seg]+pos] ^= 1 << uint(bit)
				ms := string(b)
				rec := mutRec(ref, ms, seg)
				if _, ok := forge.Split(ms); !ok {
					rec["form"] = "garbage"
				}
				emit("bitflip", ms, rec)
			}
		}
	}
	// structural mutations
	for cut := 1; cut < len(ref); cut += 1 + rng.Intn(7) {
		r := mutRec(ref, ref[:cut], 2)
		r["mut"] = "trunc"
		emit("truncate", ref[:cut], r)
	}
	emit("swap-segments", segs[1]+"."+segs[0]+"."+segs[2], tokRec("garbage", "none", "other", "missing", false, 0, false, 0, "unknown", "hdr"))
	emit("extra-segment", ref+"."+segs[2], tokRec("garbage", "HS256", "gw", "rdpgw", true, 300, false, 0, "valid", "sig"))
	emit("two-segments", segs[0]+"."+segs[1], tokRec("garbage", "HS256", "gw", "rdpgw", true, 300, false, 0, "valid", "sig"))
	emit("empty-signature", segs[0]+"."+segs[1]+".", tokRec("compact", "HS256", "gw", "rdpgw", true, 300, false, 0, "valid", "sig"))
	emit("whitespace", " "+ref, tokRec("garbage", "HS256", "gw", "rdpgw", true, 300, false, 0, "valid", "hdr"))
	emit("empty", "", tokRec("empty", "none", "other", "missing", false, 0, false, 0, "unknown", "none"))
	// ---- forged classes x IdP conditions
	inst := &Inst{IdP: idp}
	claims, _ := forge.PayloadClaims(ref)
	cc := &cookieCtx{claims: claims}
	reps := 3
	if tier == "thorough" {
		reps = 40
	}
	for _, kind := range BadCookieKinds {
		for k := 0; k < reps; k++ {
			s, rec := inst.Forge(kind, cc, rng)
			emit("forged:"+kind, s, rec)
		}
	}
	// expiry / not-before ladders around the leeway (>= 10 s away from the boundary)
	key := []byte(KeyPAASign)
	now := time.Now().Unix()
	for _, d := range []int{-100000, -3600, -600, -90, -75, -45, -30, -1, 0, 30, 299, 300, 3600, 1000000} {
		m := map[string]interface{}{"iss": "rdpgw", "sub": sub, "remoteServer": "h:1", "clientIp": "10.0.0.1", "accessToken": idp.Issue(sub), "exp": now + int64(d)}
		emit("exp-ladder", forge.JWS("HS256", key, forge.Header("HS256"), forge.Claims(m)), tokRec("compact", "HS256", "gw", "rdpgw", true, d, false, 0, "valid", "none"))
		m2 := map[string]interface{}{"iss": "rdpgw", "sub": sub, "remoteServer": "h:1", "clientIp": "10.0.0.1", "accessToken": idp.Issue(sub), "exp": now + 300, "nbf": now - int64(d)}
		emit("nbf-ladder", forge.JWS("HS256", key, forge.Header("HS256"), forge.Claims(m2)), tokRec("compact", "HS256", "gw", "rdpgw", true, 300, true, -d, "valid", "none"))
	}
	{ // no exp claim at all
		m := map[string]interface{}{"iss": "rdpgw", "sub": sub, "remoteServer": "h:1", "clientIp": "10.0.0.1", "accessToken": idp.Issue(sub)}
		emit("no-exp", forge.JWS("HS256", key, forge.Header("HS256"), forge.Claims(m)), tokRec("compact", "HS256", "gw", "rdpgw", false, 0, false, 0, "valid", "none"))
	}
	// IdP unreachable / failing for a perfectly good token
	good, _ := mint(sub, "h:1", "10.0.0.1")
	idp.SetDown(true)
	r := M{}
	for k, v := range base {
		r[k] = v
	}
	r["at"] = "error"
	emit("idp-down", good, r)
	idp.SetDown(false)
	emit("idp-up-again", good, base)
	// ---- random strings
	nr := 300
	if tier == "thorough" {
		nr = 20000
	}
	for k := 0; k < nr; k++ {
		l := rng.Intn(200)
		b := make([]byte, l)
		switch k % 4 {
		case 0:
			rng.Read(b)
		case 1:
			for j := range b {
				b[j] = b64alpha[rng.Intn(len(b64alpha))]
			}
		case 2:
			for j := range b {
				b[j] = (b64alpha + "...")[rng.Intn(len(b64alpha)+3)]
			}
		default:
			for j := range b {
				b[j] = byte(32 + rng.Intn(95))
			}
		}
		rec := tokRec("garbage", "none", "other", "missing", false, 0, false, 0, "unknown", "none")
		if len(b) == 0 {
			rec["form"] = "empty"
		}
		emit("random", string(b), rec)
	}
	// ---- second presentation of the ageing cookies, 24 s after the first
	if d := 24*time.Second - time.Since(t0); d > 0 {
		time.Sleep(d)
	}
	for _, a := range agers {
		emit(a.kind+":later", a.cookie, a.rec())
	}
	stats["presentations"] = n
	return stats, nil
}

func trunc(s string, n int) string {
	if len(s) > n {
		return s[:n]
	}
	return s
}

// ------------------------------------------------------------------ C15

func userRec(form, mode, encKey, sigKey, sigAlg, encAlg, iss string, hasExp bool, exp int, mut string) M {
	return M{"form": form, "mode": mode, "encKey": encKey, "sigKey": sigKey, "sigAlg": sigAlg, "encAlg": encAlg, "iss": iss, "hasExp": hasExp, "exp": exp, "mut": mut}
}

func leaks(tok, user string) bool {
	if len(user) < 3 {
		return false
	}
	if strings.Contains(tok, user) {
		return true
	}
	for _, seg := range strings.Split(tok, ".") {
		b, err := forge.Split(seg)
		if err == false || len(b) == 0 {
			continue
		}
		if strings.Contains(string(b[0]), user) {
			return true
		}
	}
	// base64 encodings of the user name at the three alignments
	for pad := 0; pad < 3; pad++ {
		e := forge.B64(append(make([]byte, pad), []byte(user)...))
		core := e[(pad*4+2)/3 : len(e)-2]
		if len(core) >= 4 && strings.Contains(tok, core) {
			return true
		}
	}
	return false
}

// RunUserTok exercises security.GenerateUserToken / UserInfo and the real
// /tokeninfo handler in both key modes.
func RunUserTok(tw *TraceWriter, rng *rand.Rand, tier string) (M, error) {
	n := 0
	srv := httptest.NewServer(http.HandlerFunc(web.TokenInfo))
	defer srv.Close()
	setMode := func(vm string) {
		security.UserEncryptionKey = []byte(KeyUserEnc)
		if vm == "signenc" {
			security.UserSigningKey = []byte(KeyUserSign)
		} else {
			security.UserSigningKey = nil
		}
	}
	query := func(method string, hasParam bool, tok string) (int, string) {
		u := srv.URL + "/tokeninfo"
		if hasParam {
			u += "?access_token=" + url.QueryEscape(tok)
		}
		req, _ := http.NewRequest(method, u, nil)
		resp, err := http.DefaultClient.Do(req)
		if err != nil {
			return -1, err.Error()
		}
		defer resp.Body.Close()
		b, _ := io.ReadAll(io.LimitReader(resp.Body, 1<<16))
		return resp.StatusCode, string(b)
	}
	emit := func(vm, kind, method string, hasParam bool, tok string, rec M, user string) {
		setMode(vm)
		st, body := query(method, hasParam, tok)
		var apiOK bool
		var apiSub string
		func() {
			defer func() { recover() }()
			c, err := security.UserInfo(context.Background(), tok)
			apiOK = err == nil
			apiSub = c.Subject
		}()
		discloses := user != "" && strings.Contains(body, `"sub":"`+user+`"`)
		tw.Line(M{"ev": "usertok", "vm": vm, "kind": kind, "method": method, "hasParam": hasParam, "tok": rec, "status": st,
			"apiOK": apiOK, "subjectIsUser": apiSub == user && user != "", "bodyHasSubject": discloses,
			// a refusal discloses nothing of the token's content: neither claims as JSON nor the user name in any wording
			"bodyHasClaims": strings.Contains(body, `"iss"`) || strings.Contains(body, `"sub"`) || (st != 200 && user != "" && strings.Contains(body, user)),
			"leak": leaks(tok, user), "len": len(tok)})
		n++
	}
	users := []string{"alice", "bob@example.com", "Ünï-cødé-user", "a-rather-long-user-name-0123456789-0123456789", "carol"}
	if tier == "thorough" {
		for k := 0; k < 40; k++ {
			users = append(users, fmt.Sprintf("user-%d-%x", k, rng.Int63()))
		}
	}
	now := func() int64 { return time.Now().Unix() }
	// ---- the same token presented again after it has expired (inside the leeway now, outside it at the end of the
	// run): the verdict depends on the token and the clock, never on an earlier presentation
	t0 := time.Now()
	type ager struct {
		vm, tok string
		rec     func() M
	}
	var agers []ager
	for _, vm := range []string{"enc", "signenc"} {
		cl := map[string]interface{}{"sub": "ageing-user", "iss": "rdpgw", "exp": t0.Unix() - 48}
		payload := forge.Claims(cl)
		sk, sa := "none", "none"
		if vm == "signenc" {
			payload = []byte(forge.JWS("HS256", []byte(KeyUserSign), `{"alg":"HS256"}`, payload))
			sk, sa = "gw", "HS256"
		}
		t := forge.JWEDir([]byte(KeyUserEnc), forge.HdrJWE, payload, true)
		vmc, skc, sac := vm, sk, sa
		a := ager{vm, t, func() M {
			return userRec("jwe", vmc, "gw", skc, sac, "dir+A128CBC-HS256", "rdpgw", true, int(t0.Unix()-48-time.Now().Unix()), "none")
		}}
		agers = append(agers, a)
		emit(vm, "age-expiring:first", "GET", true, t, a.rec(), "ageing-user")
		emit(vm, "age-expiring:again", "GET", true, t, a.rec(), "ageing-user")
	}
	defer func() {
		if d := 24*time.Second - time.Since(t0); d > 0 {
			time.Sleep(d)
		}
		for _, a := range agers {
			emit(a.vm, "age-expiring:later", "GET", true, a.tok, a.rec(), "ageing-user")
		}
	}()
	for _, vm := range []string{"enc", "signenc"} {
		other := map[string]string{"enc": "signenc", "signenc": "enc"}[vm]
		for ui, user := range users {
			setMode(vm)
			tok, err := security.GenerateUserToken(context.Background(), user)
			if err != nil {
				return nil, fmt.Errorf("GenerateUserToken: %w", err)
			}
			sigKey, sigAlg := "none", "none"
			if vm == "signenc" {
				sigKey, sigAlg = "gw", "HS256"
			}
			good := userRec("jwe", vm, "gw", sigKey, sigAlg, "dir+A128CBC-HS256", "rdpgw", true, 300, "none")
			emit(vm, "minted", "GET", true, tok, good, user)
			emit(other, "minted-other-mode", "GET", true, tok, good, user)
			emit(vm, "post", "POST", true, tok, good, user)
			emit(vm, "put", "PUT", true, tok, good, user)
			emit(vm, "head-like-delete", "DELETE", true, tok, good, user)
			if ui > 1 && tier != "thorough" {
				continue
			}
			// single-character mutations of each of the five segments
			segs := strings.Split(tok, ".")
			off := 0
			for si, sg := range segs {
				step := 1
				if tier != "thorough" && len(sg) > 60 {
					step = len(sg) / 40
				}
				for pos := 0; pos < len(sg); pos += step {
					alts := 1
					if tier == "thorough" {
						alts = 4
					}
					for a := 0; a < alts; a++ {
						c := b64alpha[rng.Intn(len(b64alpha))]
						if c == sg[pos] {
							continue
						}
						b := []byte(tok)
						b[off+pos] = c
						ms := string(b)
						rec := userRec("jwe", vm, "gw", sigKey, sigAlg, "dir+A128CBC-HS256", "rdpgw", true, 300, fmt.Sprintf("seg%d", si+1))
						if forge.SameMeaning(tok, ms) {
							rec["mut"] = "neutral"
						}
						emit(vm, fmt.Sprintf("subst-seg%d", si+1), "GET", true, ms, rec, user)
					}
				}
				off += len(sg) + 1
			}
			// the empty second segment filled in
			// with direct key agreement the encrypted-key segment carries nothing and is not
			// covered by the authentication tag: content there does not change the token's meaning
			emit(vm, "fill-empty-seg2", "GET", true, segs[0]+".QUJD."+strings.Join(segs[2:], "."), userRec("jwe", vm, "gw", sigKey, sigAlg, "dir+A128CBC-HS256", "rdpgw", true, 300, "neutral"), user)
			for cut := 1; cut < len(tok); cut += 5 + rng.Intn(30) {
				emit(vm, "truncate", "GET", true, tok[:cut], userRec("garbage", vm, "gw", sigKey, sigAlg, "dir+A128CBC-HS256", "rdpgw", true, 300, "trunc"), user)
			}
		}
		// forged tokens under this verifier mode
		user := "mallory"
		mk := func(kind string, encKey, sigKey []byte, sigAlg, iss string, exp int64, hasExp bool, signed bool, deflate bool) (string, M) {
			cl := map[string]interface{}{"sub": user}
			if iss != "" {
				cl["iss"] = iss
			}
			if hasExp {
				cl["exp"] = now() + exp
			}
			payload := forge.Claims(cl)
			mode := "enc"
			hdr := forge.HdrJWE
			if !deflate {
				hdr = `{"alg":"dir","cty":"JWT","enc":"A128CBC-HS256"}`
			}
			if strings.HasSuffix(kind, "-nocty") {
				// the content-type header is advisory: what is inside (a signed token or bare claims) decides
				hdr = strings.Replace(hdr, `"cty":"JWT",`, "", 1)
			}
			if signed {
				mode = "signenc"
				payload = []byte(forge.JWS(sigAlg, sigKey, `{"alg":"`+sigAlg+`"}`, payload))
			}
			t := forge.JWEDir(encKey, hdr, payload, deflate)
			ek, sk := "other", "none"
			if string(encKey) == KeyUserEnc {
				ek = "gw"
			}
			if signed {
				sk = "other"
				if string(sigKey) == KeyUserSign {
					sk = "gw"
				}
			}
			issc := map[string]string{"rdpgw": "rdpgw", "": "missing"}[iss]
			if issc == "" {
				issc = "other"
			}
			sa := "none"
			if signed {
				sa = sigAlg
			}
			return t, userRec("jwe", mode, ek, sk, sa, "dir+A128CBC-HS256", issc, hasExp, int(exp), "none")
		}
		ge, gs := []byte(KeyUserEnc), []byte(KeyUserSign)
		oe, os_ := []byte("other-enc-key-other-enc-key-0000"), []byte("other-sig-key-other-sig-key-0000")
		type fc struct {
			kind            string
			ek, sk          []byte
			alg, iss        string
			exp             int64
			hasExp, sig, df bool
		}
		cases := []fc{
			{"forged-good-enc", ge, nil, "", "rdpgw", 300, true, false, true},
			{"forged-good-signenc", ge, gs, "HS256", "rdpgw", 300, true, true, true},
			{"forged-nodeflate", ge, gs, "HS256", "rdpgw", 300, true, true, false},
			{"forged-good-enc-nocty", ge, nil, "", "rdpgw", 300, true, false, true},
			{"forged-good-enc-nodeflate-nocty", ge, nil, "", "rdpgw", 300, true, false, false},
			{"forged-good-signenc-nocty", ge, gs, "HS256", "rdpgw", 300, true, true, true},
			{"expired", ge, gs, "HS256", "rdpgw", -600, true, true, true},
			{"expired-enc", ge, nil, "", "rdpgw", -600, true, false, true},
			{"expired-in-leeway", ge, gs, "HS256", "rdpgw", -30, true, true, true},
			{"other-enc-key", oe, gs, "HS256", "rdpgw", 300, true, true, true},
			{"other-enc-key-enc", oe, nil, "", "rdpgw", 300, true, false, true},
			{"other-sig-key", ge, os_, "HS256", "rdpgw", 300, true, true, true},
			{"sig-hs512", ge, gs, "HS512", "rdpgw", 300, true, true, true},
			{"sig-hs384", ge, gs, "HS384", "rdpgw", 300, true, true, true},
			{"sig-none", ge, nil, "none", "rdpgw", 300, true, true, true},
			{"other-issuer", ge, gs, "HS256", "rdpgw2", 300, true, true, true},
			{"other-issuer-enc", ge, nil, "", "evil", 300, true, false, true},
			{"no-issuer", ge, gs, "HS256", "", 300, true, true, true},
		}
		reps := 2
		if tier == "thorough" {
			reps = 10
		}
		for _, c := range cases {
			for k := 0; k < reps; k++ {
				t, rec := mk(c.kind, c.ek, c.sk, c.alg, c.iss, c.exp, c.hasExp, c.sig, c.df)
				if c.kind == "forged-good-signenc-nocty" {
					rec["mut"] = "neutral" // a nested token that does not announce itself as one: a verifier may insist on the header
				}
				emit(vm, c.kind, "GET", true, t, rec, user)
			}
		}
		// plain signed JWT, garbage, empty / missing parameter
		plain := forge.JWS("HS256", gs, forge.Header("HS256"), forge.Claims(map[string]interface{}{"sub": user, "iss": "rdpgw", "exp": now() + 300}))
		emit(vm, "plain-jws", "GET", true, plain, userRec("jws", vm, "none", "gw", "HS256", "none", "rdpgw", true, 300, "none"), user)
		emit(vm, "empty-param", "GET", true, "", userRec("empty", vm, "none", "none", "none", "none", "missing", false, 0, "none"), user)
		emit(vm, "missing-param", "GET", false, "", userRec("empty", vm, "none", "none", "none", "none", "missing", false, 0, "none"), user)
		nr := 100
		if tier == "thorough" {
			nr = 5000
		}
		for k := 0; k < nr; k++ {
			b := make([]byte, 1+rng.Intn(300))
			for j := range b {
				b[j] = (b64alpha + "....")[rng.Intn(len(b64alpha)+4)]
			}
			emit(vm, "random", "GET", true, string(b), userRec("garbage", vm, "none", "none", "none", "none", "missing", false, 0, "none"), user)
		}
	}
	return M{"usertok_presentations": n}, nil
}

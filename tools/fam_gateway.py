"""Gateway-level families: C11 teardown, C07 isolation, C09 concurrency, C10 hostile input."""
import json, random
from vlib import *
import fam_api as fa
import fam_stream as fs

POINTS = ["accepted", "hs", "created", "authorized", "channel", "opened"]


def c11(work, tier, seed):
    d1 = design_check("Teardown", "MC_Teardown_ws.cfg", work, workers=4, timeout=300)
    d2 = design_check("Teardown", "MC_Teardown_legacy.cfg", work, workers=4, timeout=300)
    scripts = []
    for tr in ("ws", "legacy"):
        causes = ["close-channel", "protocol-error", "unframeable", "unframeable-huge"] + (["fin:ws", "rst:ws"] if tr == "ws" else ["fin:in", "rst:in", "fin:out", "rst:out"])
        for pi, point in enumerate(POINTS):
            for cause in causes:
                infl = ["none", "c2b", "b2c", "both"] if point in ("channel", "opened") else ["none"]
                for fl in infl:
                    toks = (True, False) if tier == "thorough" else ((len(scripts) % 2 == 0),)
                    for token in toks:
                        steps = fs.session(token)[:4] + [{"k": "data", "cls": "valid", "n": 10}]
                        scripts.append({"id": "d%05d" % len(scripts), "origin": "%s/%s/%s" % (point, cause, fl), "cfg": fs.base_cfg(token), "transport": tr,
                                        "tun": dict(fs.H_A, user="user1" if token else "nuser1"), "steps": steps, "point": point, "cause": cause, "inflight": fl})
    # the client does not read while the host keeps sending (the relay is blocked in its write, holding the writer lock)
    # and then ends its side without closing the connection the gateway writes on
    for tr in ("ws", "legacy"):
        wr = "ws" if tr == "ws" else "in"
        for cause in ["close-channel", "protocol-error", "unframeable", "shut:" + wr, "fin:" + wr, "rst:" + wr]:
            for token in ((True, False) if tier == "thorough" else (len(scripts) % 2 == 0,)):
                steps = fs.session(token)[:4] + [{"k": "data", "cls": "valid", "n": 10}]
                scripts.append({"id": "d%05d" % len(scripts), "origin": "opened/%s/stalled" % cause, "cfg": fs.base_cfg(token), "transport": tr,
                                "tun": dict(fs.H_A, user="user1" if token else "nuser1"), "steps": steps, "point": "opened", "cause": cause, "inflight": "stalled"})
    # the client keeps sending data packets (one every 200 ms) after the packet that ended its side
    for tr in ("ws", "legacy"):
        for point in ("authorized", "opened"):
            for cause in ("protocol-error", "close-channel", "unframeable"):
                token = len(scripts) % 2 == 0
                steps = fs.session(token)[:4] + [{"k": "data", "cls": "valid", "n": 10}]
                scripts.append({"id": "d%05d" % len(scripts), "origin": "%s/%s/keeps-sending" % (point, cause), "cfg": fs.base_cfg(token), "transport": tr,
                                "tun": dict(fs.H_A, user="user1" if token else "nuser1"), "steps": steps, "point": point, "cause": cause, "inflight": "keeps-sending"})
    # the gateway reached over TLS (closing a connection then means sending an alert first, which fails on a connection
    # the client has reset): every way of ending at two points of the exchange
    for tr in ("ws", "legacy"):
        causes = ["close-channel", "protocol-error"] + (["fin:ws", "rst:ws"] if tr == "ws" else ["fin:in", "rst:in", "fin:out", "rst:out"])
        for point in ("hs", "opened"):
            for cause in causes:
                for fl in (["none", "b2c"] if point == "opened" else ["none"]):
                    if tier == "quick" and fl == "b2c" and not cause.startswith("rst"):
                        continue
                    token = len(scripts) % 2 == 0
                    steps = fs.session(token)[:4] + [{"k": "data", "cls": "valid", "n": 10}]
                    scripts.append({"id": "d%05d" % len(scripts), "origin": "%s/%s/%s/tls" % (point, cause, fl), "cfg": dict(fs.base_cfg(token), tls=True), "transport": tr,
                                    "tun": dict(fs.H_A, user="user1" if token else "nuser1"), "steps": steps, "point": point, "cause": cause, "inflight": fl})
    # legacy: the client has sent a second RDG_OUT_DATA request under the same connection identifier before the tunnel ends
    for point in ("hs", "opened"):
        for cause in ("close-channel", "protocol-error", "fin:in", "rst:in"):
            for token in ((True, False) if tier == "thorough" else (len(scripts) % 2 == 0,)):
                steps = fs.session(token)[:4] + [{"k": "data", "cls": "valid", "n": 10}]
                scripts.append({"id": "d%05d" % len(scripts), "origin": "%s/%s/reout" % (point, cause), "cfg": fs.base_cfg(token), "transport": "legacy",
                                "tun": dict(fs.H_A, user="user1" if token else "nuser1"), "steps": steps, "point": point, "cause": cause, "inflight": "reout"})
    # legacy: the IN request was accepted but the client has not sent its first bytes yet
    for cause in ("fin:in", "rst:in", "fin:out", "rst:out"):
        for token in ((True, False) if tier == "thorough" else (len(scripts) % 2 == 0,)):
            scripts.append({"id": "d%05d" % len(scripts), "origin": "pre/%s" % cause, "cfg": fs.base_cfg(token), "transport": "legacy",
                            "tun": dict(fs.H_A, user="user1" if token else "nuser1"), "steps": fs.session(token)[:4], "point": "pre", "cause": cause, "inflight": "none"})
    design = {"distinct": d1["distinct"] + d2["distinct"], "generated": d1["generated"] + d2["generated"]}
    out, rep, res = fa.generic("C11", work, tier, seed, "teardown", "TeardownTrace", scripts, design,
                               lambda v: "%s/%s/%s" % (v["guard"], v["a"], v["b"]),
                               "Teardown.tla: resources of one tunnel, every ending cause, release steps; safety invariants and the liveness property 'ending ~> everything released' under weak fairness, for both transports "
                               "(design). Conformance on the real binary: every point of the exchange (before handshake .. data flowing) x every way of ending (CLOSE_CHANNEL, out-of-order packet, unframeable bytes, TCP close or reset of the "
                               "websocket / legacy IN / legacy OUT connection) x data in flight (none, client->host, host->client, both) on both transports; observed within 3 s: EOF at the loopback host, EOF on every client "
                               "connection, proc.exit / relay.exit / unreg hooks, goroutine census of the protocol package, rdpgw_*_connections gauges", jobs=32)
    return out


# ------------------------------------------------------------------ C09

def conflict_kinds(work):
    """Pairs of critical sections that the model without locks lets overlap (from its state graph)."""
    dot = work.path("gw-nolock.dot")
    r = tlc("Gateway", "MC_Gateway_nolockgen.cfg", work, workers=4, timeout=300, extra=["-dump", "dot", dot])
    nodes, roots, edges = parse_dot(dot)
    kinds = set()
    for n, lab in nodes.items():
        v = state_vars(lab)
        rb = parse_tla_value(v["regBusy"])
        if len(rb) >= 2:
            pcs = parse_tla_value(v["pc"].replace(":>", "|->").replace("@@", ",").replace("(", "[").replace(")", "]")) if False else None
            kinds.add("reg")
        wr = v["writing"]
        if wr.count("<<") >= 2 and ("loop" in wr and "relay" in wr):
            kinds.add("write")
    return r, sorted(kinds)


def c09(work, tier, seed):
    design = design_check("Gateway", "MC_Gateway.cfg", work, workers=8, timeout=600)
    gen, kinds = conflict_kinds(work)
    if set(kinds) != {"reg", "write"}:
        raise HarnessError("the lock-free Gateway model no longer exhibits both conflict kinds: %s" % kinds)
    scripts = []
    reps = 2 if tier == "quick" else 12
    for rep in range(reps):
        for tr in ("ws", "legacy"):
            for token in (True, False):
                base = {"cfg": fs.base_cfg(token), "transport": tr, "tun": dict(fs.H_A, user="user1" if token else "nuser1"), "steps": fs.session(token)}
                for var in ("relay-first-close", "relay-first-error", "loop-first"):
                    scripts.append(dict(base, id="w%04d" % len(scripts), kind="wmutex", variant=var, origin="model:write/loop-relay"))
                for var in ("reg-reg", "unreg-reg", "unreg-unreg"):
                    scripts.append(dict(base, id="r%04d" % len(scripts), kind="regmutex", variant=var, origin="model:registry"))
    nsoak = 4 if tier == "quick" else 24
    for k in range(nsoak):
        token = k % 2 == 0
        cfgk = dict(fs.base_cfg(token), idle=[0, -1, 30, -5][k % 4] - (k // 4 if k % 2 else 0), noHooks=(k % 4 != 0))
        scripts.append({"id": "k%04d" % len(scripts), "kind": "soak", "variant": "n%d" % ([8, 16, 32, 64][k % 4]), "n": [8, 16, 32, 64][k % 4], "rounds": 10 if tier == "quick" else 40,
                        "cfg": cfgk, "transport": "ws", "tun": dict(fs.H_A, user="user1" if token else "nuser1"), "steps": fs.session(token), "origin": "soak"})
    out, rep, res = fa.generic("C09", work, tier, seed, "conc", "ConcTrace", scripts, design,
                               lambda v: "%s/%s/%s" % (v["guard"], v["a"].split(".")[0], v["b"] if v["guard"] in ("G_C09_NoDataRace",) else v["a"]),
                               "Gateway.tla: handler / loop / relay goroutines of 2 tunnels with the registry and per-client writer as shared resources; mutual-exclusion and frame invariants hold with the locks and "
                               "fail without them (design + necessity). Conformance on the race-detector build of the real binary: for each conflict pair the lock-free model exhibits (loop vs relay in Tunnel.Write; register / "
                               "unregister pairs) a gated schedule holds one goroutine inside the section (hook gate) and provokes the other - TLC checks the recorded section events for overlap; plus concurrent soaks of 8..64 tunnels "
                               "(both transports; data both ways, keep-alives, close / protocol error / reset while the host is sending); data-race reports and fatal errors on stderr are sensor events, frames seen by clients must be whole",
                               jobs=6, gwbin="rdpgw-race")
    return out


# ------------------------------------------------------------------ C10

def hostile_catalogue(work):
    dot = work.path("hostile.dot")
    r = design_check("Hostile", "MC_Hostile.cfg", work, workers=4, timeout=300, extra=["-dump", "dot", dot])
    nodes, roots, edges = parse_dot(dot)
    pairs = set()
    for n, lab in nodes.items():
        last = parse_tla_value(state_vars(lab)["last"])
        if last["ep"] != "none":
            pairs.add((last["ep"], last["cls"]))
    return r, sorted(pairs)


def c10(work, tier, seed):
    design, pairs = hostile_catalogue(work)
    rng = random.Random(seed)
    scripts = []

    def cfg(auth, tls=False, buffers=False):
        token = auth == "openid"
        c = {"tokenAuth": token, "smartCard": False, "auth": auth, "sel": "roundrobin", "hosts": [["H1", ":", "PA"]], "verifyIp": True, "idle": 0, "tls": tls}
        if auth == "kerberos":
            c["auths"] = ["kerberos"]
        if buffers:
            c["sendBuf"], c["recvBuf"] = 65536, 65536
        return c

    def add(ep, cls, c, transport="ws", phase="init"):
        token = c["auth"] == "openid"
        user = "user1" if token else ("7" if c["auth"] == "local" else "nuser1")
        scripts.append({"id": "x%05d" % len(scripts), "origin": "%s/%s" % (ep, cls), "ep": ep, "cls": cls, "phase": phase, "cfg": c, "transport": transport,
                        "tun": dict(fs.H_A, user=user), "steps": fs.session(token)})
    phases = ["init", "hs", "created", "authorized", "channel"]
    for ep, cls in pairs:
        if ep == "tunnel":
            combos = [("openid", False, False), ("ntlm", False, True), ("local", True, False), ("local", True, True)]
            for ci, (a, tls, buf) in enumerate(combos):
                for tr in ("ws", "legacy"):
                    phs = phases if tier == "thorough" else [phases[(stable_hash(cls + a + tr) + ci) % 5], "init"]
                    if cls.startswith("data-"):
                        phs = list(phs) + ["channel"]   # payload classes matter where payload is relayed
                    if cls.endswith("-flood"):
                        phs = list(phs) + ["streaming"]   # many packets matter where the other direction is busy too
                    for ph in sorted(set(phs)):
                        add(ep, cls, cfg(a, tls, buf), tr, ph)
                    # the same input from a client that has stopped reading while its host keeps sending
                    if not tls and (tier == "thorough" or (stable_hash(cls + tr) + ci) % 3 == 0):
                        add(ep, cls, cfg(a, tls, buf), tr, "stalled")
        elif ep == "legacy-order":
            for a in ("openid", "ntlm"):
                add(ep, cls, cfg(a), "legacy")
        elif ep == "authorization":
            if cls == "basic-authservice-away":
                add(ep, cls, dict(cfg("local", tls=True), authAway=True))
                add(ep, cls, dict(cfg("ntlm"), authAway=True))
                continue
            add(ep, cls, cfg("ntlm"))
            add(ep, cls, cfg("local", tls=True))
            add(ep, cls, cfg("kerberos"))
        elif ep == "header":
            for a, tls in (("openid", False), ("local", True), ("ntlm", False)):
                add(ep, cls, cfg(a, tls=tls))
        elif ep == "ntlm-message":
            for rep in range(1 if tier == "quick" else 5):
                add(ep, cls, cfg("ntlm"))
        elif ep == "kdcproxy":
            add(ep, cls, cfg("kerberos"))
        elif ep == "web":
            add(ep, cls, cfg("openid"))
            add(ep, cls, cfg("openid", buffers=True))
    out, rep, res = fa.generic("C10", work, tier, seed, "hostile", "HostileTrace", scripts, design,
                               lambda v: "%s/%s/%s" % (v["guard"], v["a"], v["b"]),
                               "Hostile.tla: catalogue of hostile input classes per entry point; the specification has no action that panics or stops a process (design). Conformance on the real binaries (gateway with TLS on/off, "
                               "socket buffers unset/set, openid / ntlm / local / kerberos; real rdpgw-auth): every class of the catalogue (packet headers with length 0..7, huge, truncated; unknown and response types; truncated and "
                               "over-long inner lengths; odd UTF-16; text / empty websocket messages; every ordering of the legacy IN/OUT requests; Authorization strings; NTLM messages relayed to the auth service; KDC-proxy bodies; web "
                               "endpoints) in several phases and on both transports; after each input: hook/stderr panic sensor, process liveness of gateway and auth service, a probe request on a new connection, handler exit after close",
                               owns=lambda v: guard_property(v["guard"]) == "C10", jobs=12)
    out.coverage["catalogue_size"] = len(pairs)
    return out


# ------------------------------------------------------------------ C07

def interleavings(work, cfgname, limit, rng):
    dot = work.path(cfgname + ".dot")
    r = design_check("Interleave", cfgname + ".cfg", work, workers=4, timeout=300, extra=["-dump", "dot,actionlabels", dot])
    nodes, roots, edges = parse_dot(dot)
    adj = {}
    for s, d, act, args in edges:
        adj.setdefault(s, []).append((d, int(args)))
    # number of maximal paths from each node (DAG), then uniform sampling without enumerating them all
    import functools, sys
    sys.setrecursionlimit(10000)

    @functools.lru_cache(maxsize=None)
    def count(n):
        nx = adj.get(n, [])
        return 1 if not nx else sum(count(d) for d, _ in nx)
    total = count(roots[0])
    picks = sorted(rng.sample(range(total), min(limit, total))) if total > limit else list(range(total))
    out = []
    for k in picks:
        n, path = roots[0], []
        while adj.get(n):
            for d, t in sorted(adj[n], key=lambda x: x[1]):
                c = count(d)
                if k < c:
                    path.append(t)
                    n = d
                    break
                k -= c
        out.append(path)
    return r, out, total


def tunnel_steps(k, token, variant, name="H1"):
    caps = 2 if token else 0
    port = ["PA", "PB", "PE"][k % 3]
    other = ["PA", "PB", "PE"][(k + 1) % 3]
    steps = [{"k": "hs", "cls": "valid", "caps": caps, "major": 1 + k, "minor": k},
             {"k": "create", "cls": "valid", "cookie": "good" if token else "none"},
             {"k": "auth", "cls": "valid"},
             {"k": "chan", "cls": "valid", "name": [name], "port": port},
             {"k": "data", "cls": "valid", "n": 20 + k},
             {"k": "hostsend", "n": 100 + 10 * k},
             {"k": "data", "cls": "valid", "n": 300 + k}]
    if variant == "cross-host":
        steps[3] = {"k": "chan", "cls": "valid", "name": [name], "port": other}   # another tunnel's host: this tunnel's token does not cover it
    elif variant == "bad-cookie" and token:
        steps[1] = {"k": "create", "cls": "valid", "cookie": "bad"}
    elif variant == "out-of-order":
        steps[2], steps[3] = steps[3], steps[2]
    return steps


def c07(work, tier, seed):
    design = design_check("Gateway", "MC_Gateway.cfg", work, workers=8, timeout=600)
    proto = design_check("MC_Proto", "MC_Proto.cfg", work, workers=8, timeout=600)
    rng = random.Random(seed)
    r2, il2, tot2 = interleavings(work, "MC_Interleave2", 120 if tier == "quick" else 1500, rng)
    r3, il3, tot3 = interleavings(work, "MC_Interleave3", 40 if tier == "quick" else 600, rng)
    scripts = []
    hosts = hosts_ip = [["H1", ":", "PA"], ["H1", ":", "PB"], ["H1", ":", "PE"]]

    def mk(schedule, ntun, idx, big=False, contend=None, samelogin=False, byname=False, overlap=False):
        token = idx % 3 != 2 or samelogin
        hosts = hosts_ip if not byname else [["HL", ":", "PA"], ["HL", ":", "PB"], ["HL", ":", "PE"]]
        cfg = {"tokenAuth": token, "smartCard": False, "auth": "openid" if token else "ntlm", "sel": "unsigned" if token else "roundrobin", "hosts": hosts, "verifyIp": True, "idle": 0}
        tunnels = []
        for k in range(ntun):
            variant = ["ok", "ok", "cross-host", "ok", "bad-cookie", "out-of-order"][(idx + k * 5) % 6] if not big else "ok"
            if samelogin and k < 2:
                variant = "ok"
            user = ("user%d" % (k + 1)) if token else ["nuser1", "nuser2"][k % 2]
            tun = {"user": user, "hostName": ["HL"] if byname else ["H1"], "hostPort": ["PA", "PB", "PE"][k % 3], "entry": hosts[k % 3],
                   "mintXFF": "10.0.0.%d" % (k + 1), "useXFF": "10.0.0.%d" % (k + 1)}
            if samelogin and k < 2:
                # the first two tunnels present files that one logged-in session downloaded for two different hosts
                tun = dict(tun, user="user1", loginGroup="g%d" % idx, mintXFF="10.0.0.1", useXFF="10.0.0.1")
            tunnels.append({"transport": ["ws", "legacy"][(idx + k) % 2], "tun": tun, "steps": tunnel_steps(k, token, variant, "HL" if byname else "H1")})
        sc = {"id": "m%05d" % len(scripts), "origin": "interleave:%d" % ntun, "cfg": cfg, "tunnels": tunnels, "schedule": schedule}
        if overlap:
            sc["overlap"] = True
            sc["origin"] = "overlap:%d" % ntun
        if contend:
            sc["contend"] = contend
            sc["origin"] = "contend:%d" % ntun
        scripts.append(sc)
    for i, p in enumerate(il2):
        mk(p, 2, i)
    for i, p in enumerate(il3):
        mk(p, 3, i)
    # tunnels of different users under a host list with the user placeholder: each user's own substituted entry is
    # allowed on his tunnel and the other user's is not, in whatever order the tunnels get there
    for i, p in enumerate(il2[:6] + il3[:6] if tier == "quick" else il2[:40] + il3[:40]):
        ntun = 2 + (max(p) == 2)
        cfg = {"tokenAuth": False, "smartCard": False, "auth": "ntlm", "users": "ntlm", "sel": ["roundrobin", "unsigned"][i % 2], "hosts": [["H127", "PH", ":", "PA"]], "verifyIp": True, "idle": 0}
        tunnels = []
        for k in range(ntun):
            user = ["7", "8", "7"][k]
            asks = user if (i + k) % 3 else {"7": "8", "8": "7"}[user]      # mostly the own entry, sometimes the other user's
            steps = [{"k": "hs", "cls": "valid", "caps": 0, "major": 1, "minor": k}, {"k": "create", "cls": "valid", "cookie": "none"}, {"k": "auth", "cls": "valid"},
                     {"k": "chan", "cls": "valid", "name": ["H127", asks], "port": "PA"}, {"k": "keepalive", "cls": "valid"}, {"k": "keepalive", "cls": "valid"}, {"k": "keepalive", "cls": "valid"}]
            tunnels.append({"transport": ["ws", "legacy"][(i + k) % 2], "tun": {"user": user, "hostName": ["H127", user], "hostPort": "PA", "entry": ["H127", "PH", ":", "PA"]}, "steps": steps})
        scripts.append({"id": "m%05d" % len(scripts), "origin": "placeholder:%d" % ntun, "cfg": cfg, "tunnels": tunnels, "schedule": p})
    # two tunnels that present connection files which ONE logged-in session downloaded for two different hosts (plus a
    # third tunnel of somebody else): each is bound to the host of its own token
    for i, p in enumerate(il2[:8] + il3[:8] if tier == "quick" else il2[:60] + il3[:60]):
        mk(p, 2 + (max(p) == 2), 1000 + i, samelogin=True)
    # the hosts are named (one DNS name, three ports = three different hosts) instead of given by address: every
    # tunnel still gets to the endpoint it asked for
    for i, p in enumerate(il2[:6] + il3[:6] if tier == "quick" else il2[:40] + il3[:40]):
        mk(p, 2 + (max(p) == 2), 3 * i + (i % 2), byname=True)
    # overlapped steps: the answer to one tunnel's request is held between being built and being put on the transport
    # while another tunnel's next request is handled completely (every interleaving of 2 and 3 tunnels from the model,
    # distinct version bytes, some tunnels misbehaving): each tunnel still gets the answer to its own request
    for i, p in enumerate(il2[:30] + il3[:10] if tier == "quick" else il2[:300] + il3[:150]):
        mk(p, 2 + (max(p) == 2), 5 * i + 1, overlap=True)
    # many tunnels at once, seeded random schedules
    for i in range(6 if tier == "quick" else 40):
        n = [8, 16, 32, 64][i % 4] if tier == "thorough" else [8, 16][i % 2]
        sched = [t for t in range(n) for _ in range(7)]
        rng.shuffle(sched)
        mk(sched, n, i, big=True)

    # traffic of all tunnels at the same time, some clients reading slowly (the gateway's writes to them block while the
    # other tunnels are busy): every client must receive exactly its own host's stream and every host its own client's
    for i in range(4 if tier == "quick" else 24):
        n = [6, 9, 12, 16][i % 4]
        sched = [t for t in range(n) for _ in range(7)]
        rng.shuffle(sched)
        mk(sched, n, i, big=True, contend={"slow": 1 + i % 2, "kib": 6144 if tier == "quick" else 12288})

    # pairing of legacy connections by identifier, for several identifier forms (a driver run of its own that does
    # not depend on the hook channel: it is judged even if the tunnels above cannot be driven at all)
    pairing = []
    for i in range(2 if tier == "quick" else 10):
        token = i % 2 == 0
        cfg = {"tokenAuth": token, "smartCard": False, "auth": "openid" if token else "ntlm", "sel": "roundrobin", "hosts": hosts[:1], "verifyIp": True, "idle": 0}
        pairing.append({"id": "p%05d" % i, "origin": "pairing", "cfg": cfg, "tunnels": [], "schedule": [], "pairing": True})

    def owns(v):
        return True   # in a multi-tunnel run every guard is evaluated with the tunnel's own parameters: any failure is interference
    pout, prep, pres = fa.generic("C07", work, tier, seed, "multi", "TunnelTrace", pairing, design,
                                  lambda v: "%s/%s/%s" % (v["guard"], v["a"], v["b"]), "pairing of legacy connections by identifier", owns=owns, jobs=4, tag="c07-pairing")
    try:
        out, rep, res = c07_main(work, tier, seed, scripts, design, owns)
    except HarnessError as e:
        if pout.violations:
            pout.coverage["tunnel_runs_failed"] = str(e)[:800]
            return pout
        raise
    # tunnels of different users set up AT THE SAME TIME (the authentication backend takes its time over one of them while
    # the other's request is handled): each tunnel acts for its own user
    users = []
    for n in range(3 if tier == "quick" else 12):
        for tr in ("ws", "legacy"):
            cfgu = {"tokenAuth": False, "smartCard": False, "auths": ["local"], "auth": "", "sel": "roundrobin", "hosts": [["H1", ":", "PA"]], "verifyIp": True, "idle": 0, "tls": True}
            users.append({"id": "u%03d%s" % (n, tr), "cfg": cfgu, "kind": "tunuser", "transport": tr, "scheme": "local-slow", "interf": [{"method": "GET", "authz": "absent"}], "method": "", "authz": ""})
    uout, urep, ures = fa.generic("C07", work, tier, seed, "front", "FrontTrace", users, design,
                                  lambda v: "%s/%s/%s/concurrent-users" % (v["guard"], v["a"], v["b"]), "concurrent set-up of tunnels of different users",
                                  owns=lambda v: v["guard"] == "G_C05_TunnelUserIsTheConfirmedOne", jobs=6, tag="c07-users")
    out.violations += uout.violations
    # an identifier that is used AGAIN after its tunnel has ended - by the same user and by another one, authenticated at
    # the endpoint (no token), over either transport, on one gateway: the new tunnel is a new tunnel (its own user, its own
    # substituted entry allowed, the previous user's refused)
    import fam_tunnel as ft
    reuse = []
    for gi, tr in enumerate(["ws", "legacy", "ws"] if tier == "quick" else ["ws", "legacy"] * 6):
        cfgr = {"tokenAuth": False, "smartCard": False, "auth": "ntlm", "users": "ntlm", "sel": ["roundrobin", "unsigned"][gi % 2], "hosts": [["H127", "PH", ":", "PA"]], "verifyIp": True, "idle": 0}
        cid = "{7a1c7a52-0000-4000-8000-%012d}" % gi
        for n, (user, asks) in enumerate([("7", "7"), ("8", "8"), ("8", "7"), ("7", "8"), ("7", "7")]):
            steps = [{"k": "hs", "cls": "valid", "caps": 0, "major": 1, "minor": n}, {"k": "create", "cls": "valid", "cookie": "none"}, {"k": "auth", "cls": "valid"},
                     {"k": "chan", "cls": "valid", "name": ["H127", asks], "port": "PA"}, {"k": "data", "cls": "valid", "n": 8}]
            reuse.append({"id": "ri%02d-%d" % (gi, n), "origin": "reused-identifier", "cfg": cfgr, "transport": tr, "grp": "reuse-%d" % gi,
                          "tun": {"user": user, "hostName": ["H127", user], "hostPort": "PA", "entry": ["H127", "PH", ":", "PA"], "cid": cid}, "steps": steps})
    r1 = ft.run_scripts(work, reuse, seed, tier, tag="c07-reuse", jobs=4)
    if r1["viol"]:
        r2 = ft.run_scripts(work, reuse, seed, tier, tag="c07-reuse-confirm", jobs=4)
        again = {(v["guard"], v["script"]) for v in r2["viol"]}
        conf = [v for v in r1["viol"] if (v["guard"], v["script"]) in again]
        if not conf:
            raise HarnessError("C07 (reused identifier) violations did not reproduce: %s" % sorted({v["guard"] for v in r1["viol"]})[:5])
        seen_sig = set()
        for v in conf:
            sig = "%s/%s.%s/%s/%s/reused-identifier" % (v["guard"], v["k"], v["cls"], v["phase"], v["transport"])
            if sig in seen_sig:
                continue
            seen_sig.add(sig)
            out.violations.append({"signature": sig, "what": "%s violated on a tunnel whose connection identifier an earlier, ended tunnel had used (%s packet, phase %s, %s)" % (v["guard"], v["k"], v["phase"], v["transport"]),
                                   "guard": v["guard"], "script": v["script"], "event": v["event"], "replay": "VERIF_SEED=%d ./bin/check C07 --tier %s" % (seed, tier)})
    out.coverage["reused_identifier"] = {"scripts": len(reuse), "evaluations": r1["result"].get("lines")}
    out.coverage["concurrent_users"] = {"scripts": len(users), "evaluations": uout.coverage.get("evaluations")}
    out.violations += pout.violations
    out.coverage["pairing"] = {"cells": [c for c in pout.coverage.get("cells", []) if "pair-" in c], "evaluations": pout.coverage.get("evaluations")}
    out.coverage["interleavings_2_tunnels"] = {"total": tot2, "run": len(il2)}
    out.coverage["interleavings_3_tunnels"] = {"total": tot3, "run": len(il3)}
    out.coverage["tunnel_model_states"] = proto.get("distinct")
    return out


def overlap_run(pid, work, tier, seed, design):
    """Answers under overlap (multi driver, Overlap scripts): the guards of pid evaluated on tunnels whose answers were
    held between being built and being written while another tunnel's request was handled."""
    rng = random.Random(seed + 77)
    r2, il2, tot2 = interleavings(work, "MC_Interleave2", 24 if tier == "quick" else 300, rng)
    r3, il3, tot3 = interleavings(work, "MC_Interleave3", 8 if tier == "quick" else 150, rng)
    hosts = [["H1", ":", "PA"], ["H1", ":", "PB"], ["H1", ":", "PE"]]
    scripts = []
    for idx, p in enumerate(il2 + il3):
        ntun = 2 + (max(p) == 2)
        token = idx % 3 != 2
        cfg = {"tokenAuth": token, "smartCard": idx % 4 == 1, "auth": "openid" if token else "ntlm", "sel": "unsigned" if token else "roundrobin", "hosts": hosts, "verifyIp": True,
               "idle": [0, 30, 1200][idx % 3]}
        tunnels = []
        for k in range(ntun):
            variant = ["ok", "ok", "cross-host", "ok", "bad-cookie", "out-of-order"][(idx + k * 5) % 6]
            user = ("user%d" % (k + 1)) if token else ["nuser1", "nuser2"][k % 2]
            tun = {"user": user, "hostName": ["H1"], "hostPort": ["PA", "PB", "PE"][k % 3], "entry": hosts[k % 3], "mintXFF": "10.0.0.%d" % (k + 1), "useXFF": "10.0.0.%d" % (k + 1)}
            steps = tunnel_steps(k, token, variant)
            steps[0] = dict(steps[0], major=1 + 7 * k + idx % 5, minor=3 * k + 1, caps=(2 if token else 0) | (1 if cfg["smartCard"] and k % 2 else 0))
            if not token and cfg["smartCard"]:
                steps[0]["caps"] = 1
            if variant == "ok" and k == ntun - 1:
                steps = steps + [{"k": "close", "cls": "valid"}]
            tunnels.append({"transport": ["ws", "legacy"][(idx + k) % 2], "tun": tun, "steps": steps})
        sched = list(p) + [t for t in range(ntun) for _ in range(2)]
        scripts.append({"id": "v%05d" % len(scripts), "origin": "overlap:%d" % ntun, "cfg": cfg, "tunnels": tunnels, "schedule": sched, "overlap": True})
    out, rep, res = fa.generic(pid, work, tier, seed, "multi", "TunnelTrace", scripts, design,
                               lambda v: "%s/%s/%s/overlap" % (v["guard"], v["a"], v["b"]),
                               "answers under overlap", owns=lambda v: guard_property(v["guard"]) == pid, jobs=12, tag=pid.lower() + "-overlap")
    return out, len(scripts)


def c07_main(work, tier, seed, scripts, design, owns):
    return fa.generic("C07", work, tier, seed, "multi", "TunnelTrace", scripts, design,
                               lambda v: "%s/%s/%s" % (v["guard"], v["a"], v["b"]),
                               "Gateway.tla: isolation invariants (client/host get only their own tunnel's data, pairing by connection id) model-checked. Conformance: interleavings of the steps of 2 and 3 tunnels enumerated by TLC "
                               "(Interleave.tla; quick: uniform sample, thorough: more) and seeded random schedules of 8..64 tunnels, mixed transports, distinct users / tokens / hosts / client addresses, some tunnels misbehaving "
                               "(another tunnel's host, bad cookie, out-of-order) - executed step by step on one real gateway; each tunnel's steps are validated by TLC (TunnelTrace) with that tunnel's own parameters, and after every "
                               "payload the other tunnels' hosts and clients are checked for leaked bytes; all tunnels moving distinct streams at the same time with slow clients; "
                               "pairing of legacy connections under identifiers of several forms", owns=owns, jobs=12)

SPECIFICATION Spec
CONSTANTS
  LockedSteps = {} Transport = "legacy" ClosesReplaced = TRUE
INVARIANTS NothingBeforeTheEnd GaugeNeverNegative
PROPERTIES EndingReleasesEverything ReleasedIsStable
CHECK_DEADLOCK FALSE

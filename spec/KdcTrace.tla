------------------------------ MODULE KdcTrace ------------------------------
(* Trace specification for C20: requests sent to the real KDC proxy handler     *)
(* with fake KDCs behind it.                                                    *)
EXTENDS KdcProxy, Json, TLCExt, IOUtils
TTraceFile == IF "TRACE" \in DOMAIN IOEnv THEN IOEnv.TRACE ELSE "trace.ndjson"
TraceLog == ndJsonDeserialize(TTraceFile)
VARIABLES l, viol, cover
tvars == <<req, foreign, beh, got, answered, clock, resp, l, viol, cover>>
Line == TraceLog[l]
Range(s) == {s[i] : i \in 1..Len(s)}
Bound == 7500   \* ms: the proxy's 5 s KDC timeout plus slack

\* e: [method, len, body, realm, kdcs: <<[tcp, udp]...>>, status (-1 = no HTTP response), ms, replyOK, sentOK, anySent, panicked]
Replies(e) == Framed(e.sizecls) /\ \E i \in 1..Len(e.kdcs) : e.kdcs[i].tcp \in {"reply-close", "reply-keepopen"} \/ e.kdcs[i].udp = "reply"
Bad(e) ==
  LET want == Validate(e.method, e.len, e.body)
      known == e.realm \in {"default", "configured"} IN
  (IF e.status = -1 \/ e.ms > Bound THEN {"G_C20_AlwaysAnswers"} ELSE {})
  \cup (IF want # 0 /\ e.status # -1 /\ e.status # want THEN {"G_C20_RejectStatus"} ELSE {})
  \cup (IF want # 0 /\ e.anySent THEN {"G_C20_RejectedUntouched"} ELSE {})
  \cup (IF ~e.sentOK THEN {"G_C20_OnlyTheMessageIsSent"} ELSE {})
  \* whatever the proxy served before: nothing of this request goes to the KDC of another realm
  \cup (IF e.sentForeign THEN {"G_C20_OnlyToTheRealmsKdcs"} ELSE {})
  \cup (IF e.status = 200 /\ ~e.replyOK THEN {"G_C20_ReplyIsTheKdcReply"} ELSE {})
  \cup (IF want = 0 /\ known /\ Replies(e) /\ e.status # -1 /\ e.status # 200 THEN {"G_C20_ReachableKdcAnswered"} ELSE {})
  \cup (IF want = 0 /\ (~known \/ ~Replies(e)) /\ e.status = 200 THEN {"G_C20_NoReplyNoSuccess"} ELSE {})
  \cup (IF e.panicked THEN {"G_C10_NoPanic"} ELSE {})
TInit == /\ l = 1 /\ viol = {} /\ cover = {}
         /\ req = [method |-> "POST", len |-> "ok", body |-> "valid", realm |-> "default", size |-> "s1400", after |-> "nothing"] /\ foreign = "nothing"
         /\ beh = [k \in KDCs |-> "reply"] /\ got = [k \in KDCs |-> "nothing"] /\ answered = <<>> /\ clock = 0 /\ resp = NoResp
TNext == /\ l <= Len(TraceLog)
         /\ viol' = viol \cup {<<l, g, Line.cls, Line.target>> : g \in Bad(Line)}
         /\ cover' = cover \cup {<<Line.cls, Line.target, Line.status>>, <<"size", Line.sizecls, Line.status>>, <<"after", Line.after, Line.status>>}
         /\ l' = l + 1 /\ UNCHANGED <<req, foreign, beh, got, answered, clock, resp>>
TSpec == TInit /\ [][TNext]_tvars
AtEnd == l = Len(TraceLog) + 1 =>
           PrintT(<<"VERIF_RESULT", ToJson([viol |-> viol, cover |-> cover, lines |-> Len(TraceLog)])>>)
TraceAccepted == TLCGet("stats").diameter = Len(TraceLog) + 1
=============================================================================

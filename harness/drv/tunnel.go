package drv

import (
	"strings"
	"fmt"
	"time"

	"verifharness/gw"
	"verifharness/tsgu"
	"verifharness/wsraw"
)

// TunConn is a client-side tunnel over either transport.
type TunConn struct {
	I         *Inst
	Cid       string
	Transport string
	WS        *wsraw.WS
	In        *wsraw.LegacyIn
	Out       *wsraw.LegacyOut
	Exited    bool
	Broken    bool // the server stream could not be framed any more: the client hung up
	In2       *wsraw.LegacyIn // a second RDG_IN_DATA connection the gateway accepted for the same identifier (DupIn)
	exitIdx   int
	OpenMark  int
}

type OpenOpts struct {
	Transport string // ws | legacy
	LocalIP   string
	XFF       string
	NTLM      *wsraw.NTLMCreds
	Basic     string // "user:pass" for local auth
	Headers   [][2]string
	Cid       string // connection identifier to present ("" = a fresh unique one)
	// legacy only: the RDG_OUT_DATA request comes from another client address than the RDG_IN_DATA request (the one the
	// packets - and with them the access cookie - arrive on)
	OutElsewhere bool
	OutLocalIP   string
	OutXFF       string
	// legacy only: a second RDG_IN_DATA request under the same identifier is sent before the first one has sent its
	// first bytes (it is kept in TunConn.In2 when the gateway accepted it)
	DupIn bool
}

func (i *Inst) dialOpts(o OpenOpts, cid string) wsraw.DialOpts {
	d := wsraw.DialOpts{Addr: i.AddrFor(o.LocalIP), LocalIP: o.LocalIP, TLS: i.P.TLS, ConnID: cid, NTLM: o.NTLM}
	if o.XFF != "" {
		// a newline separates header LINES (each proxy adds its own line): the list is the lines taken together
		for _, line := range strings.Split(o.XFF, "\n") {
			d.Headers = append(d.Headers, [2]string{"X-Forwarded-For", line})
		}
	}
	if o.Basic != "" {
		d.Headers = append(d.Headers, [2]string{"Authorization", "Basic " + b64std(o.Basic)})
	}
	d.Headers = append(d.Headers, o.Headers...)
	return d
}

// Open establishes a tunnel and waits until the gateway's packet loop is
// about to read (hook events), so that subsequent sends are in lock-step.
func (i *Inst) Open(o OpenOpts) (*TunConn, *wsraw.HTTPReply, error) {
	cid := i.R.NextCid("t")
	if o.Cid != "" {
		cid = o.Cid
	}
	t := &TunConn{I: i, Cid: cid, Transport: o.Transport, OpenMark: i.P.Mark()}
	d := i.dialOpts(o, cid)
	switch o.Transport {
	case "ws", "":
		t.Transport = "ws"
		ws, rep, err := wsraw.DialWS(d)
		if err != nil || ws == nil {
			return nil, rep, err
		}
		t.WS = ws
		if i.Cfg.NoHooks {
			return t, rep, nil
		}
		if idx, _ := i.P.Wait(t.OpenMark, 10*time.Second, func(e gw.Event) bool { return e.Cid == cid && e.Pt == "tr.reading" }); idx < 0 {
			ws.Close()
			return nil, rep, fmt.Errorf("no tr.reading hook event for %s", cid)
		}
		return t, rep, nil
	case "legacy":
		dout := d
		if o.OutElsewhere {
			oo := o
			oo.LocalIP, oo.XFF = o.OutLocalIP, o.OutXFF
			dout = i.dialOpts(oo, cid)
		}
		out, rep, err := wsraw.DialLegacyOut(dout)
		if err != nil || out == nil {
			return nil, rep, err
		}
		t.Out = out
		if i.Cfg.NoHooks {
			time.Sleep(20 * time.Millisecond) // let the OUT side be published
			in, rep2, err := wsraw.DialLegacyIn(d)
			if err != nil || in == nil {
				out.Close()
				return nil, rep2, err
			}
			t.In = in
			in.WriteChunk(make([]byte, 100))
			time.Sleep(10 * time.Millisecond)
			return t, rep2, nil
		}
		if idx, _ := i.P.Wait(t.OpenMark, 10*time.Second, func(e gw.Event) bool { return e.Cid == cid && e.Pt == "legacy.out.published" }); idx < 0 {
			out.Close()
			return nil, rep, fmt.Errorf("no legacy.out.published hook event for %s", cid)
		}
		in, rep2, err := wsraw.DialLegacyIn(d)
		if err != nil || in == nil {
			out.Close()
			return nil, rep2, err
		}
		t.In = in
		if o.DupIn {
			d2 := d
			d2.Timeout = 1500 * time.Millisecond
			if in2, _, e2 := wsraw.DialLegacyIn(d2); e2 == nil && in2 != nil {
				t.In2 = in2
			}
		}
		// the gateway discards the first bytes it reads on the IN channel
		pad := make([]byte, 100)
		if err := in.WriteChunk(pad); err != nil {
			t.Close()
			return nil, rep2, err
		}
		if idx, _ := i.P.Wait(t.OpenMark, 10*time.Second, func(e gw.Event) bool { return e.Cid == cid && e.Pt == "tr.reading" }); idx < 0 {
			t.Close()
			return nil, rep2, fmt.Errorf("no tr.reading hook event for legacy %s", cid)
		}
		return t, rep2, nil
	}
	return nil, nil, fmt.Errorf("unknown transport %q", o.Transport)
}

func (t *TunConn) Close() {
	if t.WS != nil {
		t.WS.Close()
	}
	if t.In != nil {
		t.In.Close()
	}
	if t.In2 != nil {
		t.In2.Close()
	}
	if t.Out != nil {
		t.Out.Close()
	}
}

// SendRaw sends one packet as one websocket message / one HTTP chunk.
func (t *TunConn) SendRaw(p []byte) error {
	if t.WS != nil {
		return t.WS.WriteBinary(p)
	}
	return t.In.WriteChunk(p)
}

// Recv reads one packet from the gateway.
func (t *TunConn) Recv(timeout time.Duration) ([]byte, error) {
	if t.WS != nil {
		_, p, err := t.WS.ReadMessage(timeout)
		return p, err
	}
	return t.Out.ReadPacket(timeout)
}

// Reaction is what the gateway did with one client packet.
type Reaction struct {
	Resps    []tsgu.Decoded
	Dials    []string
	Conn     bool
	NFwd     int
	FwdBytes int
	End      bool
	Skipped  bool // tunnel had already ended: nothing was observed to happen
	Stuck    bool // the gateway did not take the packet up within the time limit
	Events   []gw.Event
}

// Step sends one packet and waits until the gateway's loop has handled it.
func (t *TunConn) Step(pkt []byte) (Reaction, error) {
	var r Reaction
	p := t.I.P
	if t.Broken {
		r.End, r.Skipped = true, true
		return r, nil
	}
	if t.Exited {
		// the packet loop is gone; whatever is sent now cannot be handled. Send
		// anyway (errors are expected) - CheckSilence verifies nothing happened.
		t.SendRaw(pkt)
		r.End, r.Skipped = true, true
		return r, nil
	}
	mark := p.Mark()
	if err := t.SendRaw(pkt); err != nil {
		return r, fmt.Errorf("send: %w", err)
	}
	idx, ev := p.Wait(mark, 15*time.Second, func(e gw.Event) bool {
		return e.Cid == t.Cid && (e.Pt == "proc.step" || e.Pt == "proc.exit")
	})
	if idx < 0 {
		if !p.Alive() {
			return r, fmt.Errorf("gateway did not finish handling the packet (no proc.step/proc.exit for %s); alive=false", t.Cid)
		}
		// the gateway is alive and sits on a packet the client has sent completely, without handling it: that is what it
		// did with this packet (nothing) - an observation; the client gives up on the connection
		r.Stuck, r.End, t.Broken = true, true, true
		for _, e := range p.Since(mark) {
			if e.Cid == t.Cid {
				r.Events = append(r.Events, e)
			}
		}
		t.Close()
		return r, nil
	}
	evs := p.Since(mark)
	evs = evs[:idx-mark+1]
	nresp := 0
	for _, e := range evs {
		if e.Cid != t.Cid {
			continue
		}
		r.Events = append(r.Events, e)
		switch e.Pt {
		case "tun.write.end":
			if e.Role == "loop" {
				nresp++
			}
		case "proc.dial":
			r.Dials = append(r.Dials, e.Str(0))
		case "proc.dialed":
			r.Conn = e.Bool(1)
		case "relay.c2b":
			r.NFwd++
			r.FwdBytes += e.Int(0)
		}
	}
	if ev.Pt == "proc.exit" {
		r.End = true
		t.Exited = true
		t.exitIdx = idx
	}
	for k := 0; k < nresp; k++ {
		b, err := t.recvNonData(10 * time.Second)
		if err != nil && p.Alive() {
			// the gateway says it wrote an answer, and what arrived cannot be cut into a packet by its length field (or
			// ends before the length it announces, or does not arrive at all): that is an observation about the gateway's
			// answer (not well-formed), and nothing after it on this connection can be read
			d := tsgu.Decode(b)
			d.WellForm, d.Why = false, err.Error()
			d.HdrLen, d.WireLen = -2, len(b)
			r.Resps = append(r.Resps, d)
			// the client gives up on this connection: it closes it, and what follows in the script is not sent
			r.End, t.Broken = true, true
			t.Close()
			break
		}
		if err != nil {
			return r, fmt.Errorf("hooks report %d response(s) written but the client could not read #%d: %v", nresp, k+1, err)
		}
		r.Resps = append(r.Resps, tsgu.Decode(b))
	}
	return r, nil
}

// recvNonData reads the next packet that is not relay DATA (DATA written by the
// relay goroutine may interleave with responses once a channel is open).
func (t *TunConn) recvNonData(timeout time.Duration) ([]byte, error) {
	for {
		b, err := t.Recv(timeout)
		if err != nil {
			return b, err
		}
		if len(b) >= 2 && int(b[0])|int(b[1])<<8 == tsgu.PktData {
			continue
		}
		return b, nil
	}
}

// AfterEnd reports hook activity of this tunnel's packet loop after it exited
// (there must be none).
func (t *TunConn) AfterEnd() []gw.Event {
	if !t.Exited || t.Broken {
		return nil
	}
	t.I.P.Sync(t.Cid)
	var out []gw.Event
	for _, e := range t.I.P.Since(t.exitIdx + 1) {
		if e.Cid != t.Cid {
			continue
		}
		if e.Role == "loop" && (e.Pt == "proc.recv" || e.Pt == "proc.dial" || e.Pt == "tun.write.begin" || e.Pt == "relay.c2b") {
			out = append(out, e)
		}
	}
	return out
}

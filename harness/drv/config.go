package drv

import (
	"crypto/tls"
	"sort"
	"fmt"
	"net/http"
	"net/url"
	"os"
	"path/filepath"
	"strings"
	"time"

	"github.com/bolkedebruin/gokrb5/v8/keytab"

	"net"

	"verifharness/envx"
	"verifharness/forge"
	"verifharness/gw"
	"verifharness/tsgu"
)

// CfgScript is one start-up scenario (kind "start") or one cross-instance
// key scenario (kind "cross").
type CfgScript struct {
	ID     string   `json:"id"`
	Kind   string   `json:"kind"`
	Src    string   `json:"src"` // file | env | both
	Auth   []string `json:"auth"`
	TlsOff bool     `json:"tlsDisabled"`
	Token  bool     `json:"tokenAuth"`
	Sel    string   `json:"sel"` // roundrobin | signed | unsigned | any | other (a word that is no mode)
	QKey   bool     `json:"queryKey"`
	Keytab bool     `json:"keytab"`
	NHosts int      `json:"nhosts"`
	Spell  string   `json:"spell"` // canon | mixed | upper | alias: how keyword values are written
	// cross
	Key string `json:"key"` // paasign | sess | sessenc | userenc
	Len int    `json:"len"`
	// Store: session store of both gateways (cookie | file; "" = cookie)
	Store string `json:"store,omitempty"`
}

// KerberosFiles writes a keytab and a krb5.conf usable by the gateway.
func (r *Runner) KerberosFiles(kdcs []string) (kt string, conf string, err error) {
	return r.KerberosFilesRealms(kdcs, nil)
}

// KerberosFilesRealms: like KerberosFiles, with a second configured realm OTHER.TEST (KDCs other) when other is not nil.
func (r *Runner) KerberosFilesRealms(kdcs, other []string) (kt string, conf string, err error) {
	k := keytab.New()
	if err = k.AddEntry("HTTP/gw.example.org", "EXAMPLE.ORG", "keytab-password", time.Now(), 1, 18); err != nil {
		return
	}
	b, err := k.Marshal()
	if err != nil {
		return
	}
	d, err := os.MkdirTemp(r.Work, "krb-")
	if err != nil {
		return
	}
	kt = filepath.Join(d, "gw.keytab")
	conf = filepath.Join(d, "krb5.conf")
	if err = os.WriteFile(kt, b, 0600); err != nil {
		return
	}
	var sb strings.Builder
	sb.WriteString("[libdefaults]\n default_realm = EXAMPLE.ORG\n dns_lookup_kdc = false\n dns_lookup_realm = false\n\n[realms]\n EXAMPLE.ORG = {\n")
	for _, h := range kdcs {
		sb.WriteString("  kdc = " + h + "\n")
	}
	sb.WriteString(" }\n")
	if other != nil {
		sb.WriteString(" OTHER.TEST = {\n")
		for _, h := range other {
			sb.WriteString("  kdc = " + h + "\n")
		}
		sb.WriteString(" }\n")
	}
	err = os.WriteFile(conf, []byte(sb.String()), 0600)
	return
}

// spell writes a keyword value in the scenario's spelling.
func spell(kind, v string) string {
	switch kind {
	case "mixed":
		if len(v) > 0 {
			return strings.ToUpper(v[:1]) + v[1:]
		}
	case "upper":
		return strings.ToUpper(v)
	case "alias":
		if v == "local" {
			return "basic"
		}
	}
	return v
}

func hasStr(l []string, s string) bool {
	for _, x := range l {
		if x == s {
			return true
		}
	}
	return false
}

// RunStart starts the real binary under the scenario's configuration and
// records whether it refused or came up.
func (r *Runner) RunStart(s *CfgScript, tw *TraceWriter) error {
	c := &gw.Config{Authentication: append([]string{}, s.Auth...), GatewayAddress: "https://127.0.0.1:%PORT%", SessionKey: KeySess, SessionEncKey: KeySessEnc,
		PAASigningKey: KeyPAASign, PAAEncKey: KeyPAAEnc, TokenAuth: gw.B(s.Token), Env: map[string]string{}}
	if hasStr(s.Auth, "openid") {
		idp, err := r.SharedIdP()
		if err != nil {
			return err
		}
		c.ProviderUrl, c.ClientId, c.ClientSecret = idp.URL, idp.ClientID, idp.Secret
	}
	if s.TlsOff {
		c.Tls = "disable"
	} else {
		cp, kp, err := r.Cert()
		if err != nil {
			return err
		}
		c.Tls, c.CertFile, c.KeyFile = "enable", cp, kp
	}
	switch s.Sel {
	case "":
		s.Sel = "roundrobin"
		c.HostSelection = "roundrobin"
	case "other":
		c.HostSelection = "round-robin"
	default:
		c.HostSelection = s.Sel
	}
	if s.QKey {
		c.QuerySigningKey = KeyQuery
	}
	if hasStr(s.Auth, "kerberos") {
		kt, conf, err := r.KerberosFiles([]string{"127.0.0.1:1"})
		if err != nil {
			return err
		}
		defer os.RemoveAll(filepath.Dir(kt))
		c.Krb5Conf = conf
		if s.Keytab {
			c.Keytab = kt
		}
	}
	for i := 0; i < s.NHosts; i++ {
		c.Hosts = append(c.Hosts, fmt.Sprintf("10.0.0.%d:3389", i+1))
	}
	if s.NHosts == 0 {
		c.Hosts = nil
	}
	c.AuthSocket = filepath.Join(r.Work, "no-auth.sock")
	// src env / both: settings move into RDPGW_ environment variables. Only keys
	// whose environment spelling resolves to the same koanf key as the built-in
	// default are given through the environment (Authentication, Tls, Hosts,
	// Port) or keys that have no default (query key, keytab, krb5conf): for the
	// others (TokenAuth, HostSelection) rdpgw ends up with two differently cased
	// keys and picks one in map-iteration order - see DESIGN.md, findings.
	if s.Src == "env" || s.Src == "both" {
		env := c.Env
		env["RDPGW_SERVER__AUTHENTICATION"] = strings.Join(s.Auth, " ")
		c.Authentication = nil
		if s.Src == "both" {
			// the file names another mechanism list; the environment overrides it
			c.Authentication = []string{"openid"}
		}
		if s.TlsOff {
			env["RDPGW_SERVER__TLS"] = "disable"
			c.Tls = ""
		}
		if s.QKey {
			env["RDPGW_SECURITY__QUERYTOKENSIGNINGKEY"] = KeyQuery
			c.QuerySigningKey = ""
		}
		if c.Keytab != "" {
			env["RDPGW_KERBEROS__KEYTAB"] = c.Keytab
			c.Keytab = ""
		}
		if s.NHosts > 0 && s.Src == "env" {
			env["RDPGW_SERVER__HOSTS"] = strings.Join(c.Hosts, " ")
			c.Hosts = nil
		}
	}
	if s.Spell == "" {
		s.Spell = "canon"
	}
	if s.Spell != "canon" {
		for k, a := range c.Authentication {
			c.Authentication[k] = spell(s.Spell, a)
		}
		if c.Tls == "disable" {
			c.Tls = spell(s.Spell, c.Tls)
		}
		if s.Sel != "other" {
			c.HostSelection = spell(s.Spell, c.HostSelection)
		}
		if v, ok := c.Env["RDPGW_SERVER__AUTHENTICATION"]; ok {
			parts := strings.Split(v, " ")
			for k := range parts {
				parts[k] = spell(s.Spell, parts[k])
			}
			c.Env["RDPGW_SERVER__AUTHENTICATION"] = strings.Join(parts, " ")
		}
		if v, ok := c.Env["RDPGW_SERVER__TLS"]; ok {
			c.Env["RDPGW_SERVER__TLS"] = spell(s.Spell, v)
		}
	}
	var p *gw.Proc
	outcome := "timeout"
	for attempt := 0; attempt < 4; attempt++ {
		var err error
		p, err = gw.Start(c, gw.StartOpts{Binary: r.BinGW, WorkDir: r.Work, NoWait: true, NoHooks: true})
		if err != nil {
			return err
		}
		defer p.Stop()
		outcome = r.startOutcome(p)
		if outcome == "refused" && strings.Contains(p.Stderr(), "address already in use") {
			// the port was taken by somebody else between probing and binding: says nothing about the configuration
			continue
		}
		break
	}
	exit := 0
	if outcome == "refused" {
		exit = p.WaitExit(2 * time.Second)
	}
	lines := strings.Split(strings.TrimSpace(p.Stderr()), "\n")
	last := lines[len(lines)-1]
	if outcome == "timeout" {
		return fmt.Errorf("gateway neither exited nor listened: %s", last)
	}
	eff := M{"tlsOff": false, "auth": []string{}, "tokenAuth": "unknown", "signedNoKey": false}
	probed := false
	if outcome == "listening" {
		eff, probed = r.probeEffective(p, s, c)
	}
	tw.Line(M{"ev": "start", "script": s.ID, "cls": s.Src + "." + s.Spell, "src": s.Src, "cfg": M{"auth": s.Auth, "tlsDisabled": s.TlsOff, "tokenAuth": s.Token, "sel": s.Sel, "queryKey": s.QKey, "keytab": s.Keytab, "nhosts": s.NHosts, "spell": s.Spell},
		"outcome": outcome, "exit": exit, "lastlog": trunc(last, 160), "eff": eff, "probed": probed})
	return nil
}

// startOutcome waits until the started gateway has either exited ("refused") or holds a listening socket on its port
// ("listening").
func (r *Runner) startOutcome(p *gw.Proc) string {
	outcome := "timeout"
	deadline := time.Now().Add(20 * time.Second)
	for time.Now().Before(deadline) {
		if !p.Alive() {
			outcome = "refused"
			break
		}
		if cc, err := netDial(p.Addr); err == nil {
			cc.Close()
			if p.Cmd == nil || p.Cmd.Process == nil || !gw.ListensOn(p.Cmd.Process.Pid, p.Port) {
				// somebody else listens on that port (another test process on this machine): not this gateway's doing
				time.Sleep(3 * time.Millisecond)
				continue
			}
			outcome = "listening"
			break
		}
		time.Sleep(3 * time.Millisecond)
	}
	return outcome
}

// probeEffective finds out from outside what a running gateway actually does: whether it speaks TLS, which
// authentication mechanisms answer, whether cookie authentication is required (where that can be seen without
// credentials) and whether signed host selection accepts a query token made with the empty key.
func (r *Runner) probeEffective(p *gw.Proc, s *CfgScript, c *gw.Config) (M, bool) {
	eff := M{"tlsOff": false, "auth": []string{}, "tokenAuth": "unknown", "signedNoKey": false}
	// TLS?
	tlsOn := false
	if raw, err := net.DialTimeout("tcp", p.Addr, 2*time.Second); err == nil {
		tc := tls.Client(raw, &tls.Config{InsecureSkipVerify: true})
		tc.SetDeadline(time.Now().Add(3 * time.Second))
		if tc.Handshake() == nil {
			tlsOn = true
		}
		tc.Close()
	}
	if !tlsOn {
		st, _ := rawExchange(p.Addr, "GET", "/tokeninfo", nil, false, 3*time.Second)
		if st <= 0 {
			return eff, false // neither TLS nor plain HTTP answered: nothing can be said
		}
		eff["tlsOff"] = true
	}
	p.TLS = tlsOn
	var idp *envx.IdP
	if hasStr(s.Auth, "openid") {
		idp, _ = r.SharedIdP()
	}
	in := &Inst{R: r, P: p, IdP: idp, Sym: map[string]string{}, Cfg: ScriptCfg{NoHooks: true}}
	b := in.NewBrowser("", "")
	auth := []string{}
	open := false
	if h, err := b.Get(in.BaseURL() + "/remoteDesktopGateway/"); err == nil {
		if h.Status == 401 {
			for _, v := range h.Header.Values("Www-Authenticate") {
				switch strings.SplitN(strings.TrimSpace(v), " ", 2)[0] {
				case "Basic":
					auth = append(auth, "local")
				case "NTLM":
					auth = append(auth, "ntlm")
				}
			}
		} else if h.Status != 404 {
			open = true
		}
	} else {
		return eff, false
	}
	// kerberos: the KDC proxy route exists only with that mechanism
	if req, err := http.NewRequest("POST", in.BaseURL()+"/KdcProxy", strings.NewReader("")); err == nil {
		if resp, err := b.C.Do(req); err == nil {
			resp.Body.Close()
			if resp.StatusCode != 404 && resp.StatusCode != 405 {
				auth = append(auth, "kerberos")
			}
		}
	}
	openid := false
	if h, err := b.Get(in.BaseURL() + "/connect"); err == nil && h.Status != 404 {
		openid = true
		auth = append(auth, "openid")
	}
	sort.Strings(auth)
	eff["auth"] = auth
	// cookie authentication can be seen without credentials only where the endpoint is open at HTTP level
	if open {
		if t, _, err := in.Open(OpenOpts{Transport: "ws"}); err == nil && t != nil {
			if t.SendRaw(tsgu.Handshake(1, 0, 0, 0)) == nil {
				if pkt, err := t.Recv(3 * time.Second); err == nil {
					d := tsgu.Decode(pkt)
					if d.Status == 0 {
						eff["tokenAuth"] = "no" // a client offering no mechanism got in
					} else {
						eff["tokenAuth"] = "yes"
					}
				}
			}
			t.Close()
		}
	}
	// signed selection that accepts a query token made with the empty key
	host0 := "10.0.0.1:3389"
	if openid && idp != nil && tlsOn && s.NHosts > 0 {
		b.LoginID = idp.Register(newLogin("user1"))
		if hops, err := b.Connect("", 6); err == nil && len(hops) > 0 {
			b.LoginID = ""
			last := hops[len(hops)-1]
			if last.Status != 200 { // a logged-in session does not get a file without a host parameter: not round robin
				now := time.Now().Unix()
				qt := forge.JWS("HS256", []byte{}, forge.Header("HS256"), forge.Claims(map[string]interface{}{"iss": "rdpgw", "sub": host0, "exp": now + 300}))
				if h, err := b.Get(in.BaseURL() + "/connect?host=" + url.QueryEscape(qt)); err == nil && h.Status == 200 && strings.Contains(h.Body, host0) {
					eff["signedNoKey"] = true
				}
			}
		}
	}
	return eff, true
}

// RunCross starts two instances from the same configuration in which one key
// has the given length, and presents what A minted to B.
func (r *Runner) RunCross(s *CfgScript, tw *TraceWriter) error {
	key := strings.Repeat("K", s.Len)
	if s.Len == 32 {
		key = "0123456789abcdefGHIJKLMNOPQRSTUV"
	}
	mk := func() (*Inst, error) {
		// (the two gateways run on one machine: same home and temporary directories)
		cfg := ScriptCfg{TokenAuth: true, Auth: "openid", Sel: "roundrobin", Hosts: [][]string{{"H1", ":", "PA"}}, VerifyIp: false, UserTok: "enc", Template: "{{ username }}::{{ token }}", SharedEnv: s.ID}
		cfg.Store = s.Store
		cfg.KeyOverride = map[string]string{s.Key: key}
		if s.Len == 0 {
			cfg.KeyOverride = map[string]string{s.Key: "-"}
		}
		return r.NewInst(cfg)
	}
	a, err := mk()
	if err != nil {
		return err
	}
	defer a.Stop()
	b, err := mk()
	if err != nil {
		return err
	}
	defer b.Stop()
	// log in on A and fetch a connection file
	br := a.NewBrowser("", "")
	br.LoginID = a.IdP.Register(newLogin("user1"))
	hops, err := br.Connect("", 6)
	if err != nil {
		return err
	}
	last := hops[len(hops)-1]
	if last.Status != 200 {
		return fmt.Errorf("login on A failed: %d %s", last.Status, last.Body)
	}
	file, _ := ParseRDP(last.Body)
	paa := file["gatewayaccesstoken"]
	usertok := ""
	if p := strings.SplitN(file["username"], "::", 2); len(p) == 2 {
		usertok = p[1]
	}
	var accOther, accSelf, madeWith bool
	switch s.Key {
	case "paasign":
		madeWith = forge.VerifyHS256(paa, []byte(key)) && s.Len > 0
		accSelf = a.tryCookie(paa)
		accOther = b.tryCookie(paa)
	case "userenc":
		accSelf = tokenInfo(a, usertok) == 200
		accOther = tokenInfo(b, usertok) == 200
		madeWith = false
	case "sess", "sessenc":
		// A's session cookie presented to B
		u, _ := url.Parse(a.BaseURL())
		cookies := br.C.Jar.Cookies(u)
		accSelf = connectWith(a, cookies) == 200
		accOther = connectWith(b, cookies) == 200
	}
	tw.Line(M{"ev": "cross", "script": s.ID, "cls": s.Key, "key": s.Key, "len": s.Len, "acceptedOnOther": accOther, "acceptedOnSelf": accSelf, "madeWithConfigured": madeWith})
	return nil
}

func tokenInfo(i *Inst, tok string) int {
	h, err := i.NewBrowser("", "").Get(i.BaseURL() + "/tokeninfo?access_token=" + url.QueryEscape(tok))
	if err != nil {
		return -1
	}
	return h.Status
}

func connectWith(i *Inst, cookies []*http.Cookie) int {
	b := i.NewBrowser("", "")
	u, _ := url.Parse(i.BaseURL())
	b.C.Jar.SetCookies(u, cookies)
	h, err := b.Get(i.BaseURL() + "/connect")
	if err != nil {
		return -1
	}
	return h.Status
}

// tryCookie presents a cookie in a real tunnel-create exchange.
func (i *Inst) tryCookie(cookie string) bool {
	t, _, err := i.Open(OpenOpts{Transport: "ws"})
	if err != nil || t == nil {
		return false
	}
	defer t.Close()
	r, err := t.Step(tsgu.Handshake(1, 0, 0, 2))
	if err != nil || len(r.Resps) != 1 || r.Resps[0].Status != 0 {
		return false
	}
	r, err = t.Step(tsgu.TunnelCreate(2, cookie, true))
	return err == nil && len(r.Resps) == 1 && r.Resps[0].Status == 0
}


func newLogin(sub string) *envx.Login {
	return &envx.Login{Sub: sub, Claims: map[string]interface{}{"preferred_username": sub}}
}

func netDial(addr string) (net.Conn, error) { return net.DialTimeout("tcp", addr, 200*time.Millisecond) }

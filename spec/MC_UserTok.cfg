SPECIFICATION Spec
INVARIANTS OnlyConfiguredKeys OnlyIssuerAndUnexpired ModesDoNotMix StatusClasses
CHECK_DEADLOCK FALSE

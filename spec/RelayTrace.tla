----------------------------- MODULE RelayTrace -----------------------------
(* Trace specification for the relay (C06): per client data packet what the     *)
(* loopback host received, per host chunk what the client received, recorded    *)
(* from the real gateway.                                                       *)
EXTENDS Integers, Sequences, FiniteSets, Json, TLC, TLCExt, IOUtils
TTraceFile == IF "TRACE" \in DOMAIN IOEnv THEN IOEnv.TRACE ELSE "trace.ndjson"
TraceLog == ndJsonDeserialize(TTraceFile)
VARIABLES l, viol, cover, produced, received, ended
tvars == <<l, viol, cover, produced, received, ended>>
Line == TraceLog[l]
Closing(e) == "closing" \in DOMAIN e /\ e.closing
Cls(e) == IF Closing(e) THEN (IF "slowhost" \in DOMAIN e /\ e.slowhost THEN "closing-busyhost" ELSE IF e.apart THEN "closing-apart" ELSE "closing-coalesced") ELSE IF e.carr = e.decl THEN "eq" ELSE IF e.carr < e.decl THEN "short" ELSE "long"

TInit == l = 1 /\ viol = {} /\ cover = {} /\ produced = 0 /\ received = 0 /\ ended = FALSE
TReset == Line.ev = "reset" /\ produced' = 0 /\ received' = 0 /\ ended' = FALSE /\ UNCHANGED <<viol, cover>>
\* one client DATA packet: decl/carr lengths, got = bytes the host received for it,
\* prefix = those bytes are exactly the first got bytes the packet carried
TC2B == /\ Line.ev = "c2b"
        /\ LET bad == (IF ended /\ Line.got > 0 THEN {"G_C06_NothingAfterEnd"} ELSE {})
                      \cup (IF ~ended /\ Line.carr >= Line.decl /\ ~(Line.got = Line.decl /\ Line.prefix) THEN {"G_C06_DeclaredPayloadForwarded"} ELSE {})
                      \cup (IF Line.carr < Line.decl /\ ~(Line.got <= Line.carr /\ Line.prefix) THEN {"G_C06_NoInventedBytes"} ELSE {})
                      \cup (IF ~ended /\ Line.carr >= Line.decl /\ Line.end THEN {"G_C06_WellFormedDataKeepsChannel"} ELSE {})
                      \* the data was followed by an orderly CLOSE_CHANNEL: what was sent before closing has been delivered
                      \cup (IF ~ended /\ Closing(Line) /\ ~(Line.got = Line.decl /\ Line.prefix) THEN {"G_C06_DeliveredBeforeClose"} ELSE {})
           IN viol' = viol \cup {<<l, g, Line.transport, Cls(Line)>> : g \in bad}
        /\ cover' = cover \cup {<<"c2b", Line.transport, Cls(Line)>>}
        /\ ended' = (ended \/ Line.end \/ Closing(Line))
        /\ UNCHANGED <<produced, received>>
\* the host wrote n more bytes; until quiescence the client received npk DATA packets
\* carrying rcv bytes; prefix = the concatenated payloads continue the produced stream exactly
TB2C == /\ Line.ev = "b2c"
        /\ LET p == produced + Line.n
               r == received + Line.rcv
               \* (C16 says it of every packet the gateway sends: a header whose length is that of the bytes sent)
               bad == (IF ~Line.allwf THEN {"G_C06_DataPacketsWellFormed", "G_C16_SentPacketsWellFormed"} ELSE {})
                      \cup (IF ~Line.prefix \/ r > p THEN {"G_C06_ClientGetsHostStream"} ELSE {})
                      \cup (IF ~ended /\ r # p THEN {"G_C06_ClientGetsAllOfIt"} ELSE {})
           IN /\ viol' = viol \cup {<<l, g, Line.transport, Line.sizecls>> : g \in bad}
              /\ produced' = p /\ received' = r
        /\ cover' = cover \cup {<<"b2c", Line.transport, Line.sizecls>>}
        /\ UNCHANGED ended
TNext == l <= Len(TraceLog) /\ (TReset \/ TC2B \/ TB2C) /\ l' = l + 1
TSpec == TInit /\ [][TNext]_tvars
AtEnd == l = Len(TraceLog) + 1 =>
           PrintT(<<"VERIF_RESULT", ToJson([viol |-> viol, cover |-> cover, lines |-> Len(TraceLog)])>>)
TraceAccepted == TLCGet("stats").diameter = Len(TraceLog) + 1
=============================================================================

----------------------------- MODULE FramingTrace -----------------------------
(* Trace specification for packet framing (C08): the bytes the client sent      *)
(* (as a sequence of packets with their declared lengths), the sizes of the     *)
(* transport reads the gateway performed (hook tr.read) and the packets its     *)
(* loop accepted (hook proc.recv), recorded from the real gateway.              *)
EXTENDS Integers, Sequences, FiniteSets, Json, TLC, TLCExt, IOUtils

TTraceFile == IF "TRACE" \in DOMAIN IOEnv THEN IOEnv.TRACE ELSE "trace.ndjson"
TraceLog == ndJsonDeserialize(TTraceFile)
H == 8

VARIABLES l, viol, cover,
          stream,     \* <<[pt, size (declared), wire (bytes sent for it)], ...>> of the current script
          delivered,  \* bytes returned by transport reads so far
          k           \* packets the loop accepted so far
tvars == <<l, viol, cover, stream, delivered, k>>
Line == TraceLog[l]

RECURSIVE SumWire(_, _)
SumWire(s, n) == IF n = 0 THEN 0 ELSE s[n].wire + SumWire(s, n - 1)
EndOf(i) == SumWire(stream, i)
FirstBad == IF \E i \in 1..Len(stream) : stream[i].size < H \/ stream[i].size # stream[i].wire
              THEN CHOOSE i \in 1..Len(stream) : (stream[i].size < H \/ stream[i].size # stream[i].wire)
                                                /\ \A j \in 1..(i - 1) : (stream[j].size >= H /\ stream[j].size = stream[j].wire)
              ELSE Len(stream) + 1

TInit == l = 1 /\ viol = {} /\ cover = {} /\ stream = <<>> /\ delivered = 0 /\ k = 0

TReset == /\ Line.ev = "reset"
          /\ stream' = Line.stream /\ delivered' = 0 /\ k' = 0
          /\ UNCHANGED <<viol, cover>>
TRead == /\ Line.ev = "read"
         /\ delivered' = delivered + Line.n
         /\ UNCHANGED <<viol, cover, stream, k>>
TRecv == /\ Line.ev = "recv"
         /\ LET i == k + 1
                bad == (IF i > Len(stream) \/ i >= FirstBad + 1 THEN {"G_C08_OnlySentPackets"}
                        ELSE (IF Line.pt # stream[i].pt \/ Line.size # stream[i].size THEN {"G_C08_SamePackets"} ELSE {})
                             \cup (IF delivered < EndOf(i) THEN {"G_C08_NotBeforeComplete"} ELSE {})
                             \cup (IF i >= FirstBad THEN {"G_C08_NothingPastUnframeable"} ELSE {}))
            IN viol' = viol \cup {<<l, g, Line.mode, Line.transport>> : g \in bad}
         /\ k' = k + 1
         /\ UNCHANGED <<cover, stream, delivered>>
TEnd == /\ Line.ev = "end"
        /\ LET wellFormed == FirstBad > Len(stream)
               \* refk: packets the uncut run of the same stream processed (a packet such as CLOSE may end it)
               bad == (IF wellFormed /\ k # Line.refk THEN {"G_C08_AllPacketsProcessed"} ELSE {})
                      \cup (IF wellFormed /\ Line.resps # Line.refresps THEN {"G_C08_SameResponses"} ELSE {})
                      \cup (IF wellFormed /\ Line.backend # Line.refbackend THEN {"G_C08_SameBackendBytes"} ELSE {})
                      \cup (IF ~wellFormed /\ delivered >= EndOf(FirstBad - 1) + H /\ ~Line.exited THEN {"G_C08_UnframeableEnds"} ELSE {})
                      \cup (IF ~wellFormed /\ k >= FirstBad THEN {"G_C08_NothingPastUnframeable"} ELSE {})
                      \cup (IF Line.panicked THEN {"G_C10_NoPanic"} ELSE {})
           IN /\ viol' = viol \cup {<<l, g, Line.mode, Line.transport>> : g \in bad}
              /\ cover' = cover \cup {<<Line.mode, Line.transport, IF k = Len(stream) THEN "all" ELSE "partial">>}
        /\ UNCHANGED <<stream, delivered, k>>

TNext == l <= Len(TraceLog) /\ (TReset \/ TRead \/ TRecv \/ TEnd) /\ l' = l + 1
TSpec == TInit /\ [][TNext]_tvars
AtEnd == l = Len(TraceLog) + 1 =>
           PrintT(<<"VERIF_RESULT", ToJson([viol |-> viol, cover |-> cover, lines |-> Len(TraceLog)])>>)
TraceAccepted == TLCGet("stats").diameter = Len(TraceLog) + 1
=============================================================================

package drv

import (
	"bytes"
	"fmt"
	"math/rand"
	"strings"
	"sync"
	"time"

	"verifharness/envx"
	"verifharness/gw"
	"verifharness/tsgu"
)

// CcScript is a concurrency scenario.
type CcScript struct {
	Script
	Kind    string `json:"kind"`    // wmutex | regmutex | soak
	Variant string `json:"variant"` // wmutex: relay-first-close | relay-first-error | loop-first ; regmutex: reg-reg | unreg-reg | unreg-unreg
	N       int    `json:"n"`       // soak: number of tunnels
	Rounds  int    `json:"rounds"`
}

const probeWait = 300 * time.Millisecond

// sectionEvents renders the critical-section hook events since mark, in the gateway's order.
func sectionEvents(p *gw.Proc, mark int, tw *TraceWriter, cids map[string]bool) {
	for _, e := range p.Since(mark) {
		var kind, act string
		switch e.Pt {
		case "tun.write.begin":
			kind, act = "write", "begin"
		case "tun.write.end":
			kind, act = "write", "end"
		case "reg.begin", "unreg.begin":
			kind, act = "reg", "begin"
		case "reg.end", "unreg.end":
			kind, act = "reg", "end"
		default:
			continue
		}
		if cids != nil && !cids[e.Cid] {
			continue
		}
		tw.Line(M{"ev": "sect", "kind": kind, "act": act, "tun": e.Cid, "g": e.Role + "/" + e.Cid, "pt": e.Pt, "seq": e.Seq, "cls": "sect"})
	}
}

func (i *Inst) setup(s Script, rng *rand.Rand, upto int) (*TunConn, *ProtoCtx, error) {
	pc := i.NewProtoCtx(s, rng)
	t, rep, err := i.Open(pc.OpenOpts())
	if err != nil {
		return nil, nil, fmt.Errorf("open: %w", err)
	}
	if t == nil {
		return nil, nil, fmt.Errorf("open refused: %d", rep.Status)
	}
	for _, st := range s.Steps[:upto] {
		pkt, _, err := pc.Build(st)
		if err != nil {
			t.Close()
			return nil, nil, err
		}
		r, err := t.Step(pkt)
		if err != nil {
			t.Close()
			return nil, nil, err
		}
		if r.End {
			t.Close()
			return nil, nil, fmt.Errorf("set-up step %v ended the tunnel", st["k"])
		}
	}
	return t, pc, nil
}

// RunConc executes one scenario.
func (i *Inst) RunConc(s *CcScript, tw *TraceWriter, rng *rand.Rand) error {
	p := i.P
	tw.Line(M{"ev": "reset", "script": s.ID, "cls": s.Kind + "." + s.Variant, "transport": s.Transport})
	faults0 := len(p.Faults())
	switch s.Kind {
	case "wmutex":
		be := i.Backends["A"]
		n0 := be.NConns()
		t, _, err := i.setup(s.Script, rng, 5) // hs create auth chan data -> opened
		if err != nil {
			return err
		}
		defer t.Close()
		if !be.WaitConn(n0+1, 5*time.Second) {
			return fmt.Errorf("no host connection")
		}
		bc := be.Conn(n0)
		mark := p.Mark()
		first, second := "relay", "loop"
		if s.Variant == "loop-first" {
			first, second = "loop", "relay"
		}
		if err := p.Gate("tun.write.begin", t.Cid, first); err != nil {
			return err
		}
		trigger := func(role string) {
			if role == "relay" {
				bc.Send([]byte("host-bytes-" + s.ID))
			} else if s.Variant == "relay-first-error" {
				t.SendRaw(tsgu.Handshake(1, 0, 0, 0)) // out of order: error response, tunnel ends
			} else {
				t.SendRaw(tsgu.CloseChannel(0)) // answered with a close response
			}
		}
		trigger(first)
		idx, _ := p.Wait(mark, 5*time.Second, func(e gw.Event) bool { return e.Cid == t.Cid && e.Pt == "tun.write.begin" && e.Role == first && e.Gated })
		if idx < 0 {
			p.Ungate("tun.write.begin", t.Cid, first)
			return fmt.Errorf("the %s goroutine never reached its write", first)
		}
		trigger(second)
		// does the other goroutine enter the write section while the first is held inside?
		p.Wait(idx+1, probeWait, func(e gw.Event) bool { return e.Cid == t.Cid && e.Pt == "tun.write.begin" && e.Role == second })
		p.Release("tun.write.begin", t.Cid, first, 1)
		p.Wait(idx+1, 3*time.Second, func(e gw.Event) bool { return e.Cid == t.Cid && e.Pt == "tun.write.end" && e.Role == second })
		p.Ungate("tun.write.begin", t.Cid, first)
		p.Wait(mark, 2*time.Second, func(e gw.Event) bool { return e.Cid == t.Cid && e.Pt == "proc.exit" })
		p.Sync(s.ID)
		sectionEvents(p, mark, tw, map[string]bool{t.Cid: true})
	case "regmutex":
		mark := p.Mark()
		var a *TunConn
		var aerr error
		done := make(chan struct{})
		cidsSeen := map[string]bool{}
		switch s.Variant {
		case "reg-reg":
			// hold the first registration inside the registry section, start a second one
			if err := p.Gate("reg.begin", "*", ""); err != nil {
				return err
			}
			go func() { a, _, aerr = i.setupNoWait(s.Script, rng); close(done) }()
			idx, _ := p.Wait(mark, 5*time.Second, func(e gw.Event) bool { return e.Pt == "reg.begin" && e.Gated })
			if idx < 0 {
				p.Ungate("reg.begin", "*", "")
				return fmt.Errorf("no registration reached the gate")
			}
			var b *TunConn
			done2 := make(chan struct{})
			go func() { b, _, _ = i.setupNoWait(s.Script, rng); close(done2) }()
			p.Wait(idx+1, probeWait, func(e gw.Event) bool { return e.Pt == "reg.begin" })
			p.Release("reg.begin", "*", "", 2)
			p.Ungate("reg.begin", "*", "")
			<-done
			<-done2
			if a != nil {
				defer a.Close()
			}
			if b != nil {
				defer b.Close()
			}
		case "unreg-reg", "unreg-unreg":
			t1, _, err := i.setup(s.Script, rng, 1)
			if err != nil {
				return err
			}
			t2, _, err := i.setup(s.Script, rng, 1)
			if err != nil {
				t1.Close()
				return err
			}
			mark = p.Mark()
			if err := p.Gate("unreg.begin", t1.Cid, ""); err != nil {
				return err
			}
			t1.Close() // its handler will unregister
			idx, _ := p.Wait(mark, 5*time.Second, func(e gw.Event) bool { return e.Cid == t1.Cid && e.Pt == "unreg.begin" && e.Gated })
			if idx < 0 {
				p.Ungate("unreg.begin", t1.Cid, "")
				t2.Close()
				return fmt.Errorf("no unregistration reached the gate")
			}
			if s.Variant == "unreg-unreg" {
				t2.Close()
				p.Wait(idx+1, probeWait, func(e gw.Event) bool { return e.Cid == t2.Cid && e.Pt == "unreg.begin" })
			} else {
				go func() { a, _, aerr = i.setupNoWait(s.Script, rng); close(done) }()
				p.Wait(idx+1, probeWait, func(e gw.Event) bool { return e.Pt == "reg.begin" })
			}
			p.Release("unreg.begin", t1.Cid, "", 1)
			p.Ungate("unreg.begin", t1.Cid, "")
			if s.Variant == "unreg-reg" {
				<-done
				if a != nil {
					defer a.Close()
				}
			}
			t2.Close()
			time.Sleep(20 * time.Millisecond)
		}
		_ = aerr
		p.Sync(s.ID)
		sectionEvents(p, mark, tw, nil)
		_ = cidsSeen
	case "soak":
		mark := p.Mark()
		whole, broken := i.soak(s, rng)
		p.Sync(s.ID)
		sectionEvents(p, mark, tw, nil)
		tw.Line(M{"ev": "frames", "cls": "soak", "whole": whole, "broken": broken})
	default:
		return fmt.Errorf("unknown kind %q", s.Kind)
	}
	time.Sleep(30 * time.Millisecond)
	races, fatals := 0, 0
	var first string
	for _, f := range p.Faults()[faults0:] {
		if strings.Contains(f, "DATA RACE") {
			races++
		}
		if strings.HasPrefix(f, "fatal error:") || strings.HasPrefix(f, "panic:") {
			fatals++
		}
		if first == "" {
			first = f
		}
	}
	where := ""
	if races > 0 {
		where = raceWhere(p.Stderr())
	}
	tw.Line(M{"ev": "sensor", "cls": s.Kind + "." + s.Variant, "races": races, "fatals": fatals, "alive": p.Alive(), "first": trunc(first, 200), "where": where})
	if !p.Alive() {
		return fmt.Errorf("GATEWAY-DIED")
	}
	return nil
}

// raceWhere extracts the rdpgw functions named in the first race report.
func raceWhere(stderr string) string {
	k := strings.Index(stderr, "WARNING: DATA RACE")
	if k < 0 {
		return ""
	}
	seg := stderr[k:]
	if e := strings.Index(seg, "=================="); e > 0 {
		seg = seg[:e]
	}
	var fns []string
	seen := map[string]bool{}
	for _, ln := range strings.Split(seg, "\n") {
		ln = strings.TrimSpace(ln)
		if strings.HasPrefix(ln, "github.com/bolkedebruin/rdpgw/") {
			f := strings.TrimPrefix(ln, "github.com/bolkedebruin/rdpgw/cmd/rdpgw/")
			if p := strings.Index(f, "("); p > 0 && !strings.HasPrefix(f[p:], "(*") {
				f = f[:p]
			} else if q := strings.LastIndex(f, "("); q > 0 {
				f = f[:q]
			}
			if !seen[f] {
				seen[f] = true
				fns = append(fns, f)
			}
		}
	}
	if len(fns) > 4 {
		fns = fns[:4]
	}
	return strings.Join(fns, " | ")
}

// setupNoWait opens a tunnel without requiring hook events (the gateway may be held at a gate).
func (i *Inst) setupNoWait(s Script, rng *rand.Rand) (*TunConn, *ProtoCtx, error) {
	return i.setup(s, rng, 0)
}

// soak runs N tunnels concurrently: set-up, data both ways, keep-alives, then
// an ending chosen per tunnel (close while the host sends, protocol error while
// the host sends, abrupt disconnect). Returns counts of whole / broken frames.
func (i *Inst) soak(s *CcScript, rng *rand.Rand) (int, int) {
	n := s.N
	if n <= 0 {
		n = 8
	}
	var wg sync.WaitGroup
	var mu sync.Mutex
	whole, broken := 0, 0
	// all tunnels reach tunnel authorisation together (first use of per-gateway state)
	var barrier sync.WaitGroup
	barrier.Add(n)
	arrived := make([]bool, n)
	arrive := func(k int) {
		if !arrived[k] {
			arrived[k] = true
			barrier.Done()
		}
	}
	for k := 0; k < n; k++ {
		wg.Add(1)
		seed := rng.Int63()
		go func(k int) {
			defer wg.Done()
			defer arrive(k)
			r := rand.New(rand.NewSource(seed))
			sc := s.Script
			sc.Transport = []string{"ws", "legacy"}[k%2]
			be, err := envx.NewBackend("127.0.0.1")
			if err != nil {
				return
			}
			defer be.Close()
			// each tunnel talks to its own host on port "PA" of the script? use any-mode style: the script's cfg must allow it
			pc := i.NewProtoCtx(sc, r)
			t, rep, err := i.Open(pc.OpenOpts())
			if err != nil || t == nil {
				_ = rep
				return
			}
			defer t.Close()
			w, b := 0, 0
			count := func(p []byte) {
				d := tsgu.Decode(p)
				if d.WellForm && d.HdrLen == d.WireLen {
					w++
				} else {
					b++
				}
			}
			for si, st := range sc.Steps[:4] {
				pkt, _, err := pc.Build(st)
				if err != nil {
					return
				}
				if si == 2 {
					arrive(k)
					barrier.Wait()
				}
				if err := t.SendRaw(pkt); err != nil {
					return
				}
				p, err := t.Recv(5 * time.Second)
				if err != nil {
					return
				}
				count(p)
			}
			beA := i.Backends["A"]
			// find this tunnel's host connection: the newest one not yet claimed is good enough for traffic generation
			var bc *envx.BConn
			for tries := 0; tries < 200 && bc == nil; tries++ {
				if c := beA.Conn(beA.NConns() - 1); c != nil {
					bc = c
				}
				time.Sleep(time.Millisecond)
			}
			stop := make(chan struct{})
			var rwg sync.WaitGroup
			rwg.Add(1)
			go func() { // reader: every frame must be whole
				defer rwg.Done()
				for {
					p, err := t.Recv(300 * time.Millisecond)
					if err != nil {
						select {
						case <-stop:
							return
						default:
						}
						if err.Error() == "timeout" {
							continue
						}
						return
					}
					count(p)
				}
			}()
			rounds := s.Rounds
			if rounds <= 0 {
				rounds = 20
			}
			for j := 0; j < rounds; j++ {
				pl := make([]byte, 1+r.Intn(3000))
				r.Read(pl)
				t.SendRaw(tsgu.Data(uint16(len(pl)), pl))
				if bc != nil {
					hb := make([]byte, 1+r.Intn(6000))
					r.Read(hb)
					bc.Send(hb)
				}
				if j%5 == 0 {
					t.SendRaw(tsgu.Keepalive())
				}
				if j%3 == 1 && t.WS != nil {
					// a websocket ping (proxies and browsers send them): a control frame the transport answers itself
					t.WS.WriteRawFrame(9, true, []byte("ping"))
				}
			}
			// ending while the host is still sending
			if bc != nil {
				go func() {
					hb := bytes.Repeat([]byte{0x5a}, 200000)
					bc.Send(hb)
				}()
			}
			switch k % 3 {
			case 0:
				t.SendRaw(tsgu.CloseChannel(0))
			case 1:
				t.SendRaw(tsgu.Handshake(1, 0, 0, 0))
			default:
				if t.WS != nil {
					t.WS.Reset()
				} else {
					t.In.Reset()
				}
			}
			time.Sleep(50 * time.Millisecond)
			close(stop)
			t.Close()
			rwg.Wait()
			mu.Lock()
			whole += w
			broken += b
			mu.Unlock()
		}(k)
	}
	wg.Wait()
	return whole, broken
}

--------------------------- MODULE LifecycleTrace ---------------------------
(* Trace specification of module Lifecycle: the hook events of whole gateway     *)
(* processes, in the gateway's own order (process-wide sequence number taken     *)
(* under the hook mutex), are replayed through the effects Eff_X of the system   *)
(* specification; every precondition of Pre_X that does not hold at an event is  *)
(* collected with its name.  A "reset" line starts the log of the next gateway   *)
(* process.  Lines: [ev, pt, u (tunnel object), cid, role, found, ok, usr, nreg]            *)
EXTENDS Lifecycle, Json, TLCExt, IOUtils
TTraceFile == IF "TRACE" \in DOMAIN IOEnv THEN IOEnv.TRACE ELSE "trace.ndjson"
TraceLog == ndJsonDeserialize(TTraceFile)
VARIABLES l, viol, cover
tvars == <<st, regBusy, l, viol, cover>>
Line == TraceLog[l]

NoTunnels == [x \in {} |-> Fresh("")]
TTunnels == {}
TKind == [x \in {} |-> "ws"]

\* violated preconditions and the effect of the event on tunnel u
PreOf(e, u) ==
  CASE e.pt = "gw.enter" -> Pre_Enter(u, e.cid, e.found)
    [] ~Known(u) -> {"G_C11_EventForUnknownTunnel"}
    [] e.pt = "gw.exit" -> Pre_Exit(u)
    [] e.pt = "ws.open" -> Pre_WsOpen(u)
    [] e.pt = "legacy.out.attached" -> Pre_OutAttached(u)
    [] e.pt = "legacy.out.accepted" -> Pre_OutAccepted(u)
    [] e.pt = "legacy.out.published" -> Pre_OutPublished(u)
    [] e.pt = "legacy.in.attached" -> Pre_InAttached(u)
    [] e.pt = "legacy.in.drained" -> Pre_InDrained(u)
    [] e.pt = "reg.begin" -> Pre_RegBegin(u)
    [] e.pt = "reg.end" -> Pre_RegEnd(u)
    [] e.pt = "unreg.begin" -> Pre_UnregBegin(u)
    [] e.pt = "unreg.end" -> Pre_UnregEnd(u)
    [] e.pt = "tr.reading" -> Pre_Reading(u)
    [] e.pt = "tr.read" -> Pre_Read(u)
    [] e.pt = "proc.recv" -> Pre_RecvAs(u, e.t, e.usr)
    [] e.pt = "proc.step" -> Pre_Step(u)
    [] e.pt = "proc.exit" -> Pre_LoopExit(u)
    [] e.pt = "proc.dial" -> Pre_Dial(u)
    [] e.pt = "proc.dialed" -> Pre_Dialed(u, e.ok)
    [] e.pt = "relay.c2b" -> Pre_ToHost(u)
    [] e.pt = "relay.read" -> Pre_RelayRead(u)
    [] e.pt = "relay.exit" -> Pre_RelayExit(u)
    [] e.pt = "tun.write.begin" -> Pre_WriteBegin(u, e.role)
    [] e.pt = "tun.write.end" -> Pre_WriteEnd(u, e.role)
    [] OTHER -> {"G_UnknownEvent"}

EffOf(e, u) ==
  CASE e.pt = "gw.enter" -> Eff_EnterAs(u, e.cid, e.found, e.usr)
    [] ~Known(u) -> Fresh(e.cid)
    [] e.pt = "gw.exit" -> Eff_Exit(u)
    [] e.pt = "ws.open" -> Eff_WsOpen(u)
    [] e.pt = "legacy.out.attached" -> Eff_OutAttached(u)
    [] e.pt = "legacy.out.accepted" -> Eff_OutAccepted(u)
    [] e.pt = "legacy.out.published" -> Eff_OutPublished(u)
    [] e.pt = "legacy.in.attached" -> Eff_InAttached(u)
    [] e.pt = "legacy.in.drained" -> Eff_InDrained(u)
    [] e.pt = "reg.begin" -> Eff_RegBegin(u)
    [] e.pt = "reg.end" -> Eff_RegEnd(u)
    [] e.pt = "unreg.begin" -> Eff_UnregBegin(u)
    [] e.pt = "unreg.end" -> Eff_UnregEnd(u)
    [] e.pt = "tr.reading" -> Eff_Reading(u)
    [] e.pt = "tr.read" -> Eff_Read(u)
    [] e.pt = "proc.recv" -> Eff_RecvAs(u, e.t, e.usr)
    [] e.pt = "proc.step" -> Eff_Step(u)
    [] e.pt = "proc.exit" -> Eff_LoopExit(u)
    [] e.pt = "proc.dial" -> Eff_Dial(u)
    [] e.pt = "proc.dialed" -> Eff_Dialed(u, e.ok)
    [] e.pt = "relay.c2b" -> Eff_ToHost(u)
    [] e.pt = "relay.read" -> Eff_RelayRead(u)
    [] e.pt = "relay.exit" -> Eff_RelayExit(u)
    [] e.pt = "tun.write.begin" -> Eff_WriteBegin(u, e.role)
    [] e.pt = "tun.write.end" -> Eff_WriteEnd(u, e.role)
    [] OTHER -> Get(u, e.cid)

BusyAfter(e, u) ==
  CASE e.pt \in {"reg.begin", "unreg.begin"} -> regBusy \cup {u}
    [] e.pt \in {"reg.end", "unreg.end"} -> regBusy \ {u}
    [] OTHER -> regBusy

\* (a tunnel that got a host connection has a relay goroutine, whose last event may come after the handler has returned)
Done(t) == /\ t.hin = 0 /\ t.wr = {} /\ (t.conn => t.relay = "exited") /\ t.relay # "running" /\ ~t.reg
           /\ \/ t.h = "unregistered"
              \/ (t.h = "none" /\ t.out = "none")
TInit == l = 1 /\ viol = {} /\ cover = {} /\ st = NoTunnels /\ regBusy = {}
TReset == /\ l <= Len(TraceLog) /\ Line.ev = "reset"
          /\ st' = NoTunnels /\ regBusy' = {} /\ l' = l + 1 /\ UNCHANGED <<viol, cover>>
THook == /\ l <= Len(TraceLog) /\ Line.ev = "hk"
         /\ LET e == Line
                u == e.u
                st2 == Put(u, EffOf(e, u))
                \* the size the registry reports after RegisterTunnel / RemoveTunnel is the number of tunnels being served
                bad == PreOf(e, u) \cup (IF e.pan THEN {"G_C10_NoPanic"} ELSE {})
                       \cup (IF e.pt \in {"reg.end", "unreg.end"} /\ e.nreg >= 0 /\ e.nreg # RegCount(st2) THEN {"G_C11_RegistryHoldsExactlyTheServedTunnels"} ELSE {})
            IN /\ viol' = viol \cup {<<l, g, e.pt, e.role>> : g \in bad}
               /\ cover' = cover \cup {<<e.pt, e.role>>}
               \* a tunnel whose handlers have all returned and that has nothing left (or never got anywhere) is forgotten:
               \* nothing more can happen to it, and the state stays as small as the number of live tunnels
               /\ st' = IF e.pt \in {"gw.exit", "relay.exit"} /\ Done(st2[u]) THEN [x \in (DOMAIN st2) \ {u} |-> st2[x]] ELSE st2
               /\ regBusy' = BusyAfter(e, u)
         /\ l' = l + 1
TNext == TReset \/ THook
TSpec == TInit /\ [][TNext]_tvars
\* the design's invariants are evaluated on every state the implementation's events lead to
AtEnd == l = Len(TraceLog) + 1 =>
           PrintT(<<"VERIF_RESULT", ToJson([viol |-> viol, cover |-> cover, lines |-> Len(TraceLog)])>>)
TraceAccepted == TLCGet("stats").diameter = Len(TraceLog) + 1
=============================================================================

module verifharness

go 1.22

require (
	github.com/bolkedebruin/rdpgw v0.0.0
	github.com/m7913d/go-ntlm v0.0.1
)

replace github.com/bolkedebruin/rdpgw => /repo

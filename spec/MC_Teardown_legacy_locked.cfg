SPECIFICATION Spec
CONSTANTS
  LockedSteps = {"LoopReturns"} Transport = "legacy"
INVARIANTS NothingBeforeTheEnd GaugeNeverNegative
PROPERTIES EndingReleasesEverything
CHECK_DEADLOCK FALSE

SPECIFICATION Spec
CONSTANT Mode = "addr"
INVARIANTS I_OtherAddressRefused I_SameAddressAccepted I_SwitchOffIgnoresAddress I_FirstForwardedElement I_PeerWhenNoHeader
CHECK_DEADLOCK FALSE

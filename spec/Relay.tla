-------------------------------- MODULE Relay --------------------------------
(* The two relay directions of an open channel (receive() and forward() in      *)
(* cmd/rdpgw/protocol/common.go).  Chunks are identified, not modelled byte by  *)
(* byte; a client data packet declares d bytes and carries c bytes.             *)
EXTENDS Integers, Sequences, FiniteSets, TLC

CONSTANTS NC, NB,        \* client data packets / backend chunks per run
          Lens           \* (declared, carried) classes: "eq", "short" (carried < declared), "long" (carried > declared)

VARIABLES sentC,   \* client data packets sent so far: <<[id, cls], ...>>
          toB,     \* what reached the host: <<[id, part], ...>>  part: "declared" | "carriedprefix" | "nothing"
          prod,    \* chunk ids the host produced
          inRelay, \* chunks read from the host, not yet written to the client
          toC,     \* chunk ids delivered to the client (inside well-formed DATA packets)
          ended,
          closed   \* the client ended the channel in an orderly way (CLOSE_CHANNEL): <<>> or <<number of packets sent before>>
vars == <<sentC, toB, prod, inRelay, toC, ended, closed>>

Init == sentC = <<>> /\ toB = <<>> /\ prod = <<>> /\ inRelay = <<>> /\ toC = <<>> /\ ended = FALSE /\ closed = <<>>

\* client -> host: forward exactly the declared payload when it is all there; if the
\* packet carries less than it declares only bytes that were really carried may be
\* forwarded (or the tunnel may end) - never invented bytes
ClientData(cls) ==
  /\ ~ended /\ Len(sentC) < NC
  /\ LET id == Len(sentC) + 1 IN
       /\ sentC' = Append(sentC, [id |-> id, cls |-> cls])
       /\ \/ cls \in {"eq", "long"} /\ toB' = Append(toB, [id |-> id, part |-> "declared"]) /\ UNCHANGED ended
          \/ cls = "short" /\ toB' = Append(toB, [id |-> id, part |-> "carriedprefix"]) /\ UNCHANGED ended
          \/ cls = "short" /\ toB' = toB /\ ended' = TRUE
  /\ UNCHANGED <<prod, inRelay, toC, closed>>
\* CLOSE_CHANNEL: the packet loop returns and the host connection is closed.  The loop has written every earlier
\* payload to the host connection itself before it came to this packet (there is no stage in between that could still
\* hold bytes), so an orderly close loses nothing
ClientClose == /\ ~ended /\ ended' = TRUE /\ closed' = <<Len(sentC)>>
               /\ UNCHANGED <<sentC, toB, prod, inRelay, toC>>
HostData == /\ Len(prod) < NB /\ prod' = Append(prod, Len(prod) + 1) /\ UNCHANGED <<sentC, toB, inRelay, toC, ended, closed>>
RelayRead == /\ Len(inRelay) + Len(toC) < Len(prod)
             /\ inRelay' = Append(inRelay, prod[Len(inRelay) + Len(toC) + 1])
             /\ UNCHANGED <<sentC, toB, prod, toC, ended, closed>>
RelayWrite == /\ inRelay # <<>> /\ toC' = Append(toC, Head(inRelay)) /\ inRelay' = Tail(inRelay)
              /\ UNCHANGED <<sentC, toB, prod, ended, closed>>
Next == (\E c \in Lens : ClientData(c)) \/ ClientClose \/ HostData \/ RelayRead \/ RelayWrite
Spec == Init /\ [][Next]_vars /\ WF_vars(RelayRead) /\ WF_vars(RelayWrite)

ToHostExact == \A i \in 1..Len(toB) : /\ toB[i].id = (IF i = 1 THEN toB[1].id ELSE toB[i].id) /\ (i > 1 => toB[i].id > toB[i - 1].id)
ToHostNoInvention == \A i \in 1..Len(toB) : sentC[toB[i].id].cls = "short" => toB[i].part = "carriedprefix"
ToHostComplete == ~ended => (Len(toB) = Len(sentC) /\ \A i \in 1..Len(toB) : toB[i].id = i)
\* everything sent before an orderly close has reached the host when the channel has ended
DeliveredBeforeClose == closed # <<>> => \A i \in 1..closed[1] : sentC[i].cls \in {"eq", "long"} => \E j \in 1..Len(toB) : toB[j].id = i /\ toB[j].part = "declared"
ToClientPrefix == toC = SubSeq(prod, 1, Len(toC))
ToClientEventuallyAll == <>[](Len(prod) = NB => toC = prod)
=============================================================================

package drv

import (
	"encoding/asn1"
	"net/http"
	"net/url"
	"encoding/base64"
	"fmt"
	"math/rand"
	"strings"
	"time"

	"github.com/bolkedebruin/rdpgw/shared/auth"

	"verifharness/gw"
	"verifharness/tsgu"
	"verifharness/wsraw"
)

// HsScript is one hostile input.
type HsScript struct {
	Script
	Ep    string `json:"ep"`
	Cls   string `json:"cls"`
	Phase string `json:"phase"` // tunnel: phase in which the input is sent
}

func randBytes(rng *rand.Rand, n int) []byte {
	b := make([]byte, n)
	rng.Read(b)
	return b
}

// probe checks that a fresh client is still served by the gateway.
func (i *Inst) probe() bool {
	h, err := i.NewBrowser("", "").Get(i.BaseURL() + "/metrics")
	return err == nil && h.Status == 200
}

// probeTunnel: another client is still served as a remote desktop client - it gets a tunnel and an answer to its handshake.
func (i *Inst) probeTunnel(s Script, rng *rand.Rand) bool {
	pc := i.NewProtoCtx(s, rng)
	oo := pc.OpenOpts()
	oo.Transport = "ws"
	t, _, err := i.Open(oo)
	if err != nil || t == nil {
		return false
	}
	defer t.Close()
	caps := 0
	if i.Cfg.TokenAuth {
		caps = 2
	}
	if t.SendRaw(tsgu.Handshake(1, 0, 0, uint16(caps))) != nil {
		return false
	}
	b, err := t.Recv(5 * time.Second)
	return err == nil && len(b) >= 8
}

// RunHostile sends the input and records what happened to the processes.
func (i *Inst) RunHostile(s *HsScript, tw *TraceWriter, rng *rand.Rand) error {
	p := i.P
	mark := p.Mark()
	faults0 := len(p.Faults())
	outcome := "served"
	wedged := false
	othersStarved := false
	authAlive := true
	cid := ""
	switch s.Ep {
	case "tunnel":
		phases := map[string]int{"init": 0, "hs": 1, "created": 2, "authorized": 3, "channel": 4, "stalled": 4, "streaming": 4}
		be := i.Backends["A"]
		nb0 := be.NConns()
		t, _, err := i.setup(s.Script, rng, phases[s.Phase])
		if err == nil && s.Phase == "stalled" {
			// the host streams and the client does not read: the relay is blocked inside its write when the input arrives
			if !be.WaitConn(nb0+1, 5*time.Second) {
				t.Close()
				return fmt.Errorf("host saw no connection")
			}
			stop, serr := i.stallRelay(t, be.Conn(nb0), mark)
			if serr != nil {
				t.Close()
				return serr
			}
			defer stop()
		}
		if err == nil && s.Phase == "streaming" {
			// the host streams and the client reads it all: the relay goroutine is writing to the client all the time
			// while the packet loop handles the input (whatever the loop sends back shares the connection with it)
			if !be.WaitConn(nb0+1, 5*time.Second) {
				t.Close()
				return fmt.Errorf("host saw no connection")
			}
			bc := be.Conn(nb0)
			stopStream := make(chan struct{})
			go func() {
				buf := make([]byte, 8192)
				for {
					select {
					case <-stopStream:
						return
					default:
					}
					if bc.Send(buf) != nil {
						return
					}
				}
			}()
			go func() {
				for {
					if _, e := t.Recv(2 * time.Second); e != nil {
						return
					}
				}
			}()
			defer close(stopStream)
			time.Sleep(20 * time.Millisecond)
		}
		if err != nil {
			// the set-up itself failed: whether that is a fault is decided from the hooks / stderr below
			outcome = "closed-that-connection"
			time.Sleep(20 * time.Millisecond)
			break
		}
		cid = t.Cid
		defer t.Close()
		var raw []byte
		textMsg := false
		switch s.Cls {
		case "hdr-len-0":
			raw = tsgu.Header(uint16(1+rng.Intn(16)), 0)
		case "hdr-len-4":
			raw = tsgu.Header(uint16(1+rng.Intn(16)), 4)
		case "hdr-len-7":
			raw = append(tsgu.Header(tsgu.PktData, 7), randBytes(rng, rng.Intn(20))...)
		case "hdr-len-huge":
			raw = append(tsgu.Header(tsgu.PktData, 1<<31), randBytes(rng, 50)...)
		case "hdr-len-max":
			raw = append(tsgu.Header(uint16(rng.Intn(20)), 0xffffffff), randBytes(rng, 10)...)
		case "hdr-trunc":
			raw = randBytes(rng, 1+rng.Intn(7))
		case "type-random":
			raw = tsgu.Packet(uint16(0x12+rng.Intn(65000)), randBytes(rng, rng.Intn(100)))
		case "type-response":
			raw = tsgu.Packet([]uint16{2, 5, 7, 9, 0x11}[rng.Intn(5)], randBytes(rng, rng.Intn(30)))
		case "body-trunc-create":
			raw = tsgu.Packet(tsgu.PktTunnelCreate, randBytes(rng, rng.Intn(9)))
		case "body-long-create":
			raw = tsgu.TunnelCreateRaw(2, 1, 0xffff, randBytes(rng, rng.Intn(40)))
		case "body-trunc-chan":
			raw = tsgu.Packet(tsgu.PktChannelCreate, randBytes(rng, rng.Intn(8)))
		case "body-long-chan":
			raw = tsgu.ChannelCreateRaw(byte(rng.Intn(256)), byte(rng.Intn(256)), 3389, 3, 0xffff, randBytes(rng, 2*rng.Intn(20)))
		case "body-odd-utf16":
			raw = tsgu.ChannelCreateRaw(1, 0, 3389, 3, 7, randBytes(rng, 7))
		case "body-trunc-auth":
			raw = tsgu.Packet(tsgu.PktTunnelAuth, randBytes(rng, rng.Intn(2)))
		case "body-long-auth":
			raw = tsgu.Packet(tsgu.PktTunnelAuth, append([]byte{0xff, 0xff}, randBytes(rng, rng.Intn(30))...))
		case "data-decl-long":
			raw = tsgu.Data(0xffff, randBytes(rng, rng.Intn(10)))
		case "data-empty":
			raw = tsgu.Packet(tsgu.PktData, nil)
		case "data-full-64k":
			// the largest payloads the 16-bit inner length can announce, fully carried
			n := []int{0xFFFF, 0xFFFE, 0xFFFD, 0xFFF8}[rng.Intn(4)]
			raw = tsgu.Data(uint16(n), randBytes(rng, n))
		case "data-inner-boundaries":
			// several data packets whose inner length sits at the 16-bit boundaries, in one go
			for _, n := range []int{0xFFFF, 0, 0xFFFE, 1} {
				raw = append(raw, tsgu.Data(uint16(n), randBytes(rng, n))...)
			}
		case "keepalive-flood":
			// thousands of (valid) keepalive packets, several per write
			for k := 0; k < 4000; k++ {
				raw = append(raw, tsgu.Packet(tsgu.PktKeepalive, nil)...)
			}
		case "data-flood":
			for k := 0; k < 4000; k++ {
				raw = append(raw, tsgu.Data(3, []byte{1, 2, 3})...)
			}
		case "random-bytes":
			raw = randBytes(rng, 1+rng.Intn(300))
		case "text-message":
			raw = []byte("hello, this is not a binary frame")
			textMsg = true
		case "zero-length-message":
			raw = []byte{}
		default:
			return fmt.Errorf("unknown tunnel class %q", s.Cls)
		}
		if textMsg && t.WS != nil {
			t.WS.WriteRawFrame(1, true, raw)
		} else if strings.HasSuffix(s.Cls, "-flood") {
			for off := 0; off < len(raw); off += 800 {
				if t.SendRaw(raw[off:min(off+800, len(raw))]) != nil {
					break
				}
			}
			time.Sleep(300 * time.Millisecond)
		} else {
			t.SendRaw(raw)
		}
		// give the gateway a moment, then end the connection: the handler must return
		p.Wait(mark, 150*time.Millisecond, func(e gw.Event) bool { return e.Cid == t.Cid && (e.Pt == "proc.exit" || e.Pt == "proc.step") })
		if s.Phase == "stalled" {
			// this client stays connected without reading: everybody else must still be served
			time.Sleep(300 * time.Millisecond)
			if !i.probe() || !i.probeTunnel(s.Script, rng) {
				othersStarved = true
			}
		}
		t.Close()
		if idx, _ := p.Wait(mark, 3*time.Second, func(e gw.Event) bool { return e.Cid == t.Cid && e.Pt == "proc.exit" }); idx < 0 {
			wedged = true
		}
		outcome = "closed-that-connection"
	case "legacy-order":
		cid = i.R.NextCid("lo")
		d := i.dialOpts(i.NewProtoCtx(s.Script, rng).OpenOpts(), cid)
		switch s.Cls {
		case "in-before-out", "in-only", "in-unknown-id", "no-id":
			if s.Cls == "no-id" {
				d.ConnID = ""
			}
			in, rep, err := wsraw.DialLegacyIn(d)
			if err == nil && in != nil {
				in.WriteChunk(make([]byte, 100))
				time.Sleep(5 * time.Millisecond)
				in.WriteChunk(tsgu.Handshake(1, 0, 0, 0))
				in.WaitEOF(300 * time.Millisecond)
				if s.Cls == "in-before-out" {
					if out, _, _ := wsraw.DialLegacyOut(d); out != nil {
						out.ReadSome(100 * time.Millisecond)
						out.Close()
					}
				}
				in.Close()
			} else if rep != nil {
				outcome = "error-reply"
			}
		case "out-only-many":
			// hundreds of RDG_OUT_DATA requests, each under an identifier of its own, none followed by RDG_IN_DATA, each
			// closed again before the next: afterwards tunnels of other clients are served as before (probe below)
			for k := 0; k < 300; k++ {
				dk := d
				dk.ConnID = i.R.NextCid("lo")
				if out, _, _ := wsraw.DialLegacyOut(dk); out != nil {
					out.Close()
				}
			}
			if !i.probeTunnel(s.Script, rng) {
				othersStarved = true
			}
		case "out-only-then-close":
			out, _, _ := wsraw.DialLegacyOut(d)
			if out != nil {
				out.ReadSome(50 * time.Millisecond)
				out.Reset()
			}
		case "out-twice":
			o1, _, _ := wsraw.DialLegacyOut(d)
			o2, _, _ := wsraw.DialLegacyOut(d)
			in, _, _ := wsraw.DialLegacyIn(d)
			if in != nil {
				in.WriteChunk(make([]byte, 100))
				time.Sleep(5 * time.Millisecond)
				in.WriteChunk(tsgu.Handshake(1, 0, 0, 0))
				in.WaitEOF(200 * time.Millisecond)
				in.Close()
			}
			for _, o := range []*wsraw.LegacyOut{o1, o2} {
				if o != nil {
					o.Close()
				}
			}
		case "in-twice":
			o1, _, _ := wsraw.DialLegacyOut(d)
			time.Sleep(10 * time.Millisecond)
			i1, _, _ := wsraw.DialLegacyIn(d)
			i2, _, _ := wsraw.DialLegacyIn(d)
			for _, in := range []*wsraw.LegacyIn{i1, i2} {
				if in != nil {
					in.WriteChunk(make([]byte, 100))
					time.Sleep(5 * time.Millisecond)
					in.WriteChunk(tsgu.Handshake(1, 0, 0, 0))
				}
			}
			time.Sleep(100 * time.Millisecond)
			for _, in := range []*wsraw.LegacyIn{i1, i2} {
				if in != nil {
					in.Close()
				}
			}
			if o1 != nil {
				o1.Close()
			}
		default:
			return fmt.Errorf("unknown legacy-order class %q", s.Cls)
		}
		time.Sleep(50 * time.Millisecond)
	case "authorization":
		val := map[string]string{"bare-ntlm": "NTLM", "bare-negotiate": "Negotiate", "bare-basic": "Basic", "embedded-scheme": "xNTLM", "one-char": "N",
			"long-garbage": "NTLM " + strings.Repeat("A", 70000), "ntlm-garbage": "NTLM " + base64.StdEncoding.EncodeToString(randBytes(rng, 40)),
			"basic-notbase64": "Basic %%%%", "negotiate-garbage": "Negotiate " + base64.StdEncoding.EncodeToString(randBytes(rng, 200)), "nul-bytes": "NTLM \x01\x02",
			// credentials the authentication service cannot even be asked about (they do not fit its message format), and
			// right credentials while the authentication service is away
			"basic-nonutf8":           "Basic " + base64.StdEncoding.EncodeToString([]byte([]string{"7:pw-7\xff", "7\xc0:pw-7", "\xff\xfe:\xfd"}[rng.Intn(3)])),
			"basic-authservice-away": "Basic " + base64.StdEncoding.EncodeToString([]byte("7:pw-7"))}[s.Cls]
		c, err := i.hdial()
		if err != nil {
			return err
		}
		cid = i.R.NextCid("az")
		rep, err := c.do("RDG_OUT_DATA", i.P.Addr, cid, [][2]string{{"Authorization", val}}, true)
		c.c.Close()
		if err != nil {
			outcome = "closed-that-connection"
			time.Sleep(10 * time.Millisecond)
		} else if rep.status >= 400 {
			outcome = "error-reply"
		}
	case "header":
		// headers the gateway's middleware reads on every request, before anything is authenticated: sent to the gateway
		// endpoint and to a web endpoint
		hdr := map[string][2]string{"xff-unknown": {"X-Forwarded-For", []string{"unknown", "UNKNOWN", "Unknown"}[rng.Intn(3)]}, "xff-commas": {"X-Forwarded-For", []string{",", ",,", ", ,"}[rng.Intn(3)]},
			"xff-unknown-list": {"X-Forwarded-For", []string{"unknown, unknown", "UNKNOWN,", ",unknown"}[rng.Intn(3)]}, "xff-blank-elements": {"X-Forwarded-For", " , , "},
			"xff-huge": {"X-Forwarded-For", strings.Repeat("10.0.0.1, ", 3000) + "10.0.0.2"}, "xff-nonaddress": {"X-Forwarded-For", []string{"[", "]:", "::::", "%", "1.2.3.4.5:x:y", "[::1"}[rng.Intn(6)]},
			"connid-empty": {"Rdg-Connection-Id", ""}, "connid-huge": {"Rdg-Connection-Id", strings.Repeat("{", 20000)}, "upgrade-other": {"Upgrade", "h2c"},
			"cookie-garbage": {"Cookie", "rdpgw-auth=" + strings.Repeat("%", 50) + "; =; ;;"}}[s.Cls]
		if hdr[0] == "" {
			return fmt.Errorf("unknown header class %q", s.Cls)
		}
		outcome = "error-reply"
		for _, target := range []string{"gateway", "connect", "tokeninfo"} {
			c, err := i.hdial()
			if err != nil {
				return err
			}
			var rep *hreply
			if target == "gateway" {
				cid = i.R.NextCid("hd")
				id := cid
				hs := [][2]string{hdr}
				if hdr[0] == "Rdg-Connection-Id" {
					id, hs = hdr[1], nil
				}
				rep, err = c.do("RDG_OUT_DATA", i.P.Addr, id, hs, s.Cls != "upgrade-other")
			} else {
				rep, err = c.get("/"+target, i.P.Addr, [][2]string{hdr})
			}
			c.c.Close()
			if err != nil {
				outcome = "closed-that-connection"
				time.Sleep(10 * time.Millisecond)
			} else if rep.status < 400 && outcome == "error-reply" {
				outcome = "served"
			}
		}
	case "ntlm-message":
		// through the gateway's NTLM front door into the real rdpgw-auth
		var msg []byte
		switch s.Cls {
		case "short-negotiate":
			msg = append([]byte("NTLMSSP\x00\x01\x00\x00\x00"), make([]byte, 4+rng.Intn(16))...)
		case "trunc-authenticate":
			msg = append([]byte("NTLMSSP\x00\x03\x00\x00\x00"), randBytes(rng, rng.Intn(40))...)
		case "bad-offsets":
			msg = append([]byte("NTLMSSP\x00\x03\x00\x00\x00"), make([]byte, 76)...)
			for k := 12; k < 60; k += 8 {
				copy(msg[k:], []byte{0xff, 0x7f, 0xff, 0x7f, 0xf0, 0xff, 0xff, 0x7f})
			}
		case "challenge-type":
			msg = append([]byte("NTLMSSP\x00\x02\x00\x00\x00"), randBytes(rng, 48)...)
		case "random":
			msg = randBytes(rng, 1+rng.Intn(200))
		case "sig-only":
			msg = []byte("NTLMSSP\x00")
		case "huge":
			msg = append([]byte("NTLMSSP\x00\x01\x00\x00\x00"), make([]byte, 60000)...)
		default:
			return fmt.Errorf("unknown ntlm-message class %q", s.Cls)
		}
		c, err := i.hdial()
		if err != nil {
			return err
		}
		cid = i.R.NextCid("nm")
		// a negotiate first (so that an authenticate-shaped message reaches the parser), then the hostile message
		_, neg := ntlmNegotiate()
		c.do("RDG_OUT_DATA", i.P.Addr, cid, [][2]string{{"Authorization", "NTLM " + neg}}, false)
		rep, err := c.do("RDG_OUT_DATA", i.P.Addr, cid, [][2]string{{"Authorization", "NTLM " + base64.StdEncoding.EncodeToString(msg)}}, false)
		c.c.Close()
		if err != nil {
			outcome = "closed-that-connection"
		} else if rep.status >= 400 {
			outcome = "error-reply"
		}
		time.Sleep(20 * time.Millisecond)
		if i.Auth != nil {
			authAlive = i.Auth.Alive()
			if !authAlive {
				// restart the service for the scripts that follow on this instance
				if a, err := i.R.StartAuthAt(i.Auth.Sock, i.Users); err == nil {
					i.Auth = a
				}
			}
		}
	case "kdcproxy", "web":
		var h *Hop
		var err error
		b := i.NewBrowser("", "")
		switch s.Cls {
		case "tokeninfo-garbage":
			h, err = b.Get(i.BaseURL() + "/tokeninfo?access_token=" + base64.RawURLEncoding.EncodeToString(randBytes(rng, 300)))
		case "connect-garbage-cookie":
			h, err = b.GetWith(i.BaseURL()+"/connect", [][2]string{{"Cookie", "RDPGWSESSION=" + base64.RawURLEncoding.EncodeToString(randBytes(rng, 200))}})
		case "callback-garbage":
			h, err = b.Get(i.BaseURL() + "/callback?state=" + strings.Repeat("z", 5000) + "&code=%00%ff")
		case "long-url":
			h, err = b.Get(i.BaseURL() + "/connect?host=" + strings.Repeat("h", 60000))
		case "metrics":
			h, err = b.Get(i.BaseURL() + "/metrics")
		case "anonymous-after-login", "stale-cookie-after-login":
			// somebody logs in and uses the session; then requests arrive with the session cookie of a browser that never
			// finished a login (or with one that a previous gateway process issued)
			if i.IdP == nil {
				h, err = b.Get(i.BaseURL() + "/connect")
				break
			}
			a := i.NewBrowser("", "")
			a.LoginID = i.IdP.Register(loginFor("ok", "user1"))
			if hops, e := a.Connect("", 6); e != nil || len(hops) == 0 {
				return fmt.Errorf("login failed: %v", e)
			}
			a.LoginID = ""
			if s.Cls == "anonymous-after-login" {
				b.Get(i.BaseURL() + "/connect") // leaves an anonymous session cookie in b's jar
			} else {
				u, _ := url.Parse(i.BaseURL())
				b.C.Jar.SetCookies(u, []*http.Cookie{{Name: "RDPGWSESSION", Value: "MTc5MDUxMjg3MXxEdi1CQkFFQ180SUFBUkFCRUFBQV9nRVRfNElBQVFaemRISnBibWNNQ2dBSWFXUmxiblJwZEhr", Path: "/"}})
			}
			for k := 0; k < 4; k++ {
				a.Get(i.BaseURL() + "/connect")
				h, err = b.Get(i.BaseURL() + "/connect")
				if err != nil || h == nil || h.Status <= 0 {
					break
				}
			}
		default:
			var body []byte
			switch s.Cls {
			case "random-der":
				body = randBytes(rng, 1+rng.Intn(300))
				body[0] = 0x30
			case "nested-deep":
				for k := 0; k < 2000; k++ {
					body = append(body, 0x30, 0x80)
				}
			case "empty":
				body = []byte{}
			case "huge-length":
				body = []byte{0x30, 0x84, 0xff, 0xff, 0xff, 0xff, 0x01}
			case "short-message":
				// a kerb-message of 0..3 bytes: shorter than the length prefix a KDC request starts with
				body, _ = asn1.Marshal(kdcProxyMsg{Message: randBytes(rng, rng.Intn(4))})
			case "trailing":
				body = []byte{0x30, 0x05, 0xa0, 0x03, 0x04, 0x01, 0x41, 0x00, 0x00}
			default:
				return fmt.Errorf("unknown class %q", s.Cls)
			}
			t0 := time.Now()
			st, _ := rawExchange(i.P.Addr, "POST", "/KdcProxy", body, false, 9*time.Second)
			if st <= 0 && time.Since(t0) > 8500*time.Millisecond && !i.P.TLS {
				// neither an answer nor the end of the connection within the time the proxy gives its KDCs plus slack:
				// the request is stuck in the gateway
				wedged = true
			}
			if i.P.TLS {
				st = 0 // rawExchange speaks plain TCP only; the kerberos instances run without TLS
			}
			h = &Hop{Status: st}
		}
		if err != nil || h == nil || h.Status <= 0 {
			outcome = "closed-that-connection"
			time.Sleep(10 * time.Millisecond)
		} else if h.Status >= 400 {
			outcome = "error-reply"
		}
	default:
		return fmt.Errorf("unknown entry point %q", s.Ep)
	}
	p.Sync(s.ID)
	time.Sleep(5 * time.Millisecond)
	panicked := len(p.Faults()) > faults0
	for _, e := range p.Since(mark) {
		if e.Panicking {
			panicked = true
		}
	}
	alive := p.Alive()
	probeOK := alive && i.probe() && !othersStarved
	if probeOK && s.Ep == "tunnel" {
		probeOK = i.probeTunnel(s.Script, rng)
	}
	cfg := i.Cfg
	tw.Line(M{"ev": "hostile", "script": s.ID, "ep": s.Ep, "cls": s.Cls, "phase": s.Phase, "cfg": M{"tls": cfg.Tls, "buffers": cfg.SendBuf > 0 || cfg.RecvBuf > 0, "auth": strings.Join(append([]string{cfg.Auth}, cfg.Auths...), "+")},
		"transport": s.Transport, "panicked": panicked, "alive": alive, "authAlive": authAlive, "probeOK": probeOK, "wedged": wedged, "outcome": outcome,
		"fault": trunc(strings.Join(p.Faults()[faults0:], " | "), 300)})
	if !alive {
		return fmt.Errorf("GATEWAY-DIED")
	}
	return nil
}

var _ = auth.NtlmRequest{}

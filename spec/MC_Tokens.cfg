SPECIFICATION Spec
CONSTANTS
  ATs = {"at1"}
  MaxMinted = 1
  MaxNow = 480
  Step = 120
CONSTRAINT Bound
INVARIANTS OnlyGatewayMinted OnlyUnexpired OnlyWhileIdpHonours LifetimeFiveMinutes FreshMintIsAccepted NeverAfterSixMinutes
CHECK_DEADLOCK FALSE

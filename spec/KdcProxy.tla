------------------------------- MODULE KdcProxy -------------------------------
(* The KDC proxy endpoint of rdpgw (cmd/rdpgw/kdcproxy): request validation,    *)
(* fan-out of the embedded Kerberos message to the KDCs of the realm, first     *)
(* reply wins, and an HTTP response for every request within the deadline.      *)
EXTENDS Integers, Sequences, FiniteSets, TLC

CONSTANTS KDCs,      \* KDC identities of the configured realm
          Deadline   \* ticks a KDC is waited for

Methods == {"POST", "GET"}
LenCls  == {"ok", "none", "big"}            \* Content-Length: fine, absent, > 128 KiB
Bodies  == {"valid", "notder", "trailing"}
Realms  == {"default", "configured", "unknown"}
\* what the same proxy served right before this request: nothing, a request for ANOTHER configured realm (which has a KDC
\* of its own), a request for an unknown realm.  No action below reads it: a request is routed by its own content.
After   == {"nothing", "other-realm", "unknown-realm", "many-unknown"}   \* many-unknown: dozens of requests for unknown realms
Behaviours == {"reply", "partial", "close", "silent", "refuse"}
\* size of the embedded Kerberos message: nothing, shorter than the 4-byte length prefix a datagram KDC
\* request must exceed, exactly 4, fits a datagram, larger than a datagram, just under the 128 KiB limit.
\* No action below reads it: the proxy has to treat every size alike.
SizeCls == {"s0", "s3", "s4", "s1400", "s60000", "smax"}

\* status the validation demands, 0 = the request is acceptable
Validate(method, len, body) ==
  IF method # "POST" THEN 405
  ELSE IF len = "none" THEN 411
  ELSE IF len = "big" THEN 413
  ELSE IF body # "valid" THEN 400
  ELSE 0

VARIABLES req,    \* [method, len, body, realm, size, after]
          foreign,  \* what the KDC of the other realm received of THIS request: "nothing" | "message"
          beh,    \* KDC -> behaviour
          got,    \* KDC -> what it received: "nothing" | "message" | "other"
          answered, \* KDCs whose complete reply has arrived at the proxy, in order of arrival
          clock, resp  \* resp: [status, reply] ; status 0 = not answered yet
vars == <<req, foreign, beh, got, answered, clock, resp>>

NoResp == [status |-> 0, reply |-> "none"]
Init == /\ req \in [method : Methods, len : LenCls, body : Bodies, realm : Realms, size : SizeCls, after : After]
        /\ foreign = "nothing"
        /\ beh \in [KDCs -> Behaviours]
        /\ got = [k \in KDCs |-> "nothing"] /\ answered = <<>> /\ clock = 0 /\ resp = NoResp

Acceptable == Validate(req.method, req.len, req.body) = 0
\* a KDC can frame (and therefore answer) only a request that carries at least the 4-byte length prefix
Framed(size) == size \notin {"s0", "s3"}
Known == req.realm \in {"default", "configured"}

Reject == /\ resp = NoResp /\ ~Acceptable
          /\ resp' = [status |-> Validate(req.method, req.len, req.body), reply |-> "none"]
          /\ UNCHANGED <<req, foreign, beh, got, answered, clock>>
UnknownRealm == /\ resp = NoResp /\ Acceptable /\ ~Known
                /\ resp' = [status |-> 503, reply |-> "none"]
                /\ UNCHANGED <<req, foreign, beh, got, answered, clock>>
\* the embedded message goes to KDC k exactly as embedded
Send(k) == /\ resp = NoResp /\ Acceptable /\ Known /\ got[k] = "nothing" /\ beh[k] # "refuse"
           /\ got' = [got EXCEPT ![k] = "message"]
           /\ UNCHANGED <<req, foreign, beh, answered, clock, resp>>
KdcAnswers(k) == /\ got[k] = "message" /\ beh[k] = "reply" /\ Framed(req.size) /\ k \notin {answered[i] : i \in 1..Len(answered)}
                 /\ answered' = Append(answered, k)
                 /\ UNCHANGED <<req, foreign, beh, got, clock, resp>>
Tick == /\ resp = NoResp /\ clock < Deadline /\ clock' = clock + 1 /\ UNCHANGED <<req, foreign, beh, got, answered, resp>>
\* first complete reply wins
Respond == /\ resp = NoResp /\ answered # <<>>
           /\ resp' = [status |-> 200, reply |-> answered[1]]
           /\ UNCHANGED <<req, foreign, beh, got, answered, clock>>
\* nobody answered in time (or nobody could be contacted)
GiveUp == /\ resp = NoResp /\ Acceptable /\ Known /\ answered = <<>>
          /\ (clock = Deadline \/ \A k \in KDCs : beh[k] \in {"refuse", "close", "partial"} /\ (beh[k] = "refuse" \/ got[k] = "message"))
          /\ resp' = [status |-> 503, reply |-> "none"]
          /\ UNCHANGED <<req, foreign, beh, got, answered, clock>>

Next == Reject \/ UnknownRealm \/ (\E k \in KDCs : Send(k) \/ KdcAnswers(k)) \/ Tick \/ Respond \/ GiveUp
Stutter == UNCHANGED vars
Spec == Init /\ [][Next]_vars /\ WF_vars(Reject) /\ WF_vars(UnknownRealm) /\ WF_vars(Tick) /\ WF_vars(Respond) /\ WF_vars(GiveUp)

\* C20
RejectedUntouched == (~Acceptable) => (\A k \in KDCs : got[k] = "nothing") /\ resp.status \in {0, 405, 411, 413, 400}
OnlyTheMessageIsSent == \A k \in KDCs : got[k] \in {"nothing", "message"}
OnlyToTheRealmsKdcs == foreign = "nothing"
ReplyIsAKdcReply == resp.status = 200 => (resp.reply \in KDCs /\ beh[resp.reply] = "reply" /\ got[resp.reply] = "message")
SuccessOnlyWhenAnswered == resp.status = 200 => answered # <<>> /\ resp.reply = answered[1]
AlwaysAnswers == <>(resp.status # 0)
ReachableKdcMeansSuccess == (Acceptable /\ Known /\ \E k \in KDCs : beh[k] = "reply") => <>(resp.status \in {200, 503})
=============================================================================

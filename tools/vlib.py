"""Shared machinery of the rdpgw verification checks: builds, TLC runs, trace
validation, evidence and known-findings handling.  Python 3 stdlib only."""
import json, os, re, shutil, subprocess, sys, time, hashlib, random

VERIF = os.path.dirname(os.path.dirname(os.path.abspath(__file__)))
REPO = os.environ.get("VERIF_REPO", "/repo")
SPEC = os.path.join(VERIF, "spec")
HARNESS = os.path.join(VERIF, "harness")
WORKROOT = os.path.join(VERIF, ".work")
BIN = os.path.join(WORKROOT, "bin")

GOENV = dict(os.environ, GOFLAGS="-mod=mod", GOPROXY="off", GOSUMDB="off", GOTOOLCHAIN="local")


class HarnessError(Exception):
    """Anything that is not a verdict: tool failure, timeout, dead driver."""


def log(*a):
    print("[verif]", *a, file=sys.stderr, flush=True)


def sh(cmd, cwd=None, env=None, timeout=None, check=True):
    p = subprocess.run(cmd, cwd=cwd, env=env, timeout=timeout, stdout=subprocess.PIPE, stderr=subprocess.STDOUT, text=True)
    if check and p.returncode != 0:
        raise HarnessError("command failed (%d): %s\n%s" % (p.returncode, " ".join(cmd), p.stdout[-4000:]))
    return p


class Work:
    """Per-run scratch directory under /verif/.work, removed at exit."""

    def __init__(self, name):
        self.dir = os.path.join(WORKROOT, "%s-%d" % (name, os.getpid()))
        shutil.rmtree(self.dir, ignore_errors=True)
        os.makedirs(self.dir, exist_ok=True)

    def path(self, *p):
        return os.path.join(self.dir, *p)

    def sub(self, name):
        d = self.path(name)
        os.makedirs(d, exist_ok=True)
        return d

    def cleanup(self):
        shutil.rmtree(self.dir, ignore_errors=True)


# ------------------------------------------------------------------ builds

def build_all(race=False, quiet=True):
    """(Re)build the gateway (with hooks), the auth service (PAM stub) and the
    driver from /repo's current working tree. The Go build cache makes this a
    no-op when nothing changed."""
    os.makedirs(BIN, exist_ok=True)
    t0 = time.time()
    shutil.copyfile(os.path.join(REPO, "go.sum"), os.path.join(HARNESS, "go.sum"))
    sh(["go", "build", "-tags", "verif", "-o", os.path.join(BIN, "rdpgw"), "./cmd/rdpgw"], cwd=REPO, env=GOENV, timeout=900)
    if race:
        sh(["go", "build", "-race", "-tags", "verif", "-o", os.path.join(BIN, "rdpgw-race"), "./cmd/rdpgw"], cwd=REPO, env=GOENV, timeout=1800)
    modf = os.path.join(WORKROOT, "auth.mod")
    with open(os.path.join(REPO, "go.mod")) as f:
        mod = f.read()
    with open(modf, "w") as f:
        f.write(mod + "\nreplace github.com/msteinert/pam/v2 => %s\n" % os.path.join(VERIF, "stubs", "pam"))
    shutil.copyfile(os.path.join(REPO, "go.sum"), os.path.join(WORKROOT, "auth.sum"))
    sh(["go", "build", "-tags", "verif", "-modfile=" + modf, "-o", os.path.join(BIN, "rdpgw-auth"), "./cmd/auth"], cwd=REPO, env=GOENV, timeout=900)
    sh(["go", "build", "-tags", "verif", "-o", os.path.join(BIN, "vdrv"), "./cmd/vdrv"], cwd=HARNESS, env=GOENV, timeout=900)
    if not quiet:
        log("build %.1fs" % (time.time() - t0))


# ------------------------------------------------------------------ TLC

TLC_JAR = "/opt/veriftools/tla/tla2tools.jar:/opt/veriftools/tla/CommunityModules-deps.jar"


def tlc(module, cfg, work, workers=4, timeout=600, extra=None, env=None, heap="4g", tag=None):
    """Run TLC on spec/<module>.tla with spec/<cfg>. Returns a dict with the
    raw output and the parsed statistics."""
    tag = tag or (module + "-" + os.path.splitext(os.path.basename(cfg))[0])
    d = work.sub("tlc-" + tag)
    for f in os.listdir(SPEC):
        if f.endswith(".tla") or f.endswith(".cfg"):
            shutil.copyfile(os.path.join(SPEC, f), os.path.join(d, f))
    tmp = os.path.join(d, "tmp")
    os.makedirs(tmp, exist_ok=True)
    e = dict(os.environ)
    e["JAVA_TOOL_OPTIONS"] = "-Djava.io.tmpdir=" + tmp
    if env:
        e.update(env)
    cmd = ["java", "-XX:+UseParallelGC", "-Xmx" + heap, "-Xss64m", "-cp", TLC_JAR, "tlc2.TLC",
           "-workers", str(workers), "-metadir", os.path.join(d, "meta"), "-config", cfg]
    if not (extra and "-fp" in extra):
        # a fixed fingerprint function: the identifiers of the dumped state graphs - and with them every sample drawn
        # from one - are the same in every run with the same VERIF_SEED (TLC's default is a random one per run)
        cmd += ["-fp", "0"]
    if extra:
        cmd += extra
    cmd += [module + ".tla"]
    t0 = time.time()
    try:
        p = subprocess.run(cmd, cwd=d, env=e, timeout=timeout, stdout=subprocess.PIPE, stderr=subprocess.STDOUT, text=True)
    except subprocess.TimeoutExpired:
        raise HarnessError("TLC timed out after %ds on %s/%s" % (timeout, module, cfg))
    out = p.stdout
    r = {"out": out, "rc": p.returncode, "wall_s": time.time() - t0, "dir": d, "cmd": " ".join(cmd[:1] + ["..."] + cmd[-5:])}
    m = re.search(r"(\d+) states generated, (\d+) distinct states found, (\d+) states left", out)
    if m:
        r["generated"], r["distinct"], r["left"] = int(m.group(1)), int(m.group(2)), int(m.group(3))
    m = re.search(r"depth of the complete state graph search is (\d+)", out)
    if m:
        r["depth"] = int(m.group(1))
    r["ok"] = "Model checking completed. No error has been found." in out
    r["violated"] = re.findall(r"Error: Invariant (\S+) is violated", out) + re.findall(r"Error: Action property (\S+) is violated", out) \
        + (["temporal"] if "Temporal properties were violated" in out else [])
    r["postcondition_failed"] = "POSTCONDITION" in out and "violated" in out.split("POSTCONDITION")[-1][:200]
    return r


def design_check(module, cfg, work, workers=8, timeout=600, extra=None):
    """Exhaustive check of a system specification; a violated invariant in the
    specification itself is a defect of the machinery, never a verdict."""
    r = tlc(module, cfg, work, workers=workers, timeout=timeout, extra=extra)
    if not r["ok"]:
        raise HarnessError("design check %s/%s failed:\n%s" % (module, cfg, tail_errors(r["out"])))
    return r


def tail_errors(out):
    lines = [l for l in out.splitlines() if not re.match(r"^(Parsing|Semantic|Linting)", l)]
    return "\n".join(lines[-60:])


def trace_check(module, cfg, trace_path, work, tag, timeout=900, heap="8g"):
    """Validate a recorded trace with the trace specification. Returns the
    VERIF_RESULT record printed by the specification."""
    r = tlc(module, cfg, work, workers=1, timeout=timeout, env={"TRACE": trace_path}, heap=heap, tag=tag)
    m = re.search(r'<<"VERIF_RESULT", "(.*)">>', r["out"])
    if not m:
        raise HarnessError("trace specification %s did not consume the whole trace %s (malformed or unknown event):\n%s"
                           % (module, trace_path, tail_errors(r["out"])))
    s = m.group(1).replace('\\"', '"')
    try:
        res = json.loads(s)
    except Exception as ex:
        raise HarnessError("cannot parse VERIF_RESULT: %s: %s" % (ex, s[:300]))
    if not r["ok"]:
        raise HarnessError("trace check %s reported a TLC error:\n%s" % (module, tail_errors(r["out"])))
    res["_tlc"] = {k: r.get(k) for k in ("generated", "distinct", "depth", "wall_s")}
    return res


# ------------------------------------------------------------------ dot graphs

REC_TOKEN = re.compile(r'\s*(\[|\]|\{|\}|\|->|,|<<|>>|"(?:[^"\\]|\\.)*"|-?\d+|TRUE|FALSE|[A-Za-z_][A-Za-z0-9_]*)')


def parse_tla_value(s):
    """Parse a TLA+ value printed by TLC (records, tuples, strings, ints, booleans)."""
    toks = REC_TOKEN.findall(s)
    pos = [0]

    def val():
        t = toks[pos[0]]
        pos[0] += 1
        if t == "[":
            rec = {}
            while toks[pos[0]] != "]":
                k = toks[pos[0]]
                pos[0] += 1
                assert toks[pos[0]] == "|->", toks[pos[0] - 2:pos[0] + 2]
                pos[0] += 1
                rec[k] = val()
                if toks[pos[0]] == ",":
                    pos[0] += 1
            pos[0] += 1
            return rec
        if t == "{":
            arr = []
            while toks[pos[0]] != "}":
                arr.append(val())
                if toks[pos[0]] == ",":
                    pos[0] += 1
            pos[0] += 1
            return arr
        if t == "<<":
            arr = []
            while toks[pos[0]] != ">>":
                arr.append(val())
                if toks[pos[0]] == ",":
                    pos[0] += 1
            pos[0] += 1
            return arr
        if t.startswith('"'):
            return t[1:-1]
        if t == "TRUE":
            return True
        if t == "FALSE":
            return False
        if re.match(r"-?\d+$", t):
            return int(t)
        return t
    return val()


def parse_dot(path):
    """Return (nodes: id->label, roots: [id], edges: [(src, dst, action, [args])])."""
    nodes, roots, edges = {}, [], []
    node_re = re.compile(r'^(-?\d+) \[label="(.*)"(,style = filled)?\];?$')
    edge_re = re.compile(r'^(-?\d+) -> (-?\d+) \[label="(.*?)",color=')
    with open(path) as f:
        for line in f:
            line = line.rstrip("\n")
            m = edge_re.match(line)
            if m:
                lab = m.group(3).replace('\\"', '"').replace("\\n", " ")
                am = re.match(r"^([A-Za-z_0-9]+)(?:\((.*)\))?$", lab)
                act, args = (am.group(1), am.group(2)) if am else (lab, None)
                edges.append((m.group(1), m.group(2), act, args))
                continue
            m = node_re.match(line)
            if m:
                lab = m.group(2).replace('\\"', '"').replace("\\n", "\n").replace("\\\\", "\\")
                if m.group(1) not in nodes:
                    nodes[m.group(1)] = lab
                    if m.group(3):
                        roots.append(m.group(1))
    return nodes, roots, edges


def state_vars(label):
    """Split a TLC state label '/\\ v = value' into {var: text}."""
    out = {}
    for part in re.split(r"(?:^|\n)/\\ ", label):
        part = part.strip()
        if not part:
            continue
        k, _, v = part.partition(" = ")
        out[k.strip()] = v.strip()
    return out


# ------------------------------------------------------------------ driver

def run_driver(cmd, work, scripts=None, out=None, seed=1, jobs=12, tier="quick", n=None, timeout=None, gw="rdpgw", extra=None, tag=None):
    tag = tag or cmd
    if timeout is None:
        timeout = 480 if tier == "quick" else 5400
    rep = work.path("report-%s.json" % tag)
    args = [os.path.join(BIN, "vdrv"), cmd, "--work", work.sub("drv-" + tag), "--gw", os.path.join(BIN, gw),
            "--auth", os.path.join(BIN, "rdpgw-auth"), "--seed", str(seed), "--jobs", str(jobs), "--tier", tier, "--report", rep,
            "--watchdog", str(max(60, timeout - 30))]
    if scripts:
        args += ["--scripts", scripts]
    if out:
        args += ["--out", out]
    if n is not None:
        args += ["--n", str(n)]
    if extra:
        args += extra
    hookdir = work.sub("hooklog-" + tag)
    for f in os.listdir(hookdir):
        os.remove(os.path.join(hookdir, f))
    try:
        p = subprocess.run(args, timeout=timeout, stdout=subprocess.PIPE, stderr=subprocess.STDOUT, text=True, env=dict(os.environ, VDRV_HOOKLOG=hookdir))
    except subprocess.TimeoutExpired:
        raise HarnessError("driver %s timed out after %ds" % (cmd, timeout))
    if not os.path.exists(rep):
        raise HarnessError("driver %s produced no report (rc=%d):\n%s" % (cmd, p.returncode, p.stdout[-12000:] if p.returncode == 3 else p.stdout[-3000:]))
    with open(rep) as f:
        r = json.load(f)
    if r.get("errors"):
        raise HarnessError("driver %s reported harness errors (%d), first:\n%s" % (cmd, len(r["errors"]), "\n---\n".join(e[-6000:] for e in r["errors"][:2])))
    lc = lifecycle_check(work, hookdir, tag)
    if lc is not None:
        r["lifecycle"] = lc
        LIFECYCLE_RUNS.append({"tag": tag, "result": lc,
                               "again": dict(cmd=cmd, scripts=scripts, out=(out + ".again") if out else None, seed=seed, jobs=jobs, tier=tier, n=n, timeout=timeout, gw=gw, extra=extra, tag=tag + "-lcagain")})
    return r


# ------------------------------------------------------------------ lifecycle (hook event logs of whole gateway processes)

LIFECYCLE_RUNS = []


def lifecycle_check(work, hookdir, tag):
    """Replay the hook event logs the driver's gateway instances left behind through the Lifecycle trace
    specification. Returns {events, instances, viol: [[line, guard, point, role]...], cover} or None."""
    files = sorted(f for f in os.listdir(hookdir) if f.endswith(".ndjson"))
    if not files:
        return None
    # the logs of the gateway processes are independent of each other (each starts with a reset line): they are validated
    # in chunks of at most ~400 000 events per TLC run
    chunks, cur, curn = [], [], 0
    for f in files:
        with open(os.path.join(hookdir, f)) as i:
            n = sum(1 for _ in i)
        if cur and curn + n > 400000:
            chunks.append(cur)
            cur, curn = [], 0
        cur.append(f)
        curn += n
    if cur:
        chunks.append(cur)
    total, viol, cover, paths, tlcs = 0, [], [], [], []
    for ci, ch in enumerate(chunks):
        path = work.path("lifecycle-%s%s.ndjson" % (tag, "" if len(chunks) == 1 else "-%d" % ci))
        n = 0
        with open(path, "w") as o:
            for f in ch:
                with open(os.path.join(hookdir, f)) as i:
                    for line in i:
                        o.write(line)
                        n += 1
                os.remove(os.path.join(hookdir, f))
        res = trace_check("LifecycleTrace", "LifecycleTrace.cfg", path, work, tag="lc-%s-%d" % (tag, ci), timeout=1800, heap="12g")
        total += n
        viol += [[v[0], v[1], v[2], v[3], ci] for v in res["viol"]]
        cover += [c for c in res["cover"] if c not in cover]
        paths.append(path)
        tlcs.append(res["_tlc"])
        if len(chunks) > 1 and not res["viol"]:
            os.remove(path)
    return {"events": total, "instances": len(files), "viol": viol, "cover": cover, "trace": paths[0] if paths else None, "traces": paths, "tlc": tlcs[0] if tlcs else None, "chunks": len(chunks)}


def lifecycle_violations(pid, work):
    """Violations of pid's guards found by the Lifecycle trace specification in the driver runs of this
    process, confirmed by executing the same driver run once more; plus a coverage summary."""
    sigof = lambda v: "%s/lifecycle/%s/%s" % (v[1], v[2], v[3])
    summary = {"events": sum(r["result"]["events"] for r in LIFECYCLE_RUNS), "gateway_processes": sum(r["result"]["instances"] for r in LIFECYCLE_RUNS),
               "hook_points_seen": sorted({"%s/%s" % tuple(c) for r in LIFECYCLE_RUNS for c in r["result"]["cover"]}),
               "guards_of_other_properties_violated": sorted({v[1] for r in LIFECYCLE_RUNS for v in r["result"]["viol"] if guard_property(v[1]) != pid}),
               "rule": "every hook event of every gateway process of this check, in the gateway's own order, replayed through Lifecycle.tla's effects; each precondition of the corresponding action is evaluated (LifecycleTrace)"}
    out = []
    runs = list(LIFECYCLE_RUNS)
    for r in runs:
        mine = [v for v in r["result"]["viol"] if guard_property(v[1]) == pid]
        if not mine:
            continue
        a = r["again"]
        rep2 = run_driver(a["cmd"], work, scripts=a["scripts"], out=a["out"], seed=a["seed"], jobs=a["jobs"], tier=a["tier"], n=a["n"], timeout=a["timeout"], gw=a["gw"], extra=a["extra"], tag=a["tag"])
        LIFECYCLE_RUNS.pop()   # the confirmation run is not a run of its own
        seen2 = {sigof(v) for v in (rep2.get("lifecycle") or {}).get("viol", [])}
        confirmed = sorted({sigof(v) for v in mine} & seen2)
        if not confirmed:
            raise HarnessError("lifecycle violations of %s did not reproduce: %s" % (pid, sorted({sigof(v) for v in mine})[:5]))
        for sig in confirmed:
            v = next(x for x in mine if sigof(x) == sig)
            tp = (r["result"].get("traces") or [r["result"]["trace"]])[v[4] if len(v) > 4 else 0]
            lines = read_ndjson(tp) if tp and os.path.exists(tp) else []
            ctx = lines[max(0, v[0] - 8):v[0]] if lines else []
            out.append({"signature": sig, "what": "%s does not hold at hook event %s (goroutine role %s): the gateway took a step the Lifecycle specification does not allow" % (v[1], v[2], v[3]),
                        "guard": v[1], "events_before": ctx, "replay": "re-run this check (the driver run %s)" % r["tag"]})
    return out, summary


# ------------------------------------------------------------------ findings / evidence

def load_known():
    p = os.path.join(VERIF, "known_findings.json")
    if not os.path.exists(p):
        return []
    with open(p) as f:
        return json.load(f)


def write_evidence(pid, tier, seed, coverage, wall_s, violations, assumptions, level="model_checking"):
    os.makedirs(os.path.join(VERIF, "evidence"), exist_ok=True)
    ev = {"property_id": pid, "tier": tier, "seed": int(seed), "level": level, "coverage": coverage,
          "assumptions": assumptions, "wall_s": round(wall_s, 2), "violations": int(violations)}
    with open(os.path.join(VERIF, "evidence", pid + ".json"), "w") as f:
        json.dump(ev, f, indent=1, sort_keys=True)
    return ev


def save_replay(pid, name, obj):
    d = os.path.join(VERIF, "replays", pid)
    os.makedirs(d, exist_ok=True)
    p = os.path.join(d, name + ".json")
    with open(p, "w") as f:
        json.dump(obj, f, indent=1)
    return p


def guard_property(g):
    m = re.match(r"G_(C\d+)_", g)
    return m.group(1) if m else None


def write_ndjson(path, items):
    with open(path, "w") as f:
        for it in items:
            f.write(json.dumps(it, separators=(",", ":")) + "\n")


def read_ndjson(path):
    out = []
    with open(path) as f:
        for l in f:
            l = l.strip()
            if l:
                out.append(json.loads(l))
    return out


def stable_hash(s):
    return int(hashlib.sha256(s.encode()).hexdigest()[:12], 16)

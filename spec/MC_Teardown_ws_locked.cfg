SPECIFICATION Spec
CONSTANTS
  LockedSteps = {"Unregister"} Transport = "ws"
INVARIANTS NothingBeforeTheEnd GaugeNeverNegative
PROPERTIES EndingReleasesEverything
CHECK_DEADLOCK FALSE

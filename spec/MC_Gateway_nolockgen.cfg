SPECIFICATION Spec
CONSTANTS
  T = {"t1", "t2"}
  Legacy = {"t2"}
  MaxWrites = 1
  Serialised = FALSE
CHECK_DEADLOCK FALSE

------------------------------ MODULE MC_Redir ------------------------------
(* C16: the redirect flag word for all 2^7 switch combinations, and the idle   *)
(* timeout encoding for the int32 classes.                                     *)
EXTENDS TSGU, TLC
VARIABLES r, n
Idles == {-2147483647 - 1, -65536, -1, 0, 1, 30, 65535, 65536, 2147483647}
Init == r \in RedirCfgs /\ n \in Idles
Next == UNCHANGED <<r, n>>
Spec == Init /\ [][Next]_<<r, n>>
Dev == <<[f |-> "drive", bit |-> 1], [f |-> "printer", bit |-> 2], [f |-> "port", bit |-> 4], [f |-> "clipboard", bit |-> 8], [f |-> "pnp", bit |-> 16]>>
Enabled(d) == CASE d = "drive" -> r.drive [] d = "printer" -> r.printer [] d = "port" -> r.port [] d = "clipboard" -> r.clipboard [] d = "pnp" -> r.pnp
RedirectableIffEnabled ==
  \A i \in 1..Len(Dev) : Redirectable(RedirFlags(r), Dev[i].bit) <=> (~r.disableAll /\ (r.enableAll \/ Enabled(Dev[i].f)))
DisableAllWins == r.disableAll => RedirFlags(r) = <<16384, 0>>
EnableAllReported == (r.enableAll /\ ~r.disableAll) => RedirFlags(r) = <<32768, 0>>
IdleNonNegative == IdleOf(n) = (IF n < 0 THEN <<0, 0>> ELSE <<n \div 65536, n % 65536>>) /\ IdleOf(n)[1] \in 0..32767 /\ IdleOf(n)[2] \in 0..65535
=============================================================================

package drv

import (
	"context"
	"fmt"
	"math/rand"
	"net/http"
	"net/http/httptest"
	"net/url"
	"os"
	"path/filepath"
	"reflect"
	"sort"
	"strconv"
	"strings"

	"github.com/bolkedebruin/rdpgw/cmd/rdpgw/identity"
	"github.com/bolkedebruin/rdpgw/cmd/rdpgw/rdp"
	rdpparser "github.com/bolkedebruin/rdpgw/cmd/rdpgw/rdp/koanf/parsers/rdp"
	"github.com/bolkedebruin/rdpgw/cmd/rdpgw/web"
)

var rdpSym = map[string]string{"SP": " ", "CR": "\r", "LF": "\n", "COL": ":", "HASH": "#", "k": "k", "i": "i", "s": "s", "b": "b", "1": "1", "-": "-", "E": "é"}

func rdpAbs(s string) []string {
	out := []string{}
	rev := map[rune]string{}
	for k, v := range rdpSym {
		rev[[]rune(v)[0]] = k
	}
	for _, r := range s {
		if k, ok := rev[r]; ok {
			out = append(out, k)
		} else {
			out = append(out, fmt.Sprintf("?%x", r))
		}
	}
	return out
}

// parseEvent runs the real reader on text (symbols) and abstracts the result.
func parseEvent(text []string, cls string) M {
	var sb strings.Builder
	for _, s := range text {
		sb.WriteString(rdpSym[s])
	}
	ev := M{"ev": "parse", "cls": cls, "text": text, "ok": false, "m": [][]interface{}{}, "panic": false}
	func() {
		defer func() {
			if r := recover(); r != nil {
				ev["panic"] = true
			}
		}()
		m, err := rdpparser.Parser().Unmarshal([]byte(sb.String()))
		if err != nil {
			return
		}
		ev["ok"] = true
		keys := make([]string, 0, len(m))
		for k := range m {
			keys = append(keys, k)
		}
		sort.Strings(keys)
		var out [][]interface{}
		for _, k := range keys {
			switch v := m[k].(type) {
			case int:
				out = append(out, []interface{}{rdpAbs(k), "int", rdpAbs(strconv.Itoa(v))})
			case string:
				out = append(out, []interface{}{rdpAbs(k), "str", rdpAbs(v)})
			default:
				out = append(out, []interface{}{rdpAbs(k), fmt.Sprintf("%T", v), []string{}})
			}
		}
		if out == nil {
			out = [][]interface{}{}
		}
		ev["m"] = out
	}()
	return ev
}

// fileShape inspects a generated file: CRLF termination, malformed and duplicate lines.
func fileShape(text string) (crlf bool, malformed, dups int, settings map[string]string) {
	settings = map[string]string{}
	crlf = text == "" || strings.HasSuffix(text, "\r\n")
	body := strings.TrimSuffix(text, "\r\n")
	if text == "" {
		return
	}
	for _, ln := range strings.Split(body, "\r\n") {
		if strings.ContainsAny(ln, "\r\n") {
			crlf = false
		}
		p := strings.SplitN(ln, ":", 3)
		if len(p) != 3 || (p[1] != "i" && p[1] != "s" && p[1] != "b") {
			malformed++
			continue
		}
		if _, ok := settings[p[0]]; ok {
			dups++
		}
		settings[p[0]] = p[2]
	}
	return
}

func nonDefaultValue(f reflect.Value, rng *rand.Rand) {
	switch f.Kind() {
	case reflect.Bool:
		f.SetBool(!f.Bool())
	case reflect.Int:
		// small values and values at and beyond the edges of 32 bits (the setting is an int: what was put in comes out)
		edge := []int64{1 << 31, 1<<31 - 1, 1<<32 - 1, 1 << 32, -(1 << 31) - 1, -(1 << 31), 1 << 40, -1}
		if rng.Intn(3) == 0 {
			f.SetInt(edge[rng.Intn(len(edge))])
		} else {
			f.SetInt(f.Int() + int64(1+rng.Intn(5000)))
		}
	case reflect.String:
		vals := []string{"value", "with:colon:s", "späce and ünicode", "C:\\path\\x.exe /arg:1", "a", strings.Repeat("L", 3000+rng.Intn(1000)), "*", "0", "true"}
		for {
			v := vals[rng.Intn(len(vals))]
			if v != f.String() {
				f.SetString(v)
				return
			}
		}
	}
}

// RunRdp produces the C19 trace.
func RunRdp(tw *TraceWriter, rng *rand.Rand, tier string, work string) (M, error) {
	// ---- (1) the reader on every text over the alphabet up to a length
	full := []string{"SP", "CR", "LF", "COL", "HASH", "k", "i", "s", "1", "-", "E", "b"}
	small := []string{"COL", "SP", "k", "i", "1", "LF"}
	nFull, nSmall := 3, 5
	if tier == "thorough" {
		nFull, nSmall = 5, 7
	}
	count := 0
	var enum func(alpha []string, n int, cur []string, cls string)
	enum = func(alpha []string, n int, cur []string, cls string) {
		tw.Line(parseEvent(append([]string{}, cur...), cls))
		count++
		if len(cur) == n {
			return
		}
		for _, a := range alpha {
			enum(alpha, n, append(cur, a), cls)
		}
	}
	enum(full, nFull, nil, "full")
	enum(small, nSmall, nil, "small")
	// structured longer texts: lines assembled from fragments
	frags := [][]string{{"k", "COL", "i", "COL", "1"}, {"k", "COL", "s", "COL"}, {"i", "COL", "s", "COL", "k", "COL", "k"}, {"HASH", "k"}, {"k", "COL", "i", "COL", "-"},
		{"k", "COL", "i", "COL", "-", "1", "1"}, {"SP", "k", "SP", "COL", "SP", "s", "SP", "COL", "SP", "E", "SP"}, {"k", "COL", "k", "COL", "1"}, {"k", "COL"}, {"COL", "s", "COL", "1"}, {}, {"k", "COL", "b", "COL", "1"}, {"k", "k", "COL", "i", "COL", "1", "SP", "1"}}
	seps := [][]string{{"LF"}, {"CR", "LF"}, {"CR"}, {"LF", "LF"}}
	nl := 300
	if tier == "thorough" {
		nl = 20000
	}
	for k := 0; k < nl; k++ {
		t := []string{}
		for j := 0; j < 1+rng.Intn(4); j++ {
			t = append(t, frags[rng.Intn(len(frags))]...)
			if rng.Intn(5) > 0 {
				t = append(t, seps[rng.Intn(len(seps))]...)
			}
		}
		tw.Line(parseEvent(t, "lines"))
		count++
	}
	// ---- (2) writer/reader round trip on random settings maps
	nm := 200
	if tier == "thorough" {
		nm = 5000
	}
	for k := 0; k < nm; k++ {
		m := map[string]interface{}{}
		for j := 0; j < rng.Intn(8); j++ {
			key := []string{"full address", "k", "a b", "key" + strconv.Itoa(j), "ünï", "x-y_z"}[rng.Intn(6)]
			switch rng.Intn(3) {
			case 0:
				m[key] = rng.Intn(1<<31) - (1 << 30)
			case 1:
				m[key] = []string{"v", "a:b:c", "::", "späce", "x y", "", strings.Repeat("w", rng.Intn(4000)), "#notcomment", "i:1"}[rng.Intn(9)]
			default:
				m[key] = []int{0, 1, -1}[rng.Intn(3)]
			}
		}
		b, err := rdpparser.Parser().Marshal(m)
		equal := false
		crlf, _, _, _ := fileShape(string(b))
		if err == nil {
			back, err2 := rdpparser.Parser().Unmarshal(b)
			equal = err2 == nil && reflect.DeepEqual(map[string]interface{}(back), m) || (err2 == nil && len(m) == 0 && len(back) == 0)
		}
		tw.Line(M{"ev": "roundtrip", "cls": "map", "equal": equal, "crlf": crlf, "n": len(m)})
		count++
	}
	// ---- (3) the builder: every setting non-default alone, and random combinations
	runBuilder := func(cls string, mutate func(v reflect.Value, touched map[string]bool)) error {
		b := rdp.NewBuilder()
		def := rdp.NewBuilder()
		v := reflect.ValueOf(&b.Settings).Elem()
		touched := map[string]bool{}
		mutate(v, touched)
		text := b.String()
		crlf, malformed, _, _ := fileShape(text)
		fn := filepath.Join(work, fmt.Sprintf("rt-%d.rdp", rng.Int63()))
		if err := os.WriteFile(fn, []byte(text), 0600); err != nil {
			return err
		}
		defer os.Remove(fn)
		back, err := rdp.NewBuilderFromFile(fn)
		settingsEqual := err == nil && reflect.DeepEqual(back.Settings, b.Settings)
		tw.Line(M{"ev": "file", "cls": cls, "crlf": crlf, "malformed": malformed, "settingsEqual": settingsEqual, "nlines": strings.Count(text, "\r\n")})
		count++
		t := v.Type()
		dv := reflect.ValueOf(&def.Settings).Elem()
		for i := 0; i < t.NumField(); i++ {
			name := t.Field(i).Tag.Get("rdp")
			lines := 0
			for _, ln := range strings.Split(text, "\r\n") {
				if strings.HasPrefix(ln, name+":") {
					lines++
				}
			}
			nonDefault := !reflect.DeepEqual(v.Field(i).Interface(), dv.Field(i).Interface())
			backEqual := err == nil && reflect.DeepEqual(reflect.ValueOf(back.Settings).Field(i).Interface(), v.Field(i).Interface())
			if !touched[t.Field(i).Name] && cls != "single" {
				continue
			}
			tw.Line(M{"ev": "field", "cls": cls, "name": name, "kind": v.Field(i).Kind().String(), "nonDefault": nonDefault, "lines": lines, "backEqual": backEqual})
			count++
		}
		return nil
	}
	nf := reflect.TypeOf(rdp.RdpSettings{}).NumField()
	for i := 0; i < nf; i++ {
		idx := i
		if err := runBuilder("single", func(v reflect.Value, touched map[string]bool) {
			nonDefaultValue(v.Field(idx), rng)
			touched[v.Type().Field(idx).Name] = true
		}); err != nil {
			return nil, err
		}
	}
	nc := 60
	if tier == "thorough" {
		nc = 1500
	}
	for k := 0; k < nc; k++ {
		if err := runBuilder("combo", func(v reflect.Value, touched map[string]bool) {
			for i := 0; i < nf; i++ {
				if rng.Intn(4) == 0 {
					nonDefaultValue(v.Field(i), rng)
					touched[v.Type().Field(i).Name] = true
				}
			}
		}); err != nil {
			return nil, err
		}
	}
	// ---- (4) templates: malformed lines are rejected, known settings kept, gateway-controlled ones forced
	// an integer too large for any int is a malformed line (rejected), not some other number
	for _, num := range []string{"99999999999999999999999999", "-99999999999999999999999999", "9223372036854775808"} {
		fn := filepath.Join(work, fmt.Sprintf("tmpl-big-%d.rdp", rng.Int63()))
		os.WriteFile(fn, []byte("desktopwidth:i:"+num+"\r\n"), 0600)
		_, err := rdp.NewBuilderFromFile(fn)
		os.Remove(fn)
		tw.Line(M{"ev": "template", "cls": "tmpl", "text": []string{"k", "COL", "i", "COL", "k", "LF"}, "rejected": err != nil})
		count++
	}
	tmplTexts := [][]string{{"k", "COL", "i", "COL", "1", "CR", "LF"}, {"k", "COL", "i", "COL", "k", "LF"}, {"k", "COL", "1", "LF"}, {"k", "LF"}, {"HASH", "k", "LF", "k", "COL", "s", "COL", "k", "LF"},
		{"k", "COL", "s", "COL", "k", "LF", "k", "k", "LF"}, {"COL", "COL", "LF"}, {"k", "COL", "k", "COL", "k", "LF"}, {"LF", "LF"}, {}}
	for _, tt := range tmplTexts {
		var sb strings.Builder
		for _, s := range tt {
			sb.WriteString(rdpSym[s])
		}
		fn := filepath.Join(work, fmt.Sprintf("tmpl-%d.rdp", rng.Int63()))
		os.WriteFile(fn, []byte(sb.String()), 0600)
		_, err := rdp.NewBuilderFromFile(fn)
		os.Remove(fn)
		tw.Line(M{"ev": "template", "cls": "tmpl", "text": tt, "rejected": err != nil})
		count++
	}
	nd := 40
	if tier == "thorough" {
		nd = 600
	}
	for k := 0; k < nd; k++ {
		evs, err := downloadEvents(rng, work)
		if err != nil {
			return nil, err
		}
		for _, ev := range evs {
			tw.Line(ev)
			count++
		}
	}
	return M{"events": count}, nil
}

// downloadEvents renders connection files through the real download handler with an administrator template: one handler
// serves several requests of different users one after the other (what a file holds depends on the template and on its
// own request only, never on who downloaded before), and every file is checked for the gateway-controlled settings.
func downloadEvents(rng *rand.Rand, work string) ([]M, error) {
	tmpl := map[string]string{}
	controlled := map[string]string{"gatewayhostname": "s:evil.example", "full address": "s:evil:3389", "gatewaycredentialssource": "i:0", "gatewayaccesstoken": "s:EVILTOKEN",
		"gatewayprofileusagemethod": "i:0", "gatewayusagemethod": "i:2", "username": "s:mallory", "domain": "s:evildomain"}
	kept := map[string]string{"audiomode": "i:2", "keyboardhook": "i:1", "use multimon": "i:1", "alternate shell": "s:c:\\x.exe:arg", "desktopwidth": "i:1920", "redirectclipboard": "i:0", "selectedmonitors": "s:0,1",
		// characters that mean something to whoever mistakes the text for a pattern (format verbs, escapes, placeholders)
		"remoteapplicationcmdline": "s:%TEMP%\\a b%20c 100% %d %s", "remoteapplicationprogram": "s:||app {{ username }} $HOME \\n"}
	for k, v := range controlled {
		if rng.Intn(2) == 0 {
			tmpl[k] = v
		}
	}
	wantKept := map[string]string{}
	for k, v := range kept {
		if rng.Intn(2) == 0 {
			tmpl[k] = v
			wantKept[k] = strings.SplitN(v, ":", 2)[1]
		}
	}
	tval := func(k string) string {
		if v, ok := tmpl[k]; ok {
			return strings.SplitN(v, ":", 2)[1]
		}
		return ""
	}
	var sb strings.Builder
	for k, v := range tmpl {
		sb.WriteString(k + ":" + v + "\r\n")
	}
	fn := filepath.Join(work, fmt.Sprintf("dl-%d.rdp", rng.Int63()))
	if err := os.WriteFile(fn, []byte(sb.String()), 0600); err != nil {
		return nil, err
	}
	defer os.Remove(fn)
	split := rng.Intn(2) == 0
	noUser := rng.Intn(4) == 0
	gwURL, _ := url.Parse("https://gw.example.org:8443/")
	mk := func() *web.Handler {
		c := web.Config{HostSelection: "roundrobin", Hosts: []string{"host-{{ preferred_username }}.example:3389"}, GatewayAddress: gwURL, TemplateFile: fn,
			RdpOpts:           web.RdpOpts{SplitUserDomain: split, NoUsername: noUser},
			PAATokenGenerator: func(ctx context.Context, u, h string) (string, error) { return "TOKEN-" + u + "-" + h, nil }}
		return c.NewHandler()
	}
	render := func(h *web.Handler, user string) (int, string) {
		req := httptest.NewRequest("GET", "/connect", nil)
		id := identity.NewUser()
		id.SetUserName(user)
		id.SetAuthenticated(true)
		req = identity.AddToRequestCtx(id, req)
		rr := httptest.NewRecorder()
		h.HandleDownload(rr, req)
		return rr.Code, rr.Body.String()
	}
	shared := mk()
	users := []string{"alice", "bob@corp.example", "Ünï", "carol@lab.example", "per%cent@ha%lf.example", "do$lar{{x}}"}
	rng.Shuffle(len(users), func(a, b int) { users[a], users[b] = users[b], users[a] })
	var evs []M
	for pos, user := range users[:3] {
		code, body := render(shared, user)
		crlf, malformed, dups, st := fileShape(body)
		uname, dom := user, ""
		if split {
			p := strings.SplitN(user, "@", 2)
			uname = p[0]
			if len(p) > 1 {
				dom = p[1]
			}
		}
		host := "host-" + user + ".example:3389"
		forced := code == http.StatusOK && st["gatewayhostname"] == "gw.example.org:8443" && st["full address"] == host && st["gatewaycredentialssource"] == "5" &&
			st["gatewayaccesstoken"] == "TOKEN-"+uname+"-"+host && st["gatewayprofileusagemethod"] == "1" && st["gatewayusagemethod"] == "1"
		if !noUser {
			forced = forced && st["username"] == uname && (dom == "" || st["domain"] == dom)
		}
		keptOK := true
		for k, v := range wantKept {
			if st[k] != v {
				keptOK = false
			}
		}
		// the same request served by a handler that has served nobody before
		_, fresh := render(mk(), user)
		_, _, _, stFresh := fileShape(fresh)
		sameAsFresh := reflect.DeepEqual(st, stFresh)
		// read back with the gateway's own reader
		fn2 := filepath.Join(work, fmt.Sprintf("dlb-%d.rdp", rng.Int63()))
		os.WriteFile(fn2, []byte(body), 0600)
		back, err := rdp.NewBuilderFromFile(fn2)
		os.Remove(fn2)
		eq := false
		if err == nil {
			// every line of the file is a setting the reader gives back unchanged
			eq = true
			t := reflect.TypeOf(back.Settings)
			for i := 0; i < t.NumField(); i++ {
				name := t.Field(i).Tag.Get("rdp")
				if v, ok := st[name]; ok {
					f := reflect.ValueOf(back.Settings).Field(i)
					var got string
					switch f.Kind() {
					case reflect.Bool:
						got = map[bool]string{true: "1", false: "0"}[f.Bool()]
					case reflect.Int:
						got = strconv.FormatInt(f.Int(), 10)
					default:
						got = f.String()
					}
					if got != v {
						eq = false
					}
				}
			}
		}
		evs = append(evs, M{"ev": "download", "cls": "download", "status": code, "forcedOK": forced, "templateKept": keptOK, "crlf": crlf, "malformed": malformed, "dups": dups, "settingsEqual": eq,
			"split": split, "noUser": noUser, "ntemplate": len(tmpl), "pos": pos, "sameAsFresh": sameAsFresh,
			"domain": st["domain"], "reqDomain": dom, "tmplDomain": tval("domain"), "username": st["username"], "reqUser": uname, "tmplUser": tval("username")})
	}
	return evs, nil
}

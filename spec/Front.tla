--------------------------------- MODULE Front ---------------------------------
(* The HTTP front door of the gateway endpoint (main.go route table, web/basic,  *)
(* web/ntlm, SPNEGO): which requests reach the tunnel handler, as whom, and what *)
(* a request without credentials is told.                                        *)
EXTENDS Integers, Sequences, FiniteSets, TLC

Mechs == {"openid", "kerberos", "local", "ntlm"}
\* configurations that can be started (Config!Refuse): not ntlm together with kerberos
Startable(m) == m # {} /\ ~({"ntlm", "kerberos"} \subseteq m)

\* the scheme a request's (first) Authorization header uses
Schemes == {"none", "empty", "basic", "ntlm", "negotiate-ntlm", "negotiate-krb", "other"}
\* mechanism that serves a scheme
Serves(s) == CASE s = "basic" -> "local" [] s = "ntlm" -> "ntlm" [] s = "negotiate-ntlm" -> "ntlm" [] s = "negotiate-krb" -> "kerberos" [] OTHER -> "nobody"

\* r: [scheme, wellFormed, confirmed]  confirmed = the authentication backend confirms these credentials
\*    (for NTLM that includes: negotiate and authenticate on the same connection, in that order)
OpenAtHttp(m) == m = {"openid"}
ShouldReach(m, r) == OpenAtHttp(m) \/ (Serves(r.scheme) \in m /\ r.wellFormed /\ r.confirmed)
MayNotReach(m, r) == ~OpenAtHttp(m) /\ ~(Serves(r.scheme) \in m /\ r.wellFormed /\ r.confirmed)

\* challenges offered to a request without Authorization header
Challenges(m) == (IF "ntlm" \in m THEN {"NTLM", "Negotiate"} ELSE {})
                 \cup (IF "local" \in m THEN {"Basic"} ELSE {})
                 \cup (IF "kerberos" \in m THEN {"Negotiate"} ELSE {})

\* ---- the front door as a system: one client sends requests one after another and keeps every cookie the
\* gateway sets (jar = it holds cookies from an earlier request that reached the handler).  Whether a
\* request reaches the handler is decided by that request alone: Handle does not read jar or n.
VARIABLES m, r, reached, jar, n
fvars == <<m, r, reached, jar, n>>
Reqs == [scheme : Schemes, wellFormed : BOOLEAN, confirmed : BOOLEAN]
Init == /\ m \in {x \in SUBSET Mechs : Startable(x)}
        /\ r \in Reqs /\ reached = ShouldReach(m, r) /\ jar = FALSE /\ n = 1
Handle(q) == /\ n < 3
             /\ r' = q /\ reached' = ShouldReach(m, q)
             /\ jar' = (jar \/ reached)
             /\ n' = n + 1 /\ UNCHANGED m
Next == \E q \in Reqs : Handle(q)
Spec == Init /\ [][Next]_fvars
ExactlyOne == ShouldReach(m, r) # MayNotReach(m, r)
DisabledSchemeNeverReaches == (~OpenAtHttp(m) /\ Serves(r.scheme) \notin m) => ~reached
NoCredentialsNeverReach == (~OpenAtHttp(m) /\ r.scheme \in {"none", "empty", "other"}) => ~reached
SomethingToTry == ~OpenAtHttp(m) => Challenges(m) # {}
\* C05 for a client with history: cookies of earlier confirmed requests open nothing
HistoryOpensNothing == (jar /\ MayNotReach(m, r)) => ~reached
ReachIffConfirmed == reached <=> ShouldReach(m, r)
=============================================================================

SPECIFICATION Spec
CONSTANTS
  LockedSteps = {} Transport = "ws" ClosesReplaced = TRUE
INVARIANTS NothingBeforeTheEnd GaugeNeverNegative
PROPERTIES EndingReleasesEverything ReleasedIsStable
CHECK_DEADLOCK FALSE

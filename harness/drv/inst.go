// Package drv concretises abstract scripts (generated from the TLA+
// specifications) into real executions against the rdpgw binary and records
// what the implementation did as NDJSON traces for TLC.
package drv

import (
	"errors"
	"bufio"
	"context"
	"crypto/ecdsa"
	"crypto/elliptic"
	"crypto/rand"
	"crypto/tls"
	"crypto/x509"
	"crypto/x509/pkix"
	"encoding/json"
	"encoding/pem"
	"fmt"
	"io"
	"math/big"
	"net"
	"net/http"
	"net/http/cookiejar"
	"net/url"
	"os"
	"os/exec"
	"path/filepath"
	"sort"
	"strings"
	"sync"
	"syscall"
	"time"

	"verifharness/envx"
	"verifharness/gw"
)

// Runner holds what is shared by all instances of one driver run.
type Runner struct {
	Work    string // scratch directory
	BinGW   string
	BinAuth string
	Seed    int64
	mu      sync.Mutex
	cidSeq  int
	certPEM string
	keyPEM  string
	idp     *envx.IdP
}

// SharedIdP returns the run-wide fake identity provider (RSA key generation is
// slow, so one provider serves every gateway instance of a run).
func (r *Runner) SharedIdP() (*envx.IdP, error) {
	r.mu.Lock()
	defer r.mu.Unlock()
	if r.idp == nil {
		p, err := envx.NewIdP()
		if err != nil {
			return nil, err
		}
		r.idp = p
	}
	return r.idp, nil
}

// ScriptCfg is the abstract configuration a script runs under.
type ScriptCfg struct {
	TokenAuth bool            `json:"tokenAuth"`
	SmartCard bool            `json:"smartCard"`
	Auth      string          `json:"auth"` // openid | ntlm | local
	Sel       string          `json:"sel"`
	Hosts     [][]string      `json:"hosts"`
	VerifyIp  bool            `json:"verifyIp"`
	Redir     map[string]bool `json:"redir"`
	Idle      int             `json:"idle"`
	Tls       bool            `json:"tls"`
	SendBuf   int             `json:"sendBuf"`
	RecvBuf   int             `json:"recvBuf"`
	Store     string          `json:"store"`
	Split     bool            `json:"split"`
	UserTok   string          `json:"userTok"` // "" | enc | signenc
	Template  string          `json:"template"`
	NoUser    bool            `json:"noUser"`
	// RdpDefaults: an administrator's RDP template file is configured (Client.Defaults)
	RdpDefaults bool `json:"rdpDefaults,omitempty"`
	// NoHooks starts the gateway without the hook channel (hooks are then no-ops
	// and add no synchronisation of their own: used for race-detector soaks)
	NoHooks bool `json:"noHooks,omitempty"`
	// Auths, when set, enables several mechanisms at once (Auth is then ignored)
	Auths []string `json:"auths,omitempty"`
	// KeyOverride replaces configured keys: paasign | sess | sessenc | userenc -> value ("-" = leave the key out)
	KeyOverride map[string]string `json:"keyOverride,omitempty"`
	// SharedEnv: the gateway runs with the home and temporary directories that every other gateway of this run with the
	// same SharedEnv value uses (several gateways on one machine); without it each gateway has directories of its own
	SharedEnv string `json:"sharedEnv,omitempty"`
	// AuthAway: the authentication service the gateway is configured to talk to is not there (stopped, restarting)
	AuthAway bool `json:"authAway,omitempty"` // name of the machine: gateways with the same name share the directories
}

func (c ScriptCfg) Key() string {
	b, _ := json.Marshal(c)
	return string(b)
}

func DefaultRedir() map[string]bool {
	return map[string]bool{"clipboard": true, "port": true, "drive": true, "printer": true, "pnp": true, "disableAll": false, "enableAll": false}
}

const (
	KeyPAASign  = "PAAsignKEY-0123456789abcdef-XYZ0"
	KeyPAAEnc   = "PAAencrKEY-0123456789abcdef-XYZ1"
	KeyUserEnc  = "USRencrKEY-0123456789abcdef-XYZ2"
	// (64 characters: long enough for every HMAC variant, so that a token signed HS384 / HS512 under the configured key
	// is a token a verifier could check - and has to refuse because of its algorithm, not because of the key's size)
	KeyUserSign = "USRsignKEY-0123456789abcdef-XYZ3-USRsignKEY-0123456789abcdef-XYZ3"
	KeyQuery    = "QRYsignKEY-0123456789abcdef-XYZ4"
	KeySess     = "SESSIONKEY-0123456789abcdef-XYZ5"
	KeySessEnc  = "SESSencKEY-0123456789abcdef-XYZ6"
	QueryIssuer = "query-issuer"
)

// Inst is one running gateway with its environment.
type Inst struct {
	R        *Runner
	Cfg      ScriptCfg
	P        *gw.Proc
	IdP      *envx.IdP
	Auth     *AuthProc
	Sym      map[string]string
	Backends map[string]*envx.Backend
	Users    map[string]string // ntlm / local users (name -> password)
	Started         time.Time // when the gateway of this instance was up
	lastMintBrowser *Browser
	groups          map[string]*loginGroup
	groupMu         sync.Mutex
	lastMintCookies string     // Cookie header of the browser that did the latest /connect login (scripts run one at a time per instance)
	krbDir   string
}

// AuthProc is a running rdpgw-auth.
type AuthProc struct {
	Cmd    *exec.Cmd
	Sock   string
	Dir    string
	Stderr *strings.Builder
	mu     sync.Mutex
	exited chan struct{}
}

func (a *AuthProc) Alive() bool {
	select {
	case <-a.exited:
		return false
	default:
		return true
	}
}

type lockedWriter struct {
	mu *sync.Mutex
	b  *strings.Builder
}

func (l lockedWriter) Write(p []byte) (int, error) {
	l.mu.Lock()
	defer l.mu.Unlock()
	if l.b.Len() < 4<<20 {
		l.b.Write(p)
	}
	return len(p), nil
}

func (a *AuthProc) Log() string {
	a.mu.Lock()
	defer a.mu.Unlock()
	return a.Stderr.String()
}

// StartAuth launches the real rdpgw-auth (built with the PAM stub).
func (r *Runner) StartAuth(users map[string]string) (*AuthProc, error) {
	return r.StartAuthAt("", users)
}

// UserEntries lays a user map out as the list of a user file. A key "name#first" is an EARLIER entry for `name`
// that a later entry of the list (the key "name") replaces: a user file may name a user twice, the last entry counts.
func UserEntries(users map[string]string) [][2]string {
	names := make([]string, 0, len(users))
	for n := range users {
		names = append(names, n)
	}
	sort.Strings(names)
	var first, rest [][2]string
	for _, n := range names {
		if strings.HasSuffix(n, "#first") {
			first = append(first, [2]string{strings.TrimSuffix(n, "#first"), users[n]})
		} else {
			rest = append(rest, [2]string{n, users[n]})
		}
	}
	return append(first, rest...)
}

// StartAuthAt starts the service on a given socket path ("" = a fresh one).
func (r *Runner) StartAuthAt(sockPath string, users map[string]string) (*AuthProc, error) {
	dir, err := os.MkdirTemp(r.Work, "auth-")
	if err != nil {
		return nil, err
	}
	var sb strings.Builder
	sb.WriteString("Users:\n")
	for _, e := range UserEntries(users) {
		un, _ := json.Marshal(e[0])
		pw, _ := json.Marshal(e[1])
		fmt.Fprintf(&sb, " - {Username: %s, Password: %s}\n", un, pw)
	}
	conf := filepath.Join(dir, "rdpgw-auth.yaml")
	os.WriteFile(conf, []byte(sb.String()), 0600)
	sock := filepath.Join(dir, "a.sock")
	if sockPath != "" {
		sock = sockPath
	}
	a := &AuthProc{Sock: sock, Dir: dir, Stderr: &strings.Builder{}, exited: make(chan struct{})}
	cmd := exec.Command(r.BinAuth, "-s", sock, "-c", conf, "-n", "rdpgw")
	cmd.Dir = dir
	cmd.Stderr = lockedWriter{&a.mu, a.Stderr}
	cmd.Stdout = cmd.Stderr
	cmd.SysProcAttr = &syscall.SysProcAttr{Pdeathsig: syscall.SIGKILL}
	if err := cmd.Start(); err != nil {
		return nil, err
	}
	a.Cmd = cmd
	go func() { cmd.Wait(); close(a.exited) }()
	for i := 0; i < 2000; i++ {
		if c, err := net.Dial("unix", sock); err == nil {
			c.Close()
			return a, nil
		}
		if !a.Alive() {
			return nil, fmt.Errorf("rdpgw-auth exited: %s", a.Log())
		}
		time.Sleep(2 * time.Millisecond)
	}
	a.Stop()
	return nil, fmt.Errorf("rdpgw-auth did not listen")
}

func (a *AuthProc) Stop() {
	if a.Cmd != nil && a.Cmd.Process != nil {
		a.Cmd.Process.Kill()
		select {
		case <-a.exited:
		case <-time.After(2 * time.Second):
		}
	}
	os.RemoveAll(a.Dir)
}

// Cert returns paths of a self-signed certificate (generated once per run).
func (r *Runner) Cert() (string, string, error) {
	r.mu.Lock()
	defer r.mu.Unlock()
	if r.certPEM != "" {
		return r.certPEM, r.keyPEM, nil
	}
	k, err := ecdsa.GenerateKey(elliptic.P256(), rand.Reader)
	if err != nil {
		return "", "", err
	}
	tpl := &x509.Certificate{SerialNumber: big.NewInt(1), Subject: pkix.Name{CommonName: "localhost"},
		NotBefore: time.Now().Add(-time.Hour), NotAfter: time.Now().Add(24 * time.Hour),
		KeyUsage: x509.KeyUsageDigitalSignature, ExtKeyUsage: []x509.ExtKeyUsage{x509.ExtKeyUsageServerAuth},
		DNSNames: []string{"localhost"}, IPAddresses: []net.IP{net.ParseIP("127.0.0.1")}}
	der, err := x509.CreateCertificate(rand.Reader, tpl, tpl, &k.PublicKey, k)
	if err != nil {
		return "", "", err
	}
	kb, _ := x509.MarshalECPrivateKey(k)
	cp := filepath.Join(r.Work, "cert.pem")
	kp := filepath.Join(r.Work, "key.pem")
	os.WriteFile(cp, pem.EncodeToMemory(&pem.Block{Type: "CERTIFICATE", Bytes: der}), 0600)
	os.WriteFile(kp, pem.EncodeToMemory(&pem.Block{Type: "EC PRIVATE KEY", Bytes: kb}), 0600)
	r.certPEM, r.keyPEM = cp, kp
	return cp, kp, nil
}

func (r *Runner) NextCid(prefix string) string {
	r.mu.Lock()
	defer r.mu.Unlock()
	r.cidSeq++
	// the form real clients use: a GUID in braces (the prefix, the driver process and a sequence number are in it)
	pf := uint32(0)
	for _, c := range []byte(prefix) {
		pf = pf<<8 | uint32(c)
	}
	return fmt.Sprintf("{%08X-%04X-4000-8000-%012X}", pf, os.Getpid()&0xffff, r.cidSeq)
}

// Conc concretises a symbol sequence.
func (i *Inst) Conc(sym []string) string {
	var sb strings.Builder
	for _, s := range sym {
		if v, ok := i.Sym[s]; ok {
			sb.WriteString(v)
		} else {
			sb.WriteString(s)
		}
	}
	return sb.String()
}

// Abs abstracts a concrete string back into symbols (longest match first over
// the symbols given plus the table); unexplained bytes become "?hex" symbols.
func (i *Inst) Abs(s string, hint [][]string) []string {
	type kv struct{ k, v string }
	var tab []kv
	seen := map[string]bool{}
	add := func(k string) {
		if seen[k] {
			return
		}
		seen[k] = true
		v, ok := i.Sym[k]
		if !ok {
			v = k
		}
		if v != "" {
			tab = append(tab, kv{k, v})
		}
	}
	for _, h := range hint {
		for _, k := range h {
			add(k)
		}
	}
	for _, k := range []string{":", "[", "]"} {
		add(k)
	}
	sort.SliceStable(tab, func(a, b int) bool { return len(tab[a].v) > len(tab[b].v) })
	out := []string{}
	for len(s) > 0 {
		matched := false
		for _, e := range tab {
			if strings.HasPrefix(s, e.v) {
				out = append(out, e.k)
				s = s[len(e.v):]
				matched = true
				break
			}
		}
		if !matched {
			out = append(out, fmt.Sprintf("?%02x", s[0]))
			s = s[1:]
		}
	}
	return out
}

// NewInst starts the environment and the gateway for cfg.
func (r *Runner) NewInst(cfg ScriptCfg) (*Inst, error) {
	in := &Inst{R: r, Cfg: cfg, Sym: map[string]string{}, Backends: map[string]*envx.Backend{}, Users: map[string]string{"nuser1": "npass1-secret", "nuser2": "npass2-secret", "7": "pw-7", "8": "pw-8", "user1": "pw-user1", "slow7": "pw-slow7", "slow8": "pw-slow8", "*": "pw-star",
		// accounts whose name is qualified with a realm / a domain: the whole string is the name (a different account from the bare one)
		"7@o.example": "pw-7@o.example", "nuser1@contractors.example": "npass-at-secret", "CONTRACTORS\\nuser1": "npass-bsl-secret"}}
	ok := false
	defer func() {
		if !ok {
			in.Stop()
		}
	}()
	for _, b := range []struct{ name, ip string }{{"A", "127.0.0.1"}, {"B", "127.0.0.1"}, {"E", "127.0.0.1"}} {
		be, err := envx.NewBackend(b.ip)
		if err != nil {
			return nil, err
		}
		in.Backends[b.name] = be
		in.Sym["P"+b.name] = fmt.Sprint(be.Port)
	}
	pd := envx.ClosedPort()
	in.Sym["PD"] = fmt.Sprint(pd)
	// another host that listens on the very port number that is closed on 127.0.0.1 (an "alternate" of a dead target)
	if be, err := envx.NewBackendAt("127.0.0.2", pd); err == nil {
		in.Backends["F"] = be
	}
	in.Sym["H1"] = "127.0.0.1"
	in.Sym["H2"] = "127.0.0.2"
	in.Sym["HL"] = "localhost"
	in.Sym["HLU"] = "LOCALHOST"
	in.Sym["H6"] = "::1"
	in.Sym["H127"] = "127.0.0."
	in.Sym["PH"] = "{{ preferred_username }}"
	in.Sym["NUL"] = "\x00"
	in.Sym["SUR"] = "\U0001F600"

	c := &gw.Config{
		Tls:             "disable",
		HostSelection:   cfg.Sel,
		SessionKey:      KeySess,
		SessionEncKey:   KeySessEnc,
		SessionStore:    cfg.Store,
		PAASigningKey:   KeyPAASign,
		PAAEncKey:       KeyPAAEnc,
		QuerySigningKey: KeyQuery,
		QueryIssuer:     QueryIssuer,
		VerifyClientIp:  gw.B(cfg.VerifyIp),
		TokenAuth:       gw.B(cfg.TokenAuth),
		SmartCardAuth:   gw.B(cfg.SmartCard),
		IdleTimeout:     gw.I(cfg.Idle),
		SendBuf:         cfg.SendBuf,
		ReceiveBuf:      cfg.RecvBuf,
		GatewayAddress:  "http://127.0.0.1:%PORT%",
		SplitUserDomain: gw.B(cfg.Split),
		NoUsername:      gw.B(cfg.NoUser),
		UsernameTemplate: cfg.Template,
	}
	if cfg.RdpDefaults {
		tp := filepath.Join(r.Work, fmt.Sprintf("defaults-%d-%d.rdp", os.Getpid(), time.Now().UnixNano()))
		os.WriteFile(tp, []byte("audiomode:i:2\r\nconnection type:i:3\r\nremoteapplicationname:s:Verif App\r\nscreen mode id:i:1\r\n"), 0600)
		c.ClientDefaults = tp
	}
	if cfg.UserTok != "" {
		c.EnableUserToken = gw.B(true)
		c.UserEncKey = KeyUserEnc
		if cfg.UserTok == "signenc" {
			c.UserSigningKey = KeyUserSign
		}
	}
	for k, v := range cfg.KeyOverride {
		if v == "-" {
			v = ""
		}
		switch k {
		case "paasign":
			c.PAASigningKey = v
		case "sess":
			c.SessionKey = v
		case "sessenc":
			c.SessionEncKey = v
		case "userenc":
			c.UserEncKey = v
		}
	}
	rd := cfg.Redir
	if rd == nil {
		rd = DefaultRedir()
	}
	c.EnableClipboard, c.EnablePort, c.EnableDrive = gw.B(rd["clipboard"]), gw.B(rd["port"]), gw.B(rd["drive"])
	c.EnablePrinter, c.EnablePnp = gw.B(rd["printer"]), gw.B(rd["pnp"])
	c.DisableRedirect, c.RedirectAll = gw.B(rd["disableAll"]), gw.B(rd["enableAll"])
	for _, h := range cfg.Hosts {
		c.Hosts = append(c.Hosts, in.Conc(h))
	}
	if cfg.Tls {
		cp, kp, err := r.Cert()
		if err != nil {
			return nil, err
		}
		c.Tls = "enable"
		c.CertFile, c.KeyFile = cp, kp
		c.GatewayAddress = "https://127.0.0.1:%PORT%"
	}
	auths := cfg.Auths
	if len(auths) == 0 {
		a := cfg.Auth
		if a == "" {
			a = "openid"
		}
		auths = []string{a}
	}
	c.Authentication = auths
	for _, a := range auths {
		switch a {
		case "openid":
			idp, err := r.SharedIdP()
			if err != nil {
				return nil, err
			}
			in.IdP = idp
			c.ProviderUrl, c.ClientId, c.ClientSecret = idp.URL, idp.ClientID, idp.Secret
		case "ntlm", "local":
			if cfg.AuthAway {
				c.AuthSocket = filepath.Join(r.Work, "nobody-listens-here.sock")
			} else if in.Auth == nil {
				ap, err := r.StartAuth(in.Users)
				if err != nil {
					return nil, err
				}
				in.Auth = ap
				c.AuthSocket = ap.Sock
			}
		case "kerberos":
			kt, conf, err := r.KerberosFiles([]string{"127.0.0.1:1"})
			if err != nil {
				return nil, err
			}
			in.krbDir = filepath.Dir(kt)
			c.Keytab, c.Krb5Conf = kt, conf
		default:
			return nil, fmt.Errorf("unknown auth %q", a)
		}
	}
	var extraEnv []string
	if cfg.SharedEnv != "" {
		shared := filepath.Join(r.Work, "shared-env-"+cfg.SharedEnv)
		os.MkdirAll(filepath.Join(shared, "tmp"), 0700)
		extraEnv = []string{"HOME=" + shared, "TMPDIR=" + filepath.Join(shared, "tmp")}
	}
	p, err := gw.Start(c, gw.StartOpts{Binary: r.BinGW, WorkDir: r.Work, NoHooks: cfg.NoHooks, ExtraEnv: extraEnv})
	if err != nil {
		return nil, err
	}
	in.P = p
	in.Started = time.Now()
	ok = true
	return in, nil
}

func recvType(e gw.Event) int {
	if e.Pt == "proc.recv" {
		return e.Int(0)
	}
	return 0
}

// hookLogSeq numbers the hook logs written by this driver process.
var hookLogSeq struct {
	mu sync.Mutex
	n  int
}

// dumpHookLog writes every hook event of this gateway process, in the gateway's own order, as one NDJSON segment
// for the Lifecycle trace specification (directory named by VDRV_HOOKLOG; nothing is written without it).
func (i *Inst) dumpHookLog() {
	dir := os.Getenv("VDRV_HOOKLOG")
	if dir == "" || i.P == nil || i.Cfg.NoHooks {
		return
	}
	evs := i.P.Since(0)
	if len(evs) == 0 {
		return
	}
	hookLogSeq.mu.Lock()
	hookLogSeq.n++
	n := hookLogSeq.n
	hookLogSeq.mu.Unlock()
	os.MkdirAll(dir, 0700)
	f, err := os.Create(filepath.Join(dir, fmt.Sprintf("hooks-%d-%05d.ndjson", os.Getpid(), n)))
	if err != nil {
		return
	}
	defer f.Close()
	w := bufio.NewWriterSize(f, 1<<20)
	defer w.Flush()
	enc := func(v interface{}) {
		b, _ := json.Marshal(v)
		w.Write(b)
		w.WriteByte('\n')
	}
	enc(map[string]interface{}{"ev": "reset", "inst": n})
	// a tunnel object is named by its address; the allocator hands addresses out again once an object is
	// garbage, and a handler that did not find its connection id in the cache always makes a new object
	gen := map[string]int{}
	for _, e := range evs {
		if e.Tun == "" || strings.HasPrefix(e.Pt, "ctl.") {
			continue
		}
		if e.Pt == "gw.enter" && !e.Bool(1) {
			gen[e.Tun]++
		}
		usr, nreg := "?", -1
		switch {
		case e.Pt == "gw.enter":
			usr = e.Str(2)
		case e.User != nil:
			usr = *e.User
		}
		if e.NReg != nil {
			nreg = *e.NReg
		}
		enc(map[string]interface{}{"ev": "hk", "pt": e.Pt, "u": fmt.Sprintf("%s#%d", e.Tun, gen[e.Tun]), "cid": e.Cid, "role": e.Role, "seq": e.Seq,
			"found": e.Pt == "gw.enter" && e.Bool(1), "ok": e.Pt == "proc.dialed" && e.Bool(1), "pan": e.Panicking, "t": recvType(e), "usr": usr, "nreg": nreg})
	}
}

func (i *Inst) Stop() {
	i.dumpHookLog()
	if i.P != nil {
		i.P.Stop()
	}
	if i.Auth != nil {
		i.Auth.Stop()
	}
	for _, b := range i.Backends {
		b.Close()
	}
	if i.krbDir != "" {
		os.RemoveAll(i.krbDir)
	}
}

func (i *Inst) BaseURL() string {
	if i.P.TLS {
		return "https://" + i.P.Addr
	}
	return "http://" + i.P.Addr
}

// AddrFor returns the gateway address to dial from a given source address
// (the IPv6 loopback when the source is an IPv6 address).
func (i *Inst) AddrFor(localIP string) string {
	if strings.Contains(localIP, ":") {
		return fmt.Sprintf("[::1]:%d", i.P.Port)
	}
	return i.P.Addr
}

// Browser is a cookie-jar HTTP client bound to a source address.
type Browser struct {
	C       *http.Client
	XFF     string
	I       *Inst
	LoginID string // appended to the IdP authorization request
	Local6  bool   // talk to the gateway over the IPv6 loopback
	extra   [][2]string
}

func (i *Inst) NewBrowser(localIP, xff string) *Browser {
	jar, _ := cookiejar.New(nil)
	gwPort := fmt.Sprintf(":%d", i.P.Port)
	dial := func(ctx context.Context, network, addr string) (net.Conn, error) {
		d := &net.Dialer{Timeout: 5 * time.Second}
		// only connections to the gateway come from the chosen client address
		if localIP != "" && strings.HasSuffix(addr, gwPort) {
			d.LocalAddr = &net.TCPAddr{IP: net.ParseIP(localIP)}
		}
		return d.DialContext(ctx, network, addr)
	}
	tr := &http.Transport{DialContext: dial, TLSClientConfig: &tls.Config{InsecureSkipVerify: true}, DisableKeepAlives: true}
	c := &http.Client{Jar: jar, Transport: tr, Timeout: 15 * time.Second,
		CheckRedirect: func(req *http.Request, via []*http.Request) error { return http.ErrUseLastResponse }}
	return &Browser{C: c, XFF: xff, I: i, Local6: strings.Contains(localIP, ":")}
}

// Hop is one HTTP exchange of a browser flow.
type Hop struct {
	URL      string
	Status   int
	Location string
	Body     string
	Header   http.Header
}

// GetWith is Get with extra request headers.
func (b *Browser) GetWith(u string, hdrs [][2]string) (*Hop, error) {
	b.extra = hdrs
	defer func() { b.extra = nil }()
	return b.Get(u)
}

func (b *Browser) Get(u string) (*Hop, error) {
	toGW := strings.HasPrefix(u, b.I.BaseURL())
	if b.Local6 && toGW {
		u = strings.Replace(u, b.I.P.Addr, fmt.Sprintf("[::1]:%d", b.I.P.Port), 1)
	}
	req, err := http.NewRequest("GET", u, nil)
	if err != nil {
		return nil, err
	}
	if b.XFF != "" && toGW {
		for _, line := range strings.Split(b.XFF, "\n") {
			req.Header.Add("X-Forwarded-For", line)
		}
	}
	for _, h := range b.extra {
		req.Header.Set(h[0], h[1])
	}
	resp, err := b.C.Do(req)
	if err != nil {
		// the gateway dropped the connection without an answer (a handler that panicked is recovered by net/http
		// by closing the connection): that is an observation - "no answer" - not a failure of the harness
		if toGW && b.I.P.Alive() && (errors.Is(err, io.EOF) || strings.Contains(err.Error(), "EOF") || strings.Contains(err.Error(), "connection reset")) {
			return &Hop{URL: u, Status: -1, Header: http.Header{}}, nil
		}
		return nil, err
	}
	defer resp.Body.Close()
	body, _ := io.ReadAll(io.LimitReader(resp.Body, 1<<20))
	return &Hop{URL: u, Status: resp.StatusCode, Location: resp.Header.Get("Location"), Body: string(body), Header: resp.Header}, nil
}

// rebase points a callback URL (advertised gateway address) at the real listener.
func (b *Browser) rebase(loc string) string {
	u, err := url.Parse(loc)
	if err != nil {
		return loc
	}
	if strings.HasPrefix(u.Path, "/callback") || u.Host == "" {
		base, _ := url.Parse(b.I.BaseURL())
		u.Scheme, u.Host = base.Scheme, base.Host
	}
	return u.String()
}

// Connect runs GET /connect[?host=...] following redirects through the IdP
// (at most maxHops) and returns every hop.
func (b *Browser) Connect(query string, maxHops int) ([]*Hop, error) {
	u := b.I.BaseURL() + "/connect"
	if query != "" {
		u += "?" + query
	}
	var hops []*Hop
	for n := 0; n < maxHops; n++ {
		h, err := b.Get(u)
		if err != nil {
			return hops, err
		}
		hops = append(hops, h)
		if h.Status != 302 || h.Location == "" {
			return hops, nil
		}
		u = b.rebase(h.Location)
		if b.LoginID != "" && b.I.IdP != nil && strings.HasPrefix(u, b.I.IdP.URL+"/auth") {
			u += "&verif_login=" + b.LoginID
		}
	}
	return hops, nil
}

// RDPFile parses "name:type:value" lines independently of the gateway's reader.
func ParseRDP(body string) (map[string]string, []string) {
	m := map[string]string{}
	var dup []string
	for _, ln := range strings.Split(body, "\r\n") {
		if ln == "" {
			continue
		}
		p := strings.SplitN(ln, ":", 3)
		if len(p) != 3 {
			dup = append(dup, "malformed:"+ln)
			continue
		}
		if _, ok := m[p[0]]; ok {
			dup = append(dup, "dup:"+p[0])
		}
		m[p[0]] = p[2]
	}
	return m, dup
}

// Mint logs in as sub through the real /connect -> IdP -> /callback flow and
// returns the access cookie, the file's settings and the IdP access token.
func (i *Inst) Mint(sub, hostParam, localIP, xff string) (tok string, file map[string]string, at string, err error) {
	return i.MintAs(sub, sub, hostParam, localIP, xff)
}

// MintAs is Mint with a login name (preferred_username) that may differ from
// the subject the IdP's userinfo endpoint reports.
// MintInGroup downloads a connection file with the browser session of a login group: the first call of a group logs
// in, later calls use the same logged-in session (same IdP access token) for another download.
func (i *Inst) MintInGroup(group, sub, loginName, hostParam, localIP, xff string) (tok string, file map[string]string, at string, err error) {
	i.groupMu.Lock()
	g := i.groups[group]
	i.groupMu.Unlock()
	if g == nil {
		tok, file, at, err = i.MintAs(sub, loginName, hostParam, localIP, xff)
		if err == nil {
			i.groupMu.Lock()
			if i.groups == nil {
				i.groups = map[string]*loginGroup{}
			}
			i.groups[group] = &loginGroup{b: i.lastMintBrowser, at: at}
			i.groupMu.Unlock()
		}
		return
	}
	q := ""
	if hostParam != "" {
		q = "host=" + url.QueryEscape(hostParam)
	}
	// the same logged-in session, now seen from the address this tunnel's file is downloaded from (a client that moved:
	// the session cookie travels with it)
	nb := i.NewBrowser(localIP, xff)
	for _, base := range []string{"http://127.0.0.1", "https://127.0.0.1", "http://[::1]", "https://[::1]"} {
		u, _ := url.Parse(fmt.Sprintf("%s:%d/", base, i.P.Port))
		if cs := g.b.C.Jar.Cookies(u); len(cs) > 0 {
			nb.C.Jar.SetCookies(u, cs)
		}
	}
	hops, err := nb.Connect(q, 3)
	if err != nil {
		return "", nil, g.at, err
	}
	last := hops[len(hops)-1]
	if last.Status != 200 {
		return "", nil, g.at, fmt.Errorf("second download of login group %s ended with %d", group, last.Status)
	}
	file, _ = ParseRDP(last.Body)
	return file["gatewayaccesstoken"], file, g.at, nil
}

type loginGroup struct {
	b  *Browser
	at string
}

func (i *Inst) MintAs(sub, loginName, hostParam, localIP, xff string) (tok string, file map[string]string, at string, err error) {
	l := &envx.Login{Sub: sub, Claims: map[string]interface{}{"preferred_username": loginName}}
	b := i.NewBrowser(localIP, xff)
	i.lastMintBrowser = b
	b.LoginID = i.IdP.Register(l)
	q := ""
	if hostParam != "" {
		q = "host=" + url.QueryEscape(hostParam)
	}
	hops, err := b.Connect(q, 6)
	if err != nil {
		return "", nil, "", err
	}
	last := hops[len(hops)-1]
	if last.Status != 200 {
		return "", nil, l.AccessToken, fmt.Errorf("connect flow ended with %d after %d hops: %s", last.Status, len(hops), strings.TrimSpace(last.Body))
	}
	file, _ = ParseRDP(last.Body)
	// remember the browser's cookies: some clients carry them along when they open the tunnel
	if u, e := url.Parse(i.BaseURL()); e == nil {
		parts := []string{}
		for _, c := range b.C.Jar.Cookies(u) {
			parts = append(parts, c.Name+"="+c.Value)
		}
		i.lastMintCookies = strings.Join(parts, "; ")
	}
	return file["gatewayaccesstoken"], file, l.AccessToken, nil
}

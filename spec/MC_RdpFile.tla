------------------------------ MODULE MC_RdpFile ------------------------------
(* Design check for C19: parse(marshal(m)) = m for every settings map over the  *)
(* model alphabet, every text has exactly one meaning, malformed lines are      *)
(* errors, blank and comment lines are skipped.                                 *)
EXTENDS RdpFile
CONSTANTS Alphabet, MaxLen
Seqs(n) == UNION {[1..k -> Alphabet] : k \in 0..n}
VARIABLES a, b
vars == <<a, b>>
\* two entries <<key, type, value>>
Entry(k, ty, v) == <<k, ty, v>>
Init == /\ a \in {Entry(k, ty, v) : k \in {x \in Seqs(2) : CleanKey(x)}, ty \in {"int", "str"}, v \in Seqs(MaxLen)}
        /\ b \in {Entry(k, ty, v) : k \in {<<"k">>, <<"i", "k">>}, ty \in {"str"}, v \in Seqs(1)}
Next == UNCHANGED vars
Spec == Init /\ [][Next]_vars
Legal(e) == CleanVal(e[3]) /\ (e[2] = "int" => IsInt(e[3]))
RoundTrip == (Legal(a) /\ Legal(b) /\ a[1] # b[1]) => Parse(MarshalSeq(<<a, b>>)) = Ok({a, b})
RoundTripOne == Legal(a) => Parse(LineOf(a)) = Ok({a})
NonIntegerRejected == (a[2] = "int" /\ CleanVal(a[3]) /\ ~IsInt(a[3])) => Parse(LineOf(a)) = Failed
MissingFieldRejected == LET l == a[1] \o <<"COL">> \o <<"s">> IN (Trim(l) # <<>> /\ CleanKey(a[1])) => Parse(l) = Failed
CommentSkipped == (\A j \in 1..Len(a[3]) : a[3][j] # "LF") => Parse(<<"HASH">> \o a[3] \o <<"LF">> \o LineOf(b)) = Parse(LineOf(b))
=============================================================================

package drv

import (
	"io"
	"log"
	"sync"
)

type syncWriter struct {
	mu sync.Mutex
	w  io.Writer
}

func (s *syncWriter) Write(p []byte) (int, error) {
	s.mu.Lock()
	defer s.mu.Unlock()
	return s.w.Write(p)
}

func newLogger(w io.Writer) *log.Logger { return log.New(&syncWriter{w: w}, "", 0) }

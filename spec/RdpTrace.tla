------------------------------ MODULE RdpTrace ------------------------------
(* Trace specification for C19: results of the real RDP reader on enumerated    *)
(* texts are compared with RdpFile!Parse; builder / writer observations are     *)
(* judged per setting.                                                          *)
EXTENDS RdpFile, Json, TLCExt, IOUtils
TTraceFile == IF "TRACE" \in DOMAIN IOEnv THEN IOEnv.TRACE ELSE "trace.ndjson"
TraceLog == ndJsonDeserialize(TTraceFile)
VARIABLES l, viol, cover
tvars == <<l, viol, cover>>
Line == TraceLog[l]
Range(s) == {s[i] : i \in 1..Len(s)}
Triples(m) == {<<e[1], e[2], e[3]>> : e \in Range(m)}

DomainChoices(e) == IF ~e.noUser /\ e.reqDomain # "" THEN {e.reqDomain} ELSE {"", e.tmplDomain}
UserChoices(e) == IF ~e.noUser THEN {e.reqUser} ELSE {"", e.tmplUser}
Bad(e) ==
  CASE e.ev = "parse" ->
         LET want == Parse(e.text) IN
         (IF want.ok # e.ok THEN {IF want.ok THEN "G_C19_WellFormedAccepted" ELSE "G_C19_MalformedRejected"} ELSE {})
         \cup (IF want.ok /\ e.ok /\ want.m # Triples(e.m) THEN {"G_C19_ParsedAsWritten"} ELSE {})
         \cup (IF e.panic THEN {"G_C10_NoPanic"} ELSE {})
    [] e.ev = "template" -> (IF Parse(e.text).ok = e.rejected THEN {"G_C19_TemplateMalformedRejected"} ELSE {})
    [] e.ev = "roundtrip" -> (IF ~e.equal THEN {"G_C19_MarshalRoundTrip"} ELSE {}) \cup (IF ~e.crlf THEN {"G_C19_CrlfLines"} ELSE {})
    [] e.ev = "field" ->
         (IF e.lines > 1 THEN {"G_C19_AtMostOneLine"} ELSE {})
         \cup (IF e.nonDefault /\ e.lines # 1 THEN {"G_C19_NonDefaultEmitted"} ELSE {})
         \cup (IF ~e.backEqual THEN {"G_C19_ReadBackEqual"} ELSE {})
    [] e.ev = "file" ->
         (IF ~e.crlf \/ e.malformed > 0 THEN {"G_C19_WellFormedLines"} ELSE {})
         \cup (IF ~e.settingsEqual THEN {"G_C19_ReadBackEqual"} ELSE {})
    [] e.ev = "download" ->
         (IF ~e.forcedOK THEN {"G_C19_GatewayControlledSettings"} ELSE {})
         \cup (IF ~e.templateKept THEN {"G_C19_TemplateSettingsKept"} ELSE {})
         \* a file is the template overlaid with what is forced for its own request: the same request served by a
         \* handler without history gives the same settings, and the domain / user name written are the request's
         \* (when the gateway sets them) or else the template's - never anybody else's
         \cup (IF ~e.sameAsFresh THEN {"G_C19_FileDependsOnTemplateAndRequestOnly"} ELSE {})
         \cup (IF e.domain \notin DomainChoices(e) THEN {"G_C19_DomainFromRequestOrTemplate"} ELSE {})
         \cup (IF e.username \notin UserChoices(e) THEN {"G_C19_UserFromRequestOrTemplate"} ELSE {})
         \cup (IF ~e.crlf \/ e.malformed > 0 \/ e.dups > 0 THEN {"G_C19_WellFormedLines"} ELSE {})
         \cup (IF ~e.settingsEqual THEN {"G_C19_ReadBackEqual"} ELSE {})
    [] OTHER -> {"G_UnknownEvent"}
Cell(e) == CASE e.ev = "parse" -> <<"parse", IF e.ok THEN "ok" ELSE "err", Len(e.text)>>
             [] e.ev = "field" -> <<"field", e.kind, IF e.nonDefault THEN 1 ELSE 0>>
             [] e.ev = "download" -> <<"download", IF e.split THEN "split" ELSE "nosplit", e.pos>>
             [] OTHER -> <<e.ev, e.cls, 0>>
TInit == l = 1 /\ viol = {} /\ cover = {}
TNext == /\ l <= Len(TraceLog)
         /\ viol' = viol \cup {<<l, g, Line.ev, Line.cls>> : g \in Bad(Line)}
         /\ cover' = cover \cup {Cell(Line)}
         /\ l' = l + 1
TSpec == TInit /\ [][TNext]_tvars
AtEnd == l = Len(TraceLog) + 1 =>
           PrintT(<<"VERIF_RESULT", ToJson([viol |-> viol, cover |-> cover, lines |-> Len(TraceLog)])>>)
TraceAccepted == TLCGet("stats").diameter = Len(TraceLog) + 1
=============================================================================

#!/bin/bash
# seedcheck.sh <name> <seed-worktree> <demo-path-in-repo> <demo-test-regex> <property> [check ids...]
# 1. confirms in a scratch worktree: baseline suite passes with the patch; demo fails with it and passes without
# 2. stores the seed under /verif/seeded/<name>/
# 3. applies it to /repo, runs the given checks (quick), and undoes it
set -u
name=$1; src=$2; demo=$3; rx=$4; prop=$5; shift 5; checks="$@"
export GOFLAGS=-mod=mod GOPROXY=off GOSUMDB=off GOTOOLCHAIN=local
dst=/verif/seeded/$name; mkdir -p $dst
cp $src/SEED/patch.diff $dst/patch.diff
cp $src/$demo $dst/$(basename $demo).txt
[ -f $src/SEED/NOTES.md ] && cp $src/SEED/NOTES.md $dst/NOTES.md
scratch=/tmp/vseed-$name
git -C /repo worktree remove --force $scratch 2>/dev/null; git -C /repo worktree add -q $scratch HEAD
cd $scratch
pkg=./$(dirname $demo)/
res_suite_with="?"; res_demo_with="?"; res_demo_without="?"
cp $src/$demo $scratch/$demo
go test -vet=off -count=1 -run "$rx" $pkg > $dst/demo_without.txt 2>&1 && res_demo_without=pass || res_demo_without=FAIL
git apply $dst/patch.diff || { echo "patch does not apply"; exit 2; }
go test -vet=off -count=1 -run "$rx" $pkg > $dst/demo_with.txt 2>&1 && res_demo_with=pass || res_demo_with=FAIL
rm $scratch/$demo
go build ./cmd/rdpgw/... > $dst/build_with.txt 2>&1 && res_build=ok || res_build=FAIL
go test -json -vet=off -count=1 ./... 2>/dev/null | python3 -c "
import sys,json
p=set()
for l in sys.stdin:
    try: e=json.loads(l)
    except: continue
    if e.get('Test') and e.get('Action')=='pass': p.add(e['Package']+'::'+e['Test'])
base=set(json.load(open('/root/.vp/BASELINE.json'))['stable_pass'])
print('suite_with_patch: %d of %d baseline tests pass; missing=%s' % (len(base&p), len(base), sorted(base-p)))
" > $dst/suite_with.txt
cat $dst/suite_with.txt
cd /verif; git -C /repo worktree remove --force $scratch
echo "demo without patch: $res_demo_without (want pass) | demo with patch: $res_demo_with (want FAIL) | build: $res_build"
# now the checks
git -C /repo status --short | grep -q . && { echo "/repo not clean"; exit 2; }
git -C /repo apply $dst/patch.diff
declare -A out
for c in $checks; do
  ./bin/check $c --tier quick > $dst/check_$c.txt 2>&1; rc=$?
  out[$c]=$rc
  echo "check $c rc=$rc  $(grep -c '^VIOLATION' $dst/check_$c.txt) violation line(s): $(grep '^  G' $dst/check_$c.txt | sed 's/.*\[//; s/\]//' | head -3 | tr '\n' ' ')"
done
git -C /repo checkout -- . ; git -C /repo clean -fdq -- cmd shared; git -C /repo status --short; git -C /verif checkout -- evidence 2>/dev/null
python3 - "$name" "$prop" "$res_demo_without" "$res_demo_with" "$res_build" "$checks" <<PY
import json,sys,os
name,prop,dw,dwi,b,checks=sys.argv[1:7]
d='/verif/seeded/'+name
res={}
for c in checks.split():
    t=open(d+'/check_%s.txt'%c).read()
    res[c]={'exit': 1 if 'VIOLATION property=' in t else (2 if 'HARNESS-ERROR' in t else 0), 'signatures': sorted(set(l.split('[')[-1].rstrip(']\n') for l in t.splitlines() if l.startswith('  ') and '[' in l))[:8]}
meta={'name':name,'property':prop,'source':'independent sub-agent given only the property text and a scratch worktree','demo_without_patch':dw,'demo_with_patch':dwi,'builds_with_patch':b,
      'suite_with_patch':open(d+'/suite_with.txt').read().strip(),'checks_run':res,
      'needs': open(d+'/NOTES.md').read()[:1500] if os.path.exists(d+'/NOTES.md') else ''}
json.dump(meta,open(d+'/meta.json','w'),indent=1)
PY

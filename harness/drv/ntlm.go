package drv

import (
	"encoding/binary"
	"os"
	"context"
	"encoding/base64"
	"fmt"
	"math/rand"
	"net"
	"time"

	authcfg "github.com/bolkedebruin/rdpgw/cmd/auth/config"
	"github.com/bolkedebruin/rdpgw/cmd/auth/database"
	authntlm "github.com/bolkedebruin/rdpgw/cmd/auth/ntlm"
	"github.com/bolkedebruin/rdpgw/shared/auth"
	"github.com/m7913d/go-ntlm/ntlm"
	"google.golang.org/grpc"
	"google.golang.org/grpc/credentials/insecure"
)

// NtScript is a history of calls to the NTLM verifier.
type NtScript struct {
	ID      string                   `json:"id"`
	Origin  string                   `json:"origin"`
	Target  string                   `json:"target"` // direct | grpc
	Actions []map[string]interface{} `json:"actions"`
}

// alice's password contains characters that mean something to shells, templates and formatters: a password is an
// opaque string, what is configured is what has to be proven
const (
	NtAlicePw = "alice-$ecret$$pw-${HOME}-%s {{x}}"
)

const NtBobPw = "bob-other-secret-pw"

// ("off" is in the user file twice: an earlier entry with a password and a later one that replaces it with none)
func NtUsers() map[string]string {
	return map[string]string{"alice": NtAlicePw, "bob": NtBobPw, "empty": "", "off#first": NtOffEarlierPw, "off": ""}
}

const NtOffEarlierPw = "pw-off-earlier-entry"

// ntTarget abstracts the two ways of reaching the verifier.
type ntTarget interface {
	call(session, msg string) (*auth.NtlmResponse, error, string)
}

type ntDirect struct{ h *authntlm.NTLMAuth }

func (d ntDirect) call(session, msg string) (r *auth.NtlmResponse, err error, pan string) {
	defer func() {
		if x := recover(); x != nil {
			pan = fmt.Sprint(x)
			r = &auth.NtlmResponse{}
		}
	}()
	r, err = d.h.Authenticate(&auth.NtlmRequest{Session: session, NtlmMessage: msg})
	return r, err, ""
}

type ntGrpc struct {
	c      auth.AuthenticateClient
	prefix string
}

func (g ntGrpc) call(session, msg string) (*auth.NtlmResponse, error, string) {
	ctx, cancel := context.WithTimeout(context.Background(), 5*time.Second)
	defer cancel()
	r, err := g.c.NTLM(ctx, &auth.NtlmRequest{Session: g.prefix + session, NtlmMessage: msg})
	if r == nil {
		r = &auth.NtlmResponse{}
	}
	return r, err, ""
}

// DialAuth connects to a running rdpgw-auth.
func DialAuth(sock string) (*grpc.ClientConn, error) {
	return grpc.Dial(sock, grpc.WithTransportCredentials(insecure.NewCredentials()),
		grpc.WithContextDialer(func(ctx context.Context, addr string) (net.Conn, error) { return net.Dial("unix", addr) }))
}

func newDirect() ntDirect {
	var users []authcfg.UserConfig
	for _, e := range UserEntries(NtUsers()) {
		users = append(users, authcfg.UserConfig{Username: e[0], Password: e[1]})
	}
	return ntDirect{h: authntlm.NewNTLMAuth(database.NewConfig(users))}
}

// sessAddr turns the abstract session name of a script into an address:port session identifier.
func sessAddr(scriptID, name string) string {
	h := uint32(2166136261)
	for _, c := range []byte(scriptID) {
		h = (h ^ uint32(c)) * 16777619
	}
	port := 50000
	for _, c := range []byte(name) {
		port = port*7 + int(c)
	}
	port = 20000 + port%30000
	if h%5 == 0 {
		return fmt.Sprintf("[2001:db8:%x:%x::9]:%d", (h>>16)&0xffff, h&0xffff, port)
	}
	return fmt.Sprintf("10.%d.%d.%d:%d", (h>>16)&0xff, (h>>8)&0xff, h&0xff, port)
}

// RunNtlm replays one history and appends its trace.
func RunNtlm(s *NtScript, tw *TraceWriter, rng *rand.Rand, conn *grpc.ClientConn) error {
	var tg ntTarget
	if s.Target == "grpc" {
		if conn == nil {
			return fmt.Errorf("no auth service connection")
		}
		tg = ntGrpc{c: auth.NewAuthenticateClient(conn), prefix: ""}
	} else {
		tg = newDirect()
	}
	tw.Line(M{"ev": "reset", "script": s.ID, "origin": s.Origin, "target": s.Target})
	type chal struct {
		id  int
		msg *ntlm.ChallengeMessage
	}
	seen := map[string]*chal{} // session -> latest challenge the client received
	chSeq := 0
	var lastAuth string
	var lastAuthU string
	var lastAuthPwOk bool
	var lastAuthCh int
	for _, a := range s.Actions {
		kind := str(a, "a", "")
		// the gateway names a session by the client's address and port (r.RemoteAddr): the sessions of one script are
		// connections of one client host (same address, different ports), and every script is another host
		sess := sessAddr(s.ID, str(a, "s", "s1"))
		ev := M{"ev": "ntlm", "kind": kind, "s": sess, "u": "", "pwOk": false, "ch": 0, "target": s.Target}
		var msg string
		switch kind {
		case "neg":
			cl := &ntlm.V2ClientSession{}
			cl.SetUserInfo("any", "any", "")
			nm, err := cl.GenerateNegotiateMessage()
			if err != nil {
				return err
			}
			nb := nm.Bytes()
			if a["nover"] == true && len(nb) >= 40 {
				// the version field is optional (MS-NLMP 2.2.1.1): a 32-byte negotiate message without it, as non-Windows
				// clients send - flag NTLMSSP_NEGOTIATE_VERSION (0x02000000) cleared, empty domain / workstation fields
				// pointing at offset 32
				flags := binary.LittleEndian.Uint32(nb[12:16]) &^ 0x02000000
				short := make([]byte, 32)
				copy(short, nb[:12])
				binary.LittleEndian.PutUint32(short[12:16], flags)
				binary.LittleEndian.PutUint32(short[20:24], 32)
				binary.LittleEndian.PutUint32(short[28:32], 32)
				nb = short
			}
			msg = base64.StdEncoding.EncodeToString(nb)
		case "auth":
			u, pw := str(a, "u", "alice"), str(a, "pw", "right")
			src := sess
			if v := str(a, "src", ""); v != "" {
				src = sessAddr(s.ID, v)
			}
			c := seen[src]
			if c == nil {
				continue // the model only answers challenges that were received
			}
			pass := NtUsers()[u]
			name := u
			switch u {
			case "ALICE": // alice's name in another letter case, proven with alice's password
				pass = NtAlicePw
			case "alice_": // alice's name with a blank appended
				name, pass = "alice ", NtAlicePw
			case "off": // the password of the entry that the user file's later entry for this name replaced
				pass = NtOffEarlierPw
			}
			if pw == "wrong" {
				pass = pass + "-wrong"
			}
			if pw == "near" {
				// a wrong password: the configured one as it reads after environment-style expansion
				pass = os.ExpandEnv(pass)
				if pass == NtUsers()[u] {
					pass += "x"
				}
			}
			cl := &ntlm.V2ClientSession{}
			if pw == "asbob" {
				// the proof is computed from bob's name and password; the message will name `name`
				cl.SetUserInfo("bob", NtBobPw, "")
			} else {
				// (the domain a client names - none, a workgroup, a DNS domain - is part of what it proves with)
				cl.SetUserInfo(name, pass, str(a, "dom", ""))
			}
			if err := cl.ProcessChallengeMessage(c.msg); err != nil {
				return fmt.Errorf("client: %w", err)
			}
			am, err := cl.GenerateAuthenticateMessage()
			if err != nil {
				return fmt.Errorf("client: %w", err)
			}
			if pw == "asbob" {
				if up, e := ntlm.CreateStringPayload(name); e == nil {
					am.UserName = up
				}
			}
			msg = base64.StdEncoding.EncodeToString(am.Bytes())
			pwOk := (pw == "right" && NtUsers()[u] != "") || (pw == "asbob" && u == "bob")
			ev["u"], ev["pwOk"], ev["ch"] = u, pwOk, c.id
			lastAuth, lastAuthU, lastAuthPwOk, lastAuthCh = msg, u, pwOk, c.id
		case "replay":
			if lastAuth == "" {
				continue
			}
			msg = lastAuth
			ev["u"], ev["pwOk"], ev["ch"] = lastAuthU, lastAuthPwOk, lastAuthCh
		case "garbage":
			g := str(a, "g", "random")
			ev["g"] = g
			switch g {
			case "notbase64":
				msg = "!!!not base64!!!"
			case "random":
				b := make([]byte, 1+rng.Intn(80))
				rng.Read(b)
				msg = base64.StdEncoding.EncodeToString(b)
			case "sig-only":
				msg = base64.StdEncoding.EncodeToString([]byte("NTLMSSP\x00"))
			case "challenge-type":
				if c := seen[sess]; c != nil {
					msg = base64.StdEncoding.EncodeToString(c.msg.Bytes())
				} else {
					msg = base64.StdEncoding.EncodeToString(append([]byte("NTLMSSP\x00\x02\x00\x00\x00"), make([]byte, 40)...))
				}
			case "trunc-auth":
				if lastAuth != "" {
					b, _ := base64.StdEncoding.DecodeString(lastAuth)
					msg = base64.StdEncoding.EncodeToString(b[:len(b)/2])
				} else {
					msg = base64.StdEncoding.EncodeToString(append([]byte("NTLMSSP\x00\x03\x00\x00\x00"), make([]byte, 20)...))
				}
			case "short-neg":
				msg = base64.StdEncoding.EncodeToString(append([]byte("NTLMSSP\x00\x01\x00\x00\x00"), make([]byte, 4+rng.Intn(16))...))
			case "bad-offsets":
				b := append([]byte("NTLMSSP\x00\x03\x00\x00\x00"), make([]byte, 76)...)
				for k := 12; k < 60; k += 8 {
					b[k], b[k+1], b[k+2], b[k+3] = 0xff, 0x7f, 0xff, 0x7f
					b[k+4], b[k+5], b[k+6], b[k+7] = 0xf0, 0xff, 0xff, 0x7f
				}
				msg = base64.StdEncoding.EncodeToString(b)
			default:
				msg = base64.StdEncoding.EncodeToString([]byte{0})
			}
		default:
			continue
		}
		r, err, pan := tg.call(sess, msg)
		chIssued := 0
		if r.NtlmMessage != "" {
			if b, e := base64.StdEncoding.DecodeString(r.NtlmMessage); e == nil {
				if cm, e := ntlm.ParseChallengeMessage(b); e == nil {
					chSeq++
					chIssued = chSeq
					seen[sess] = &chal{id: chSeq, msg: cm}
				}
			}
		}
		ev["authed"], ev["retUser"], ev["chIssued"], ev["err"], ev["panic"] = r.Authenticated, r.Username, chIssued, err != nil, pan
		tw.Line(ev)
	}
	return nil
}

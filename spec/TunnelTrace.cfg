SPECIFICATION TSpec
CONSTANTS
  Configs <- TConfigs
  CapsVals <- TCaps
  BodyCls <- TBody
  Off <- TOff
  MaxSend = 0
  TraceFile <- TTraceFile
INVARIANT AtEnd
POSTCONDITION TraceAccepted
CHECK_DEADLOCK FALSE

SPECIFICATION Spec
CONSTANTS
  Tunnels <- MCTunnels
  Kind <- MCKind
INVARIANTS TypeOK RegistryMutex WriteMutex LoopImpliesRegistered NothingLeftWhenHandlersAreGone AtMostOneDial RelayNeedsConnection ConnectionNeedsRegisteredLoop ConnectionNeedsTheSteps PairingById InOnlyAfterPublish
CHECK_DEADLOCK FALSE

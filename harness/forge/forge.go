// Package forge is the harness's own JOSE writer and reader (stdlib crypto
// only). It builds the forged, re-signed, aged, nested and re-serialised tokens
// the specifications enumerate, and decodes gateway-minted tokens
// independently of go-jose.
package forge

import (
	"crypto"
	"crypto/hmac"
	"crypto/rand"
	"crypto/rsa"
	"crypto/sha256"
	"crypto/sha512"
	"encoding/base64"
	"encoding/json"
	"hash"
	"strings"
)

var enc = base64.RawURLEncoding

func B64(b []byte) string { return enc.EncodeToString(b) }

var rsaKey *rsa.PrivateKey

func RSAKey() *rsa.PrivateKey {
	if rsaKey == nil {
		rsaKey, _ = rsa.GenerateKey(rand.Reader, 2048)
	}
	return rsaKey
}

func mac(alg string, key, in []byte) []byte {
	var h func() hash.Hash
	switch alg {
	case "HS256":
		h = sha256.New
	case "HS384":
		h = sha512.New384
	case "HS512":
		h = sha512.New
	default:
		return nil
	}
	m := hmac.New(h, key)
	m.Write(in)
	return m.Sum(nil)
}

// JWS builds a compact JWS with the given protected header JSON and payload.
// alg: HS256 | HS384 | HS512 | RS256 | none.
func JWS(alg string, key []byte, headerJSON string, payload []byte) string {
	in := B64([]byte(headerJSON)) + "." + B64(payload)
	var sig []byte
	switch alg {
	case "HS256", "HS384", "HS512":
		sig = mac(alg, key, []byte(in))
	case "RS256":
		d := sha256.Sum256([]byte(in))
		sig, _ = rsa.SignPKCS1v15(rand.Reader, RSAKey(), crypto.SHA256, d[:])
	case "none":
		sig = nil
	}
	return in + "." + B64(sig)
}

func Header(alg string) string {
	return `{"alg":"` + alg + `","typ":"JWT"}`
}

// Claims marshals a claim map (nil values are dropped).
func Claims(m map[string]interface{}) []byte {
	out := map[string]interface{}{}
	for k, v := range m {
		if v != nil {
			out[k] = v
		}
	}
	b, _ := json.Marshal(out)
	return b
}

// Split returns the decoded segments of a compact token.
func Split(tok string) ([][]byte, bool) {
	parts := strings.Split(tok, ".")
	out := make([][]byte, len(parts))
	for i, p := range parts {
		b, err := enc.DecodeString(p)
		if err != nil {
			return nil, false
		}
		out[i] = b
	}
	return out, true
}

// SplitStrict is Split with canonical-encoding enforcement.
func SplitStrict(tok string) ([][]byte, bool) {
	parts := strings.Split(tok, ".")
	out := make([][]byte, len(parts))
	for i, p := range parts {
		b, err := enc.Strict().DecodeString(p)
		if err != nil {
			return nil, false
		}
		out[i] = b
	}
	return out, true
}

// PayloadClaims decodes the claims of a compact JWS without verifying it.
func PayloadClaims(tok string) (map[string]interface{}, bool) {
	segs, ok := Split(tok)
	if !ok || len(segs) != 3 {
		return nil, false
	}
	var m map[string]interface{}
	if json.Unmarshal(segs[1], &m) != nil {
		return nil, false
	}
	return m, true
}

// VerifyHS256 checks the MAC of a compact JWS independently.
func VerifyHS256(tok string, key []byte) bool {
	i := strings.LastIndex(tok, ".")
	if i < 0 {
		return false
	}
	sig, err := enc.DecodeString(tok[i+1:])
	if err != nil {
		return false
	}
	return hmac.Equal(sig, mac("HS256", key, []byte(tok[:i])))
}

// JSONGeneral re-serialises a compact JWS in the general JSON serialisation.
func JSONGeneral(tok string) string {
	p := strings.Split(tok, ".")
	if len(p) != 3 {
		return tok
	}
	return `{"payload":"` + p[1] + `","signatures":[{"protected":"` + p[0] + `","signature":"` + p[2] + `"}]}`
}

// JSONFlattened re-serialises a compact JWS in the flattened JSON serialisation.
func JSONFlattened(tok string) string {
	p := strings.Split(tok, ".")
	if len(p) != 3 {
		return tok
	}
	return `{"payload":"` + p[1] + `","protected":"` + p[0] + `","signature":"` + p[2] + `"}`
}

// Nested wraps a token as the payload of another HS256 JWS under key.
func Nested(tok string, key []byte) string {
	return JWS("HS256", key, `{"alg":"HS256","cty":"JWT"}`, []byte(tok))
}

// SameMeaning reports whether b decodes (leniently) to exactly the segments of a.
func SameMeaning(a, b string) bool {
	sa, ok1 := Split(a)
	sb, ok2 := Split(b)
	if !ok1 || !ok2 || len(sa) != len(sb) {
		return false
	}
	for i := range sa {
		if string(sa[i]) != string(sb[i]) {
			return false
		}
	}
	return true
}

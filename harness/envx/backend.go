package envx

import (
	"fmt"
	"errors"
	"io"
	"net"
	"os"
	"sync"
	"syscall"
	"time"
)

// Backend is a loopback listener standing in for a remote desktop host. It
// records every accepted connection and every byte received on it.
type Backend struct {
	Addr string
	IP   string
	Port int
	ln   net.Listener
	mu   sync.Mutex
	cond *sync.Cond
	cs   []*BConn
}

type BConn struct {
	slowStart, slowEvery time.Duration
	C      net.Conn
	mu     sync.Mutex
	cond   *sync.Cond
	recv   []byte
	closed string // "" open, "eof", "rst"
	At     time.Time
	EndAt  time.Time
}

func NewBackend(ip string) (*Backend, error) { return NewBackendAt(ip, 0) }

// NewBackendAt listens on a given port (0 = any).
func NewBackendAt(ip string, port int) (*Backend, error) {
	network := "tcp4"
	host := ip
	if ip == "::1" {
		network = "tcp6"
		host = "[::1]"
	}
	ln, err := net.Listen(network, fmt.Sprintf("%s:%d", host, port))
	if err != nil {
		return nil, err
	}
	b := &Backend{ln: ln, IP: ip, Port: ln.Addr().(*net.TCPAddr).Port, Addr: ln.Addr().String()}
	b.cond = sync.NewCond(&b.mu)
	go b.loop()
	return b, nil
}

func (b *Backend) loop() {
	for {
		c, err := b.ln.Accept()
		if err != nil {
			return
		}
		bc := &BConn{C: c, At: time.Now()}
		bc.cond = sync.NewCond(&bc.mu)
		b.mu.Lock()
		b.cs = append(b.cs, bc)
		b.cond.Broadcast()
		b.mu.Unlock()
		go bc.read()
	}
}

// SetSlow makes this host a busy one from now on: it lets `start` pass before it reads again and then takes at most
// 64 KiB every `every`.
func (c *BConn) SetSlow(start, every time.Duration) {
	c.mu.Lock()
	c.slowStart, c.slowEvery = start, every
	c.mu.Unlock()
}

func (c *BConn) read() {
	buf := make([]byte, 65536)
	for {
		c.mu.Lock()
		st, ev := c.slowStart, c.slowEvery
		c.slowStart = 0
		c.mu.Unlock()
		if st > 0 {
			time.Sleep(st)
		}
		if ev > 0 {
			time.Sleep(ev)
		}
		n, err := c.C.Read(buf)
		c.mu.Lock()
		if n > 0 {
			c.recv = append(c.recv, buf[:n]...)
		}
		if err != nil {
			if err == io.EOF {
				c.closed = "eof"
			} else if errors.Is(err, syscall.ECONNRESET) {
				c.closed = "rst"
			} else {
				c.closed = "closed"
			}
			c.EndAt = time.Now()
			c.cond.Broadcast()
			c.mu.Unlock()
			return
		}
		c.cond.Broadcast()
		c.mu.Unlock()
	}
}

func (b *Backend) Close() {
	b.ln.Close()
	b.mu.Lock()
	for _, c := range b.cs {
		c.C.Close()
	}
	b.mu.Unlock()
}

func (b *Backend) NConns() int {
	b.mu.Lock()
	defer b.mu.Unlock()
	return len(b.cs)
}

func (b *Backend) Conn(i int) *BConn {
	b.mu.Lock()
	defer b.mu.Unlock()
	if i >= 0 && i < len(b.cs) {
		return b.cs[i]
	}
	return nil
}

// WaitConn waits until at least n connections were accepted.
func (b *Backend) WaitConn(n int, timeout time.Duration) bool {
	// the deadline is fixed first and the wake-up comes a little after it: a wake-up that arrives before the deadline
	// has passed would leave the waiter asleep for good
	deadline := time.Now().Add(timeout)
	t := time.AfterFunc(timeout+5*time.Millisecond, func() { b.mu.Lock(); b.cond.Broadcast(); b.mu.Unlock() })
	defer t.Stop()
	b.mu.Lock()
	defer b.mu.Unlock()
	for len(b.cs) < n {
		if time.Now().After(deadline) {
			return false
		}
		b.cond.Wait()
	}
	return true
}

func (c *BConn) Len() int {
	c.mu.Lock()
	defer c.mu.Unlock()
	return len(c.recv)
}

func (c *BConn) Bytes() []byte {
	c.mu.Lock()
	defer c.mu.Unlock()
	return append([]byte(nil), c.recv...)
}

// WaitRecv waits until at least n bytes were received in total.
func (c *BConn) WaitRecv(n int, timeout time.Duration) bool {
	// the deadline is fixed first and the wake-up comes a little after it: a wake-up that arrives before the deadline
	// has passed would leave the waiter asleep for good
	deadline := time.Now().Add(timeout)
	t := time.AfterFunc(timeout+5*time.Millisecond, func() { c.mu.Lock(); c.cond.Broadcast(); c.mu.Unlock() })
	defer t.Stop()
	c.mu.Lock()
	defer c.mu.Unlock()
	for len(c.recv) < n {
		if c.closed != "" || time.Now().After(deadline) {
			return len(c.recv) >= n
		}
		c.cond.Wait()
	}
	return true
}

// WaitClosed waits for the gateway side to close; returns "eof", "rst",
// "closed" or "" on timeout.
func (c *BConn) WaitClosed(timeout time.Duration) string {
	// the deadline is fixed first and the wake-up comes a little after it: a wake-up that arrives before the deadline
	// has passed would leave the waiter asleep for good
	deadline := time.Now().Add(timeout)
	t := time.AfterFunc(timeout+5*time.Millisecond, func() { c.mu.Lock(); c.cond.Broadcast(); c.mu.Unlock() })
	defer t.Stop()
	c.mu.Lock()
	defer c.mu.Unlock()
	for c.closed == "" {
		if time.Now().After(deadline) {
			return ""
		}
		c.cond.Wait()
	}
	return c.closed
}

// FullyClosed tells, after the host has read EOF, whether the gateway really closed the connection or only its
// sending direction (a half close keeps the socket - and whoever reads from it in the gateway - alive): the host
// writes into the connection; a closed peer answers with a reset, so a later write fails.
func (c *BConn) FullyClosed(within time.Duration) bool {
	if c.Closed() == "rst" || c.Closed() == "closed" {
		return true
	}
	deadline := time.Now().Add(within)
	for time.Now().Before(deadline) {
		c.C.SetWriteDeadline(time.Now().Add(200 * time.Millisecond))
		if _, err := c.C.Write([]byte{0}); err != nil {
			return true
		}
		time.Sleep(30 * time.Millisecond)
	}
	return false
}

func (c *BConn) Closed() string {
	c.mu.Lock()
	defer c.mu.Unlock()
	return c.closed
}

func (c *BConn) Send(p []byte) error {
	// a gateway that stops reading from its host must not hang the harness
	c.C.SetWriteDeadline(time.Now().Add(60 * time.Second))
	_, err := c.C.Write(p)
	return err
}

func (c *BConn) Close() { c.C.Close() }

// ClosedPort returns a loopback port on which nothing listens.
var closedPortState struct {
	mu   sync.Mutex
	next int
}

// ClosedPort returns a port of 127.0.0.1 on which nothing listens and nothing will: it is taken from below the
// kernel's ephemeral range (the listeners of this harness get theirs from that range), and handed out once per process.
func ClosedPort() int {
	closedPortState.mu.Lock()
	defer closedPortState.mu.Unlock()
	if closedPortState.next == 0 {
		closedPortState.next = 6000 + (os.Getpid()*31)%5000
	}
	for i := 0; i < 6000; i++ {
		closedPortState.next++
		if closedPortState.next >= 12000 {
			closedPortState.next = 6000
		}
		p := closedPortState.next
		l, err := net.Listen("tcp4", fmt.Sprintf("127.0.0.1:%d", p))
		if err != nil {
			continue
		}
		l.Close()
		if l2, err := net.Listen("tcp4", fmt.Sprintf("127.0.0.2:%d", p)); err == nil {
			l2.Close()
			return p
		}
	}
	return 1
}

SPECIFICATION Spec
CONSTANTS
  Alphabet = {"SP", "COL", "k", "i", "1", "-", "HASH"}
  MaxLen = 3
INVARIANTS RoundTrip RoundTripOne NonIntegerRejected MissingFieldRejected CommentSkipped
CHECK_DEADLOCK FALSE

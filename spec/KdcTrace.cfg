SPECIFICATION TSpec
CONSTANTS
  KDCs = {"k1"}
  Deadline = 1
INVARIANT AtEnd
POSTCONDITION TraceAccepted
CHECK_DEADLOCK FALSE

SPECIFICATION Spec
CONSTANTS
  NC = 3
  NB = 3
  Lens = {"eq", "short", "long"}
INVARIANTS DeliveredBeforeClose ToHostExact ToHostNoInvention ToHostComplete ToClientPrefix
PROPERTY ToClientEventuallyAll
CHECK_DEADLOCK FALSE

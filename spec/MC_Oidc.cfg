SPECIFICATION Spec
CONSTANTS
  Browsers = {"b1", "b2"}
  MaxAge = 1
INVARIANTS AuthedOnlyByVerifiedCallback CallbackDecides FailingCallbackChangesNothing TamperedNeverAuthed FileOnlyForAuthenticated
CHECK_DEADLOCK FALSE

SPECIFICATION Spec
CONSTANTS Transport = "legacy"
INVARIANTS NothingBeforeTheEnd GaugeNeverNegative
PROPERTIES EndingReleasesEverything ReleasedIsStable
CHECK_DEADLOCK FALSE

package drv

import (
	"verifharness/wsraw"
	"reflect"
	"strings"
	"bytes"
	"fmt"
	"math/rand"
	"time"

	"verifharness/envx"
	"verifharness/gw"
	"verifharness/tsgu"
)

// MtScript interleaves the steps of several tunnels on one gateway.
type MtScript struct {
	ID       string    `json:"id"`
	Origin   string    `json:"origin"`
	Cfg      ScriptCfg `json:"cfg"`
	Tunnels  []Script  `json:"tunnels"`
	Schedule []int     `json:"schedule"` // tunnel index per step, in execution order
	// Contend: after the schedule, every tunnel with an open channel moves a stream in both directions AT THE SAME
	// TIME; the clients of the first Slow tunnels read in bursts with pauses so that the gateway's writes to them
	// block while the other tunnels are busy. KiB = host->client stream per slow tunnel (busy tunnels: a quarter).
	Contend *struct {
		Slow int `json:"slow"`
		KiB  int `json:"kib"`
	} `json:"contend,omitempty"`
	// Pairing: legacy connection pairs under identifiers of several forms; an inbound connection must pair with the
	// outbound connection that carries the same identifier and with no other
	Pairing bool `json:"pairing,omitempty"`
	// Overlap: a step of one tunnel is held between "the answer has been built" and "the answer is put on the transport"
	// (gate at the entry of the writer section) while the next scheduled step of ANOTHER tunnel is handled completely;
	// then it is let go.  Every tunnel must still get the answer to its own request (type, status, echoed fields).
	Overlap bool `json:"overlap,omitempty"`
}

type mtTunnel struct {
	ps      *ProtoSession
	next    int
	backend *envx.Backend
	n0      int
	bc      *envx.BConn
	hostPos int
	clientB []byte // DATA payload bytes this client received so far
	sentB   []byte // bytes this tunnel's host sent so far
	rng     *rand.Rand
}

// drain collects DATA payloads that arrived for a tunnel's client (short timeout).
func (m *mtTunnel) drain(d time.Duration) int {
	got := 0
	if m.ps.T == nil || m.ps.T.Exited {
		return 0
	}
	for {
		b, err := m.ps.T.Recv(d)
		if err != nil {
			return got
		}
		dd := tsgu.Decode(b)
		if dd.Type == tsgu.PktData {
			m.clientB = append(m.clientB, dd.Payload...)
			got += len(dd.Payload)
		} else {
			got += len(b)
		}
	}
}

// RunMulti executes the schedule and appends one contiguous trace per tunnel.
func (i *Inst) RunMulti(s *MtScript, tw *TraceWriter, rng *rand.Rand) error {
	if s.Pairing {
		return i.runPairing(s, tw, rng)
	}
	var ts []*mtTunnel
	defer func() {
		for _, m := range ts {
			if m.ps != nil {
				m.ps.Finish()
			}
		}
	}()
	for k, sc := range s.Tunnels {
		sc.Cfg = s.Cfg
		sc.ID = fmt.Sprintf("%s.t%d", s.ID, k)
		sc.Origin = s.Origin
		m := &mtTunnel{ps: i.NewSession(sc, rand.New(rand.NewSource(rng.Int63()))), rng: rand.New(rand.NewSource(rng.Int63()))}
		name := map[string]string{"PA": "A", "PB": "B", "PE": "E"}[sc.Tun.HostPort]
		if name == "" {
			name = "A"
		}
		m.backend = i.Backends[name]
		ts = append(ts, m)
	}
	// all tunnels are opened first (in order), then steps follow the schedule
	for _, m := range ts {
		if err := m.ps.Open(); err != nil {
			return err
		}
	}
	var firstErr error
	skipNext := false
	for si, ti := range s.Schedule {
		if skipNext {
			skipNext = false // this entry was executed as the overlapped partner of the previous one
			continue
		}
		if ti < 0 || ti >= len(ts) {
			continue
		}
		m := ts[ti]
		if m.next >= len(m.ps.S.Steps) {
			continue
		}
		st := m.ps.S.Steps[m.next]
		kind := str(st, "k", "")
		m.next++
		if kind == "hostsend" {
			if m.bc == nil {
				continue
			}
			n := num(st, "n", 64)
			chunk := make([]byte, n)
			m.rng.Read(chunk)
			m.sentB = append(m.sentB, chunk...)
			m.bc.Send(chunk)
			// the own client gets exactly these bytes ...
			deadline := time.Now().Add(5 * time.Second)
			for len(m.clientB) < len(m.sentB) && time.Now().Before(deadline) && m.ps.T != nil && !m.ps.T.Exited {
				b, err := m.ps.T.Recv(time.Until(deadline))
				if err != nil {
					break
				}
				if dd := tsgu.Decode(b); dd.Type == tsgu.PktData {
					m.clientB = append(m.clientB, dd.Payload...)
				}
			}
			m.drain(2 * time.Millisecond)
			own := bytes.Equal(m.clientB, m.sentB)
			// ... and nobody else gets anything
			foreign := false
			for oj, o := range ts {
				if oj != ti && o.drain(2*time.Millisecond) > 0 && !bytes.Equal(o.clientB, o.sentB) {
					foreign = true
				}
			}
			m.ps.Lines = append(m.ps.Lines, M{"ev": "iso", "dir": "b2c", "own": own, "foreign": foreign, "n": n})
			continue
		}
		if kind == "chan" {
			m.n0 = m.backend.NConns()
		}
		before := make([]int, len(ts))
		for oj, o := range ts {
			if o.bc != nil {
				before[oj] = o.bc.Len()
			}
		}
		var r Reaction
		var err error
		var overlapped *mtTunnel
		if y, yk := overlapPartner(s, ts, si, ti); y != nil && kind != "idle" && !m.ps.T.Exited && !(kind == "chan" && yk == "chan") {
			overlapped = y
			// hold this tunnel's answer at the entry of the writer section, handle the other tunnel's step, let go
			p := i.P
			gmark := p.Mark()
			if gerr := p.Gate("tun.write.begin", m.ps.T.Cid, "loop"); gerr != nil {
				return gerr
			}
			type res struct {
				r   Reaction
				err error
			}
			done := make(chan res, 1)
			go func(k int) { rr, e := m.ps.Step(k); done <- res{rr, e} }(m.next - 1)
			held := false
			var early *res
			deadline := time.Now().Add(3 * time.Second)
			for !held && early == nil && time.Now().Before(deadline) {
				select {
				case x := <-done:
					early = &x // the step produced no answer (or ended the tunnel before one): nothing to hold
				default:
					if idx, _ := p.Wait(gmark, 20*time.Millisecond, func(e gw.Event) bool { return e.Cid == m.ps.T.Cid && e.Pt == "tun.write.begin" && e.Gated }); idx >= 0 {
						held = true
					}
				}
			}
			if held && y.next < len(y.ps.S.Steps) && !y.ps.T.Exited {
				y.next++
				skipNext = true
				if yk == "chan" {
					y.n0 = y.backend.NConns()
				}
				ry, yerr := y.ps.Step(y.next - 1)
				if yerr != nil && firstErr == nil {
					firstErr = yerr
				}
				if yk == "chan" && ry.Conn && y.backend.WaitConn(y.n0+1, 3*time.Second) {
					y.bc = y.backend.Conn(y.n0)
				}
				if yk == "data" && y.bc != nil {
					if ry.FwdBytes > 0 {
						y.bc.WaitRecv(y.hostPos+ry.FwdBytes, 3*time.Second)
					}
					y.hostPos = y.bc.Len()
				}
			}
			p.Release("tun.write.begin", m.ps.T.Cid, "loop", 4)
			p.Ungate("tun.write.begin", m.ps.T.Cid, "loop")
			if early != nil {
				r, err = early.r, early.err
			} else {
				x := <-done
				r, err = x.r, x.err
			}
			if firstErr != nil {
				break
			}
		} else {
			r, err = m.ps.Step(m.next - 1)
		}
		if err != nil {
			if firstErr == nil {
				firstErr = err
			}
			break
		}
		if kind == "chan" && r.Conn {
			if m.backend.WaitConn(m.n0+1, 3*time.Second) {
				m.bc = m.backend.Conn(m.n0)
			}
		}
		if kind == "data" && m.bc != nil && !r.Skipped {
			if r.FwdBytes > 0 {
				m.bc.WaitRecv(m.hostPos+r.FwdBytes, 3*time.Second)
			}
			all := m.bc.Bytes()
			got := all[m.hostPos:]
			m.hostPos = len(all)
			own := len(got) == num(st, "n", 16) // payload content is checked by C06; here: the right amount at the right host
			foreign := false
			time.Sleep(time.Millisecond)
			for oj, o := range ts {
				if oj != ti && o != overlapped && o.bc != nil && o.bc.Len() != before[oj] {
					foreign = true
				}
			}
			m.ps.Lines = append(m.ps.Lines, M{"ev": "iso", "dir": "c2b", "own": own, "foreign": foreign, "n": len(got)})
		}
	}
	if s.Contend != nil && firstErr == nil {
		firstErr = i.contend(ts, s.Contend.Slow, s.Contend.KiB, rng)
	}
	for _, m := range ts {
		m.ps.Finish()
		for _, l := range m.ps.Lines {
			tw.Line(l)
		}
		m.ps = nil
	}
	return firstErr
}

// overlapPartner: in an Overlap script, the tunnel of the next schedule entry when it is another tunnel whose next step is
// a packet (not a host-side action), else nil.
func overlapPartner(s *MtScript, ts []*mtTunnel, si, ti int) (*mtTunnel, string) {
	if !s.Overlap || si+1 >= len(s.Schedule) {
		return nil, ""
	}
	tj := s.Schedule[si+1]
	if tj == ti || tj < 0 || tj >= len(ts) {
		return nil, ""
	}
	y := ts[tj]
	if y.next >= len(y.ps.S.Steps) {
		return nil, ""
	}
	k := str(y.ps.S.Steps[y.next], "k", "")
	if k == "hostsend" || k == "idle" || k == "ownerget" || k == "reout" {
		return nil, ""
	}
	return y, k
}

// stream is a per-tunnel pseudo random byte stream: no two tunnels share content.
func stream(seed int64, n int) []byte {
	b := make([]byte, n)
	rand.New(rand.NewSource(seed)).Read(b)
	return b
}

// contend moves data on all open tunnels concurrently and records, per tunnel and direction, whether exactly the
// tunnel's own stream arrived (own) and whether bytes arrived that are not at that position of its own stream (foreign).
func (i *Inst) contend(ts []*mtTunnel, slow, kib int, rng *rand.Rand) error {
	type res struct {
		ownDown, foreignDown, ownUp, foreignUp bool
		nDown, nUp                             int
	}
	var open []*mtTunnel
	for _, m := range ts {
		if m.bc != nil && m.ps.T != nil && !m.ps.T.Exited {
			m.drain(2 * time.Millisecond)
			open = append(open, m)
		}
	}
	if len(open) == 0 {
		return nil
	}
	var stalled error
	results := make([]res, len(open))
	done := make(chan int, len(open))
	for k, m := range open {
		isSlow := k < slow
		nDown := kib * 1024
		if !isSlow {
			nDown = kib * 256
		}
		nUp := 64 * 1024
		down := stream(rng.Int63(), nDown)
		up := stream(rng.Int63(), nUp)
		hostBase := m.bc.Len()
		go func(k int, m *mtTunnel) {
			r := res{}
			// host -> client
			go func() {
				for off := 0; off < len(down); {
					n := 1 + m.rng.Intn(16000)
					if off+n > len(down) {
						n = len(down) - off
					}
					if m.bc.Send(down[off:off+n]) != nil {
						return
					}
					off += n
				}
			}()
			// client -> host, as DATA packets of varying size
			go func() {
				for off := 0; off < len(up); {
					n := 1 + m.rng.Intn(3000)
					if off+n > len(up) {
						n = len(up) - off
					}
					if m.ps.T.SendRaw(tsgu.Data(uint16(n), up[off:off+n])) != nil {
						return
					}
					off += n
				}
			}()
			// the client reads: a slow one waits first and then reads in bursts with pauses
			if isSlow {
				time.Sleep(400 * time.Millisecond)
			}
			got := 0
			bad := false
			burst := 0
			deadline := time.Now().Add(40 * time.Second)
			for got < len(down) && time.Now().Before(deadline) {
				b, err := m.ps.T.Recv(3 * time.Second)
				if err != nil {
					break
				}
				dd := tsgu.Decode(b)
				if dd.Type != tsgu.PktData {
					continue
				}
				pl := dd.Payload
				if got+len(pl) > len(down) || !bytes.Equal(pl, down[got:got+len(pl)]) || !dd.WellForm {
					bad = true
				}
				got += len(pl)
				if isSlow {
					burst += len(pl)
					if burst > 96*1024 {
						burst = 0
						time.Sleep(4 * time.Millisecond)
					}
				}
			}
			r.nDown = got
			r.ownDown = got == len(down) && !bad
			r.foreignDown = bad
			// what the host received
			m.bc.WaitRecv(hostBase+len(up), 10*time.Second)
			hb := m.bc.Bytes()[hostBase:]
			r.nUp = len(hb)
			r.ownUp = bytes.Equal(hb, up)
			r.foreignUp = len(hb) > len(up) || !bytes.Equal(hb, up[:len(hb)])
			results[k] = r
			done <- k
		}(k, m)
	}
	for range open {
		<-done
	}
	for k, m := range open {
		r := results[k]
		cls := "busy"
		if k < slow {
			cls = "slow"
		}
		m.ps.Lines = append(m.ps.Lines, M{"ev": "iso", "dir": "b2c-contended-" + cls, "own": r.ownDown, "foreign": r.foreignDown, "n": r.nDown})
		m.ps.Lines = append(m.ps.Lines, M{"ev": "iso", "dir": "c2b-contended-" + cls, "own": r.ownUp, "foreign": r.foreignUp, "n": r.nUp})
		m.hostPos = m.bc.Len()
		// an incomplete stream without a single wrong byte within the generous time limit is a stall of the run
		// (overloaded machine), not an observation about isolation
		if !r.foreignDown && !r.ownDown && stalled == nil {
			stalled = fmt.Errorf("contention phase: client of tunnel %d got %d bytes of its stream within the time limit, none of them wrong", k, r.nDown)
		}
	}
	return stalled
}


// runPairing: two legacy tunnels at a time whose connection identifiers are distinct but alike (several forms); the
// answer to a handshake sent on an inbound connection must arrive on the outbound connection with the same
// identifier, and an inbound connection without a partner must not be paired with anybody.
func (i *Inst) runPairing(s *MtScript, tw *TraceWriter, rng *rand.Rand) error {
	rd := s.Cfg.Redir
	if rd == nil {
		rd = DefaultRedir()
	}
	tw.Line(M{"ev": "reset", "script": s.ID, "origin": s.Origin, "transport": "legacy",
		"cfg": M{"tokenAuth": s.Cfg.TokenAuth, "smartCard": s.Cfg.SmartCard, "redir": rd, "idle": s.Cfg.Idle}})
	n := rng.Intn(1 << 30)
	long := strings.Repeat("k", 180)
	pairs := [][3]string{
		{"word", fmt.Sprintf("conn-%d-1", n), fmt.Sprintf("conn-%d-2", n)},
		{"guid", fmt.Sprintf("{6F1C7A52-1111-4000-8000-%012X}", n), fmt.Sprintf("{6F1C7A52-1111-4000-8000-%012X}", n+1)},
		{"guid-plain", fmt.Sprintf("6f1c7a52-2222-4000-8000-%012x", n), fmt.Sprintf("6f1c7a52-2222-4000-8000-%012x", n+1)},
		{"case", fmt.Sprintf("Station-%d-ABC", n), fmt.Sprintf("station-%d-abc", n)},
		{"path", fmt.Sprintf("workstation-%d/session-9", n), fmt.Sprintf("workstation-%d/session-8", n)},
		{"long", long + fmt.Sprint(n) + "a", long + fmt.Sprint(n) + "b"},
		{"prefix", fmt.Sprintf("id-%d", n), fmt.Sprintf("id-%d-x", n)},
	}
	caps := uint16(0)
	if s.Cfg.TokenAuth {
		caps = 2
	}
	pc := i.NewProtoCtx(Script{Cfg: s.Cfg, Transport: "legacy", Tun: TunParams{User: "nuser1"}}, rng)
	isHsResp := func(b []byte) bool { return len(b) >= 8 && tsgu.Decode(b).Type == 2 }
	for _, pr := range pairs {
		dA := i.dialOpts(pc.OpenOpts(), pr[1])
		dB := i.dialOpts(pc.OpenOpts(), pr[2])
		outA, _, errA := wsraw.DialLegacyOut(dA)
		time.Sleep(30 * time.Millisecond)
		outB, _, errB := wsraw.DialLegacyOut(dB)
		time.Sleep(30 * time.Millisecond)
		if errA != nil || errB != nil || outA == nil || outB == nil {
			return fmt.Errorf("pairing %s: cannot open the outbound connections (%v %v)", pr[0], errA, errB)
		}
		exchange := func(d wsraw.DialOpts, own, other *wsraw.LegacyOut) (bool, bool, *wsraw.LegacyIn) {
			in, _, err := wsraw.DialLegacyIn(d)
			if err != nil || in == nil {
				return false, false, nil
			}
			in.WriteChunk(make([]byte, 100))
			time.Sleep(30 * time.Millisecond)
			in.WriteChunk(tsgu.Handshake(1, 0, 0, caps))
			b, err := own.ReadPacket(3 * time.Second)
			ownOK := err == nil && isHsResp(b)
			x, err2 := other.ReadSome(150 * time.Millisecond)
			return ownOK, err2 == nil && len(x) > 0, in
		}
		ownB, leakA, inB := exchange(dB, outB, outA)
		tw.Line(M{"ev": "iso", "dir": "pair-" + pr[0] + "-second", "own": ownB, "foreign": leakA, "n": 0})
		ownA, leakB, inA := exchange(dA, outA, outB)
		tw.Line(M{"ev": "iso", "dir": "pair-" + pr[0] + "-first", "own": ownA, "foreign": leakB, "n": 0})
		// an inbound connection whose identifier no outbound connection carries
		dC := i.dialOpts(pc.OpenOpts(), pr[1]+"-nobody")
		if inC, _, err := wsraw.DialLegacyIn(dC); err == nil && inC != nil {
			inC.WriteChunk(make([]byte, 100))
			time.Sleep(20 * time.Millisecond)
			inC.WriteChunk(tsgu.Handshake(1, 0, 0, caps))
			xa, _ := outA.ReadSome(150 * time.Millisecond)
			xb, _ := outB.ReadSome(50 * time.Millisecond)
			tw.Line(M{"ev": "iso", "dir": "pair-" + pr[0] + "-nobody", "own": true, "foreign": len(xa) > 0 || len(xb) > 0, "n": 0})
			inC.Close()
		}
		for _, c := range []interface{ Close() error }{inA, inB} {
			if c != nil && !reflect.ValueOf(c).IsNil() {
				c.Close()
			}
		}
		outA.Close()
		outB.Close()
		time.Sleep(20 * time.Millisecond)
	}
	// websocket clients that send NO connection identifier at all, two at a time and a third after they have gone: each
	// is a tunnel of its own and reads the answers to its own requests (told apart by the version bytes they are echoed)
	wsHs := func(w *wsraw.WS, major, minor byte) (own, foreign bool) {
		if w == nil {
			return false, false
		}
		w.WriteBinary(tsgu.Handshake(major, minor, 0, caps))
		_, b, err := w.ReadMessage(3 * time.Second)
		if err != nil {
			return false, false
		}
		d := tsgu.Decode(b)
		own = d.Type == 2 && d.Major == int(major) && d.Minor == int(minor)
		return own, !own
	}
	for round := 0; round < 2; round++ {
		dA := i.dialOpts(pc.OpenOpts(), "")
		wa, _, errA := wsraw.DialWS(dA)
		time.Sleep(30 * time.Millisecond)
		wb, _, errB := wsraw.DialWS(dA)
		time.Sleep(30 * time.Millisecond)
		if errA != nil || errB != nil || wa == nil || wb == nil {
			return fmt.Errorf("pairing no-identifier: cannot open the websocket connections (%v %v)", errA, errB)
		}
		ownB, forB := wsHs(wb, byte(20+round), 2)
		tw.Line(M{"ev": "iso", "dir": "pair-noid-ws-second", "own": ownB, "foreign": forB, "n": 0})
		ownA, forA := wsHs(wa, byte(10+round), 1)
		// (what the second client's exchange may have put on the first client's connection is read by the first one's exchange)
		tw.Line(M{"ev": "iso", "dir": "pair-noid-ws-first", "own": ownA, "foreign": forA, "n": 0})
		wa.Close()
		wb.Close()
		time.Sleep(50 * time.Millisecond)
		wc, _, errC := wsraw.DialWS(dA)
		if errC != nil || wc == nil {
			return fmt.Errorf("pairing no-identifier: cannot open the third websocket connection (%v)", errC)
		}
		ownC, forC := wsHs(wc, byte(30+round), 3)
		tw.Line(M{"ev": "iso", "dir": "pair-noid-ws-after", "own": ownC, "foreign": forC, "n": 0})
		wc.Close()
		time.Sleep(30 * time.Millisecond)
	}
	return nil
}

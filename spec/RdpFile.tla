------------------------------- MODULE RdpFile -------------------------------
(* The RDP connection-file reader and writer of rdpgw                           *)
(* (cmd/rdpgw/rdp/koanf/parsers/rdp): a transcription of the line grammar over  *)
(* a small symbol alphabet.  A text is a sequence of symbols.                   *)
(*   SP space, CR, LF, COL ':', HASH '#', letters k i s b, digit 1, '-', E (a   *)
(*   non-ASCII letter).                                                         *)
EXTENDS Integers, Sequences, FiniteSets, TLC

Blank(c) == c \in {"SP", "CR", "LF"}

RECURSIVE TrimL(_), TrimR(_)
TrimL(x) == IF x # <<>> /\ Blank(Head(x)) THEN TrimL(Tail(x)) ELSE x
TrimR(x) == IF x # <<>> /\ Blank(x[Len(x)]) THEN TrimR(SubSeq(x, 1, Len(x) - 1)) ELSE x
Trim(x) == TrimR(TrimL(x))

\* index of the first occurrence of c in x, 0 if none
RECURSIVE IdxFrom(_, _, _)
IdxFrom(x, c, i) == IF i > Len(x) THEN 0 ELSE IF x[i] = c THEN i ELSE IdxFrom(x, c, i + 1)
Idx(x, c) == IdxFrom(x, c, 1)

\* lines: split at LF, a CR right before the LF (or at the very end) is dropped
RECURSIVE Lines(_)
DropCR(x) == IF x # <<>> /\ x[Len(x)] = "CR" THEN SubSeq(x, 1, Len(x) - 1) ELSE x
Lines(t) == IF t = <<>> THEN <<>>
            ELSE LET i == Idx(t, "LF") IN
                 IF i = 0 THEN <<DropCR(t)>>
                 ELSE <<DropCR(SubSeq(t, 1, i - 1))>> \o Lines(SubSeq(t, i + 1, Len(t)))

IsInt(v) == /\ v # <<>>
            /\ LET d == IF Head(v) = "-" THEN Tail(v) ELSE v IN d # <<>> /\ \A j \in 1..Len(d) : d[j] = "1"

\* one line -> [kind: "skip" | "err" | "entry", key, t, v]
NoEntry(kind) == [kind |-> kind, key |-> <<>>, t |-> "none", v |-> <<>>]
ParseLine(raw) ==
  LET l == Trim(raw) IN
  IF l = <<>> \/ Head(l) = "HASH" THEN NoEntry("skip")
  ELSE LET i == Idx(l, "COL") IN
       IF i = 0 THEN NoEntry("err")
       ELSE LET rest == SubSeq(l, i + 1, Len(l))
                j == Idx(rest, "COL") IN
            IF j = 0 THEN NoEntry("err")
            ELSE LET key == Trim(SubSeq(l, 1, i - 1))
                     ty == Trim(SubSeq(rest, 1, j - 1))
                     val == Trim(SubSeq(rest, j + 1, Len(rest))) IN
                 IF ty = <<"i">> THEN (IF IsInt(val) THEN [kind |-> "entry", key |-> key, t |-> "int", v |-> val] ELSE NoEntry("err"))
                 ELSE IF ty = <<"s">> \/ ty = <<"b">> THEN [kind |-> "entry", key |-> key, t |-> "str", v |-> val]
                 ELSE NoEntry("err")

\* whole text -> [ok, m]: m = set of <<key, type, value>> (later lines overwrite earlier ones); ok = FALSE: rejected
Failed == [ok |-> FALSE, m |-> {}]
RECURSIVE Fold(_, _)
Fold(ls, acc) ==
  IF ls = <<>> THEN [ok |-> TRUE, m |-> acc]
  ELSE LET r == ParseLine(Head(ls)) IN
       IF r.kind = "err" THEN Failed
       ELSE IF r.kind = "skip" THEN Fold(Tail(ls), acc)
       ELSE Fold(Tail(ls), {e \in acc : e[1] # r.key} \cup {<<r.key, r.t, r.v>>})
Parse(t) == Fold(Lines(t), {})
Ok(m) == [ok |-> TRUE, m |-> m]

\* writer: one "key:type:value CRLF" line per entry (the real one sorts by key; order is immaterial to Parse)
LineOf(e) == e[1] \o <<"COL">> \o <<IF e[2] = "int" THEN "i" ELSE "s">> \o <<"COL">> \o e[3] \o <<"CR", "LF">>
RECURSIVE MarshalSeq(_)
MarshalSeq(es) == IF es = <<>> THEN <<>> ELSE LineOf(Head(es)) \o MarshalSeq(Tail(es))

\* values the property speaks about: no CR/LF, no leading/trailing blanks; keys in addition without ':' and not starting with '#'
CleanVal(v) == Trim(v) = v /\ \A j \in 1..Len(v) : v[j] \notin {"CR", "LF"}
CleanKey(k) == CleanVal(k) /\ k # <<>> /\ Head(k) # "HASH" /\ \A j \in 1..Len(k) : k[j] # "COL"
=============================================================================

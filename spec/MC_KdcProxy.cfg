SPECIFICATION Spec
CONSTANTS
  KDCs = {"k1", "k2"}
  Deadline = 2
INVARIANTS RejectedUntouched OnlyTheMessageIsSent OnlyToTheRealmsKdcs ReplyIsAKdcReply SuccessOnlyWhenAnswered
PROPERTIES AlwaysAnswers
CHECK_DEADLOCK FALSE

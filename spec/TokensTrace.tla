----------------------------- MODULE TokensTrace -----------------------------
(* Trace specification for the token verifiers: every presentation of a cookie *)
(* to security.CheckPAACookie (C02) and of a user token to security.UserInfo   *)
(* and the /tokeninfo handler (C15), recorded from the real code, is judged    *)
(* with the Tokens operators.                                                  *)
EXTENDS Tokens, Json, TLC, TLCExt, IOUtils

TTraceFile == IF "TRACE" \in DOMAIN IOEnv THEN IOEnv.TRACE ELSE "trace.ndjson"
TraceLog == ndJsonDeserialize(TTraceFile)

VARIABLES l, viol, cover
tvars == <<l, viol, cover>>
Line == TraceLog[l]

PaaGuards == {"G_C02_Sound", "G_C02_Complete", "G_C02_NoIdpNoEntry", "G_C10_NoPanic"}
PaaHolds(g, e) ==
  CASE g = "G_C02_Sound"    -> e.accepted => PaaAccept(e.tok)
    [] g = "G_C02_Complete" -> (PaaAccept(e.tok) /\ e.tok.mut = "none" /\ PaaJudgeable(e.tok)) => e.accepted
    [] g = "G_C02_NoIdpNoEntry" -> e.accepted => e.userinfoCalls >= 1   \* acceptance always consulted the IdP
    [] g = "G_C10_NoPanic"  -> e.panic = ""

MintGuards == {"G_C02_MintLifetime", "G_C02_FreshAccepted", "G_C02_MintForm"}
MintHolds(g, e) ==
  CASE g = "G_C02_MintLifetime" -> e.expIn >= 0 /\ e.expIn <= Lifetime
    [] g = "G_C02_FreshAccepted" -> e.atValid => e.acceptedFresh
    [] g = "G_C02_MintForm" -> e.iss = "rdpgw" /\ e.hs256 /\ (e.acceptedFresh => (e.claimsHost /\ e.userIsSub))

UserGuards == {"G_C15_Status", "G_C15_ApiAgrees", "G_C15_Subject", "G_C15_NoDisclosure", "G_C15_Opaque"}
UserHolds(g, e) ==
  LET want == TokenInfoStatus(e.vm, e.method, e.hasParam, e.tok)
      free == e.tok.mut = "neutral" IN     \* re-encodings with the same meaning may be accepted or refused
  CASE g = "G_C15_Status" -> IF free /\ e.method = "GET" /\ e.hasParam THEN e.status \in {200, 403} ELSE e.status = want
    [] g = "G_C15_ApiAgrees" -> (e.method = "GET" /\ e.hasParam /\ e.tok.form # "empty") => (e.apiOK <=> e.status = 200)
    [] g = "G_C15_Subject" -> e.status = 200 => (e.subjectIsUser /\ e.bodyHasSubject)
    [] g = "G_C15_NoDisclosure" -> e.status # 200 => ~e.bodyHasClaims
    [] g = "G_C15_Opaque" -> (e.tok.form = "jwe" /\ e.tok.encKey = "gw" /\ e.tok.mut = "none") => ~e.leak

Bad(e) == CASE e.ev = "paa"  -> {g \in PaaGuards : ~PaaHolds(g, e)}
            [] e.ev = "mint" -> {g \in MintGuards : ~MintHolds(g, e)}
            [] e.ev = "usertok" -> {g \in UserGuards : ~UserHolds(g, e)}
            [] OTHER -> {"G_UnknownEvent"}

Cell(e) == CASE e.ev = "paa" -> <<"paa", e.kind, IF e.accepted THEN "accepted" ELSE "refused">>
             [] e.ev = "mint" -> <<"mint", "mint", IF e.acceptedFresh THEN "accepted" ELSE "refused">>
             [] e.ev = "usertok" -> <<e.vm, e.kind, ToString(e.status)>>
             [] OTHER -> <<"?", "?", "?">>

TInit == l = 1 /\ viol = {} /\ cover = {}
TNext == /\ l <= Len(TraceLog)
         /\ viol' = viol \cup {<<l, g, Line.ev, Line.kind>> : g \in Bad(Line)}
         /\ cover' = cover \cup {Cell(Line)}
         /\ l' = l + 1
TSpec == TInit /\ [][TNext]_tvars
AtEnd == l = Len(TraceLog) + 1 =>
           PrintT(<<"VERIF_RESULT", ToJson([viol |-> viol, cover |-> cover, lines |-> Len(TraceLog)])>>)
TraceAccepted == TLCGet("stats").diameter = Len(TraceLog) + 1
=============================================================================

----------------------------- MODULE HostileTrace -----------------------------
(* Trace specification for C10: every hostile input sent to the real binaries    *)
(* with what was observed afterwards.                                            *)
EXTENDS Hostile, Json, TLCExt, IOUtils
TTraceFile == IF "TRACE" \in DOMAIN IOEnv THEN IOEnv.TRACE ELSE "trace.ndjson"
TraceLog == ndJsonDeserialize(TTraceFile)
VARIABLES l, viol, cover
tvars == <<alive, authAlive, panics, last, l, viol, cover>>
Line == TraceLog[l]
\* e: [ep, cls, cfg, phase, panicked, alive, authAlive, probeOK, wedged, outcome]
Bad(e) ==
  (IF e.panicked THEN {"G_C10_NoPanic"} ELSE {})
  \cup (IF ~e.alive THEN {"G_C10_GatewayKeepsRunning"} ELSE {})
  \cup (IF ~e.authAlive THEN {"G_C10_AuthServiceKeepsRunning"} ELSE {})
  \cup (IF ~e.probeOK THEN {"G_C10_OthersStillServed"} ELSE {})
  \cup (IF e.wedged THEN {"G_C10_NoWedge"} ELSE {})
  \cup (IF e.ep \notin EntryPoints \/ e.cls \notin Classes(e.ep) THEN {"G_UnknownClass"} ELSE {})
TInit == l = 1 /\ viol = {} /\ cover = {} /\ Init
TNext == /\ l <= Len(TraceLog)
         /\ viol' = viol \cup {<<l, g, Line.ep, Line.cls>> : g \in Bad(Line)}
         /\ cover' = cover \cup {<<Line.ep, Line.cls, Line.outcome>>}
         /\ l' = l + 1 /\ UNCHANGED <<alive, authAlive, panics, last>>
TSpec == TInit /\ [][TNext]_tvars
AtEnd == l = Len(TraceLog) + 1 =>
           PrintT(<<"VERIF_RESULT", ToJson([viol |-> viol, cover |-> cover, lines |-> Len(TraceLog)])>>)
TraceAccepted == TLCGet("stats").diameter = Len(TraceLog) + 1
=============================================================================

"""Per-property checks. Each returns a check.Outcome."""
import json, os, random
from vlib import *
import fam_tunnel as ft

NEEDS_RACE = {"C09"}
CHECKS = {}


def check(pid):
    def deco(f):
        CHECKS[pid] = f
        return f
    return deco


def Outcome():
    import check as chk
    return chk.Outcome()


# ---------------------------------------------------------------- tunnel family

def tunnel_family(pid, work, tier, seed, scripts, design, guards=None, what="", extra_cov=None, jobs=12, owns=None):
    """Run scripts, validate with TunnelTrace, keep the violations of `pid`
    (re-executed once to confirm) and describe the coverage."""
    out = Outcome()
    res = ft.run_scripts(work, scripts, seed, tier, tag=pid.lower(), jobs=jobs)
    if owns is None:
        owns = lambda v: guard_property(v["guard"]) == pid and (guards is None or v["guard"] in guards)
    mine = [v for v in res["viol"] if owns(v)]
    others = sorted({v["guard"] for v in res["viol"] if not owns(v)})
    confirmed = []
    sigof = lambda v: "%s/%s.%s/%s/%s" % (v["guard"], v["k"], v["cls"], v["phase"], v["transport"])
    histories = {}
    if mine:
        per = {}
        for v in mine:
            l = per.setdefault(sigof(v), [])
            if v["script"] not in l and len(l) < 3:
                l.append(v["script"])
        sids = sorted({x for l in per.values() for x in l})
        again = [s for s in scripts if s["id"] in sids]
        res2 = ft.run_scripts(work, again, seed, tier, tag=pid.lower() + "-confirm", jobs=jobs)
        seen2 = {sigof(v) for v in res2["viol"] if owns(v)}
        confirmed = [v for v in mine if sigof(v) in seen2]
        # a reaction may depend on what earlier tunnels did on the same gateway instance (state shared
        # between tunnels): signatures that do not show when the script runs alone are re-executed
        # together with the scripts that ran before it on its instance, in the same order
        left = sorted(set(per) - seen2)
        if left:
            byid0 = {s["id"]: s for s in scripts}
            grouped, want = [], {}
            for n, sig in enumerate(left[:12]):
                sid = per[sig][0]
                hist = ft.history_of(res["lines"], sid)
                g = "H%d" % n
                for hs in hist:
                    if hs in byid0:
                        grouped.append(dict(byid0[hs], id="%s@%s" % (hs, g), grp=g))
                want[g] = sig
                histories[sig] = [byid0[hs] for hs in hist if hs in byid0]
            res3 = ft.run_scripts(work, grouped, seed, tier, tag=pid.lower() + "-confirm-hist", jobs=jobs)
            seen3 = set()
            for v in res3["viol"]:
                if owns(v) and "@" in str(v["script"]):
                    g = v["script"].rsplit("@", 1)[1]
                    if want.get(g) == sigof(v):
                        seen3.add(sigof(v))
            for v in mine:
                if sigof(v) in seen3:
                    v["with_history"] = True
                    confirmed.append(v)
        if not confirmed:
            raise HarnessError("violations of %s did not reproduce on re-execution (alone and with the history of their gateway instance): %s" % (pid, sorted(per)[:5]))
    byid = {s["id"]: s for s in scripts}
    for v in confirmed:
        sig = sigof(v)
        out.violations.append({"signature": sig, "what": "%s violated by the gateway's reaction to a %s packet in phase %s over %s" % (v["guard"], v["k"], v["phase"], v["transport"]),
                               "guard": v["guard"], "script": byid.get(v["script"]), "step": v["step"], "event": v["event"],
                               "history": histories.get(sig) if v.get("with_history") else None,
                               "replay": "./bin/check %s --replay <this file>" % pid})
    cover = res["result"]["cover"]
    ntraces = len(scripts)
    sample = []
    for s in scripts[:2]:
        tl = [e for e in res["lines"]]
        idx = next((i for i, e in enumerate(tl) if e.get("ev") == "reset" and e.get("script") == s["id"]), None)
        if idx is not None:
            j = idx + 1
            while j < len(tl) and tl[j].get("ev") != "reset":
                j += 1
            sample.append({"script": s, "trace": tl[idx:j][:6]})
    out.coverage = {
        "states": design.get("distinct", 0), "transitions": design.get("generated", 0),
        "traces_validated_against_impl": ntraces,
        "evaluations": res["result"]["lines"],
        "distinct_nontrivial": len(cover),
        "rule": "scripts = forceable (state,packet) cover of the TLC state graph of Tunnel + seeded random sequences, each run on the real rdpgw binary; "
                "distinct_nontrivial = distinct (packet kind, phase before, response class) cells of the envelope observed on the implementation",
        "envelope_cells_observed": sorted(["%s@%s->%s" % tuple(c) for c in cover]),
        "trace_events": res["result"]["lines"],
        "trace_tlc": res["result"]["_tlc"],
        "guards_of_other_properties_violated_in_these_traces": others,
        "gateway_faults_on_stderr": res["faults"][:5],
        "samples": sample,
        "exhaustive": False,
    }
    if extra_cov:
        out.coverage.update(extra_cov)
    out.assumptions = ["abstraction bytes<->classes (harness/drv, harness/tsgu) is trusted",
                       "hook events (build tag verif) report the gateway's steps truthfully; cross-checked against client-side bytes",
                       "TLC 1.8 and the CommunityModules Json reader"]
    return out


@check("C01")
def c01(work, tier, seed, replay):
    if replay:
        return replay_tunnel("C01", work, tier, seed, replay)
    design, scripts = ft.gen_graph_scripts(work, seed, tier)
    scripts += ft.gen_random_scripts(seed, 200 if tier == "quick" else 4000)
    scripts += ft.gen_dupin_scripts(tier, seed)
    scripts += ft.gen_tokenauth_other_mechanism_scripts(tier, seed)
    return tunnel_family("C01", work, tier, seed, scripts, design)


def replay_tunnel(pid, work, tier, seed, path):
    with open(path) as f:
        v = json.load(f)
    s = v.get("script")
    if not s:
        raise HarnessError("replay file has no script")
    design = design_check("MC_Proto", "MC_Proto.cfg", work, workers=4, timeout=300)
    if v.get("history"):
        # the scripts that ran before it on the same gateway instance, in order, on one instance
        return tunnel_family(pid, work, tier, seed, [dict(h, grp="R") for h in v["history"]], design)
    return tunnel_family(pid, work, tier, seed, [s], design)


@check("C17")
def c17(work, tier, seed, replay):
    if replay:
        return replay_tunnel("C17", work, tier, seed, replay)
    design = design_check("MC_Proto", "MC_Proto.cfg", work, workers=8, timeout=600)
    caps = design_check("MC_Caps", "MC_Caps.cfg", work, workers=8, timeout=600)
    scripts = ft.gen_caps_scripts(tier, seed)
    out = tunnel_family("C17", work, tier, seed, scripts, design, jobs=16,
                        extra_cov={"caps_model": {"states": caps.get("distinct"), "note": "Match checked against its bitwise restatement for all 4 x 65536 pairs"},
                                   "exhaustive": tier == "thorough"})
    import fam_gateway as fg
    ov, nov = fg.overlap_run("C17", work, tier, seed, design)
    out.violations += ov.violations
    out.coverage["overlap"] = {"scripts": nov, "evaluations": ov.coverage.get("evaluations"), "rule": "handshakes whose answer is held between being built and being written while another tunnel's "
                               "handshake (other version bytes, other offer, other outcome) is handled completely: every client reads the answer to its own request"}
    out.coverage["rule"] = ("every server setting {cookie, smart card} x client capability value (quick: all low-6-bit values, each low nibble with sampled high bits, 300 random; "
                            "thorough: all 65536) run as a real handshake, version bytes varied per script; verdict by TLC (G_C17_MatchIff, G_C17_AdvertiseEcho)")
    return out


@check("C16")
def c16(work, tier, seed, replay):
    if replay:
        return replay_tunnel("C16", work, tier, seed, replay)
    design = design_check("MC_Proto", "MC_Proto.cfg", work, workers=8, timeout=600)
    redir = design_check("MC_Redir", "MC_Redir.cfg", work, workers=4, timeout=300)
    scripts = ft.gen_c16_scripts(tier, seed)
    out = tunnel_family("C16", work, tier, seed, scripts, design, jobs=16,
                        extra_cov={"redir_model": {"states": redir.get("distinct"), "note": "RedirFlags vs per-device Redirectable for all 128 switch combinations"}})
    import fam_gateway as fg
    ov, nov = fg.overlap_run("C16", work, tier, seed, design)
    out.violations += ov.violations
    out.coverage["overlap"] = {"scripts": nov, "evaluations": ov.coverage.get("evaluations"), "rule": "every answer (handshake, tunnel, authorisation, channel, close) held between being built and being "
                               "written while another tunnel's request is handled completely: type, length, fields and status are still those of the own request"}
    import fam_stream as fstr
    sout = fstr.c16_stream(work, tier, seed, design)
    out.violations += sout.violations
    out.coverage["stalled_stream"] = {"scripts": sout.coverage.get("traces_validated_against_impl"), "evaluations": sout.coverage.get("evaluations"),
                                      "rule": "the host streams 24 MiB while the client does not read for 12 s (thorough: up to 33 s) and then reads on, both transports: every packet sent is a well-formed data packet "
                                              "whose length is that of the bytes sent, and so are the packets after it"}
    out.coverage["rule"] = ("all 128 redirect-switch combinations x idle-timeout classes x capability settings, one gateway instance per configuration, "
                            "8 request outcomes each (accepted, wrong phase, denied host, unreachable host, capability mismatch, bad cookie, repeated step, early close); "
                            "raw responses decoded by the harness's independent MS-TSGU decoder; verdict by TLC (G_C16_*)")
    return out


@check("C02")
def c02(work, tier, seed, replay):
    if replay:
        return replay_tunnel("C02", work, tier, seed, replay)
    import fam_tokens as fk
    return fk.c02(work, tier, seed)


@check("C03")
def c03(work, tier, seed, replay):
    if replay:
        return replay_tunnel("C03", work, tier, seed, replay)
    design, scripts, nq = ft.gen_policy_scripts(work, "host", tier, seed)
    scripts += ft.gen_named_port_scripts(tier)
    d2 = design_check("MC_Proto", "MC_Proto.cfg", work, workers=8, timeout=600)
    out = tunnel_family("C03", work, tier, seed, scripts, design, jobs=16, extra_cov={"policy_requests_enumerated": nq, "tunnel_model_states": d2.get("distinct")})
    out.coverage["rule"] = ("requests enumerated by TLC from MC_Policy (mode x host list x user x token host x requested name incl. near-misses x port); each becomes a full "
                            "handshake..channel-create exchange on the real binary; the dial string comes from the proc.dial hook; verdict by TLC (Policy!Verdict via G_C03_*)")
    return out


@check("C04")
def c04(work, tier, seed, replay):
    if replay:
        return replay_tunnel("C04", work, tier, seed, replay)
    design, scripts, nq = ft.gen_policy_scripts(work, "addr", tier, seed, quick_n=700)
    scripts += ft.gen_moved_client_scripts(tier, seed)
    scripts += ft.gen_cookie_carrying_scripts(tier, seed)
    scripts += ft.gen_reopened_out_scripts(tier, seed)
    d2 = design_check("MC_Proto", "MC_Proto.cfg", work, workers=8, timeout=600)
    # C04 is decided by the host/address guards evaluated on address-varying requests
    out = tunnel_family("C04", work, tier, seed, scripts, design, jobs=16,
                        owns=lambda v: v["guard"] in ("G_C03_DialIffAllowed", "G_C03_MalformedNotDialled", "G_C03_DialIsRequest"),
                        extra_cov={"address_pairs_enumerated": nq, "tunnel_model_states": d2.get("distinct")})
    out.coverage["rule"] = ("(issuing address, presenting X-Forwarded-For chain, presenting TCP peer, switch) enumerated by TLC from MC_Policy mode addr; tokens minted through the real "
                            "/connect flow from the issuing address and presented from the other; verdict by TLC (Policy!Verdict incl. ClientAddr) via G_C03_DialIffAllowed")
    return out


@check("C15")
def c15(work, tier, seed, replay):
    import fam_tokens as fk
    return fk.c15(work, tier, seed)


@check("C08")
def c08(work, tier, seed, replay):
    import fam_stream as fs
    return fs.c08(work, tier, seed, replay)


@check("C06")
def c06(work, tier, seed, replay):
    import fam_stream as fs
    return fs.c06(work, tier, seed, replay)


@check("C14")
def c14(work, tier, seed, replay):
    import fam_api as fa
    return fa.c14(work, tier, seed)


@check("C19")
def c19(work, tier, seed, replay):
    import fam_api as fa
    return fa.c19(work, tier, seed)


@check("C18")
def c18(work, tier, seed, replay):
    import fam_api as fa
    return fa.c18(work, tier, seed)


@check("C20")
def c20(work, tier, seed, replay):
    import fam_api as fa
    return fa.c20(work, tier, seed)


@check("C13")
def c13(work, tier, seed, replay):
    import fam_oidc as fo
    return fo.c13(work, tier, seed)


@check("C12")
def c12(work, tier, seed, replay):
    import fam_oidc as fo
    return fo.c12(work, tier, seed)


@check("C05")
def c05(work, tier, seed, replay):
    import fam_oidc as fo
    return fo.c05(work, tier, seed)


@check("C11")
def c11(work, tier, seed, replay):
    import fam_gateway as fg
    return fg.c11(work, tier, seed)


@check("C09")
def c09(work, tier, seed, replay):
    import fam_gateway as fg
    return fg.c09(work, tier, seed)


@check("C10")
def c10(work, tier, seed, replay):
    import fam_gateway as fg
    return fg.c10(work, tier, seed)


@check("C07")
def c07(work, tier, seed, replay):
    import fam_gateway as fg
    return fg.c07(work, tier, seed)

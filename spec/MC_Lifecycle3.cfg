SPECIFICATION Spec
CONSTANTS
  Tunnels <- MCTunnels3
  Kind <- MCKind3
INVARIANTS TypeOK RegistryMutex WriteMutex LoopImpliesRegistered NothingLeftWhenHandlersAreGone AtMostOneDial RelayNeedsConnection ConnectionNeedsRegisteredLoop ConnectionNeedsTheSteps PairingById InOnlyAfterPublish UserIsTheOneItWasOpenedAs ResponseDiscipline NoWriterBeforeTheAccept
CHECK_DEADLOCK FALSE

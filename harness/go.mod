module verifharness

go 1.22

require (
	github.com/bolkedebruin/gokrb5/v8 v8.5.0
	github.com/bolkedebruin/rdpgw v0.0.0
	github.com/coreos/go-oidc/v3 v3.9.0
	github.com/jcmturner/gofork v1.7.6
	github.com/m7913d/go-ntlm v0.0.1
	golang.org/x/oauth2 v0.18.0
	google.golang.org/grpc v1.62.1
)

require (
	github.com/beorn7/perks v1.0.1 // indirect
	github.com/cespare/xxhash/v2 v2.2.0 // indirect
	github.com/fatih/structs v1.1.0 // indirect
	github.com/fsnotify/fsnotify v1.7.0 // indirect
	github.com/go-jose/go-jose/v3 v3.0.4 // indirect
	github.com/go-jose/go-jose/v4 v4.0.5 // indirect
	github.com/go-viper/mapstructure/v2 v2.0.0-alpha.1 // indirect
	github.com/golang/protobuf v1.5.4 // indirect
	github.com/google/uuid v1.6.0 // indirect
	github.com/gorilla/mux v1.8.1 // indirect
	github.com/gorilla/securecookie v1.1.2 // indirect
	github.com/gorilla/sessions v1.2.2 // indirect
	github.com/gorilla/websocket v1.5.1 // indirect
	github.com/hashicorp/go-uuid v1.0.3 // indirect
	github.com/jcmturner/aescts/v2 v2.0.0 // indirect
	github.com/jcmturner/dnsutils/v2 v2.0.0 // indirect
	github.com/jcmturner/goidentity/v6 v6.0.1 // indirect
	github.com/jcmturner/rpc/v2 v2.0.3 // indirect
	github.com/knadh/koanf/maps v0.1.1 // indirect
	github.com/knadh/koanf/parsers/yaml v0.1.0 // indirect
	github.com/knadh/koanf/providers/confmap v0.1.0 // indirect
	github.com/knadh/koanf/providers/file v0.1.0 // indirect
	github.com/knadh/koanf/v2 v2.1.0 // indirect
	github.com/mitchellh/copystructure v1.2.0 // indirect
	github.com/mitchellh/reflectwalk v1.0.2 // indirect
	github.com/patrickmn/go-cache v2.1.0+incompatible // indirect
	github.com/prometheus/client_golang v1.19.0 // indirect
	github.com/prometheus/client_model v0.6.0 // indirect
	github.com/prometheus/common v0.50.0 // indirect
	github.com/prometheus/procfs v0.13.0 // indirect
	golang.org/x/crypto v0.32.0 // indirect
	golang.org/x/net v0.23.0 // indirect
	golang.org/x/sys v0.29.0 // indirect
	golang.org/x/text v0.21.0 // indirect
	google.golang.org/genproto/googleapis/rpc v0.0.0-20240314234333-6e1732d8331c // indirect
	google.golang.org/protobuf v1.33.0 // indirect
	gopkg.in/yaml.v3 v3.0.1 // indirect
)

replace github.com/bolkedebruin/rdpgw => /repo

package main

import (
	"math/rand"

	"verifharness/drv"
)

func init() {
	commands["rdp"] = func(rep *report) error {
		tw, err := drv.NewTraceWriter(*fOut)
		if err != nil {
			return err
		}
		defer tw.Close()
		st, err := drv.RunRdp(tw, rand.New(rand.NewSource(*fSeed)), *fTier, *fWork)
		rep.Extra = st
		rep.Lines = tw.N
		return err
	}
}

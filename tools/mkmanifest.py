#!/usr/bin/env python3
"""Regenerate /verif/MANIFEST.json from the table below (keeps it valid and current)."""
import json, os, subprocess, sys
sys.path.insert(0, os.path.dirname(os.path.abspath(__file__)))
VERIF = os.path.dirname(os.path.dirname(os.path.abspath(__file__)))

TRUSTED = ("Trusted base: TLC 1.8 + CommunityModules; the harness's class<->bytes concretisation/abstraction (harness/drv, harness/tsgu, harness/forge); "
           "hook events of the `verif` build tag (cross-checked against client/back-end side observations); fake IdP / back ends / auth-service stub PAM.")

CLAIMS = {
 "C01": ("Tunnel.tla envelope (guards G_C01_*) model-checked for unbounded packet histories (MC_Proto); forceable (state,packet) cover of its TLC state graph + seeded random "
         "sequences replayed on the real binary over websocket and legacy transports; every recorded step validated by TLC (TunnelTrace).", "DESIGN.md §4 C01",
         "TLA+ envelope + TLC design check; spec-generated scripts; TLC trace validation of the real gateway"),
 "C03": ("Policy.tla verdict operator model-checked over 27 648 requests incl. near-miss names (MC_PolicyHost); each enumerated request replayed as a real "
         "handshake..channel-create exchange; dial strings from the proc.dial hook; TLC evaluates Policy!Verdict and Join on every observed step.", "DESIGN.md §4 C03",
         "TLC-enumerated policy requests replayed on the real gateway; TLC trace validation"),
 "C04": ("Address clause of Policy.tla (ClientAddr, first X-Forwarded-For element, switch) model-checked over 1 664 (issue, present) pairs (MC_PolicyAddr); tokens minted via the "
         "real /connect flow from one address and presented from another (real loopback peers 127.0.0.1/127.0.0.2/::1 and forwarded-for chains); TLC judges each step.", "DESIGN.md §4 C04",
         "TLC-enumerated address pairs replayed on the real gateway; TLC trace validation"),
 "C02": ("Tokens.tla acceptance rule model-checked as a mint/tick/revoke/forge/present system (MC_Tokens); every forged-cookie class replayed through real TUNNEL_CREATE exchanges on both transports and "
         "the cookie universe (all single-character substitutions and bit flips of a minted token, ladders around the leeway, IdP conditions, random strings) presented to the real CheckPAACookie; TLC judges every presentation.",
         "DESIGN.md §4 C02", "TLC design check of symbolic tokens; forged cookies replayed on the real gateway and the exported check; TLC trace validation"),
 "C05": ("Front.tla (ShouldReach, Challenges) model-checked over every startable mechanism set x request class; one real binary per startable subset with the real rdpgw-auth behind it; 27 Authorization classes x HTTP methods "
         "incl. genuine NTLM exchanges on one or two connections; whether and as whom the tunnel handler was reached comes from the gw.enter hook; TLC judges every request. SPNEGO is exercised negatively only.", "DESIGN.md §4 C05",
         "TLC-enumerated mechanism sets on the real binary + auth service; TLC trace validation"),
 "C06": ("Relay.tla (both directions, declared vs carried lengths, liveness) model-checked; every environment action sequence of its state graph replayed on an open channel of the real binary with "
         "boundary payload sizes over both transports; host-side bytes and client-side DATA packets compared with PRNG streams; TLC judges each action (RelayTrace).", "DESIGN.md §4 C06",
         "TLC design check of the relay; model-generated interleavings replayed on the real gateway; TLC trace validation"),
 "C07": ("Gateway.tla isolation invariants (each client/host sees only its own tunnel's data; legacy pairing by connection id) model-checked; interleavings of the steps of 2 and 3 tunnels enumerated by TLC (Interleave.tla) plus "
         "random schedules of 8..64 tunnels with distinct users, tokens, hosts, client addresses and mixed transports executed step by step on one real gateway; every tunnel's steps validated by TLC with that tunnel's own "
         "parameters, and after every payload all other tunnels' peers are checked for leaked bytes.", "DESIGN.md §4 C07",
         "TLC design check; TLC-enumerated interleavings replayed on the real gateway; per-tunnel TLC trace validation"),
 "C08": ("Framing.tla model-checked for every stream x every read segmentation within bounds; an 8-packet session cut at every header-relevant offset, every coalescing run, whole-stream reads, >4 KiB packets, "
         "random multi-cuts and malformed/never-completed length fields on ws messages, ws continuation frames, HTTP chunks and chunks split over TCP writes; actual read sizes from the tr.read hook; "
         "TLC compares accepted packets, responses and host bytes with the uncut run (FramingTrace).", "DESIGN.md §4 C08",
         "TLC design check of framing; segmentations replayed on the real gateway; TLC trace validation"),
 "C09": ("Gateway.tla (handler/loop/relay goroutines of two tunnels, registry and per-client writer as shared resources): mutual-exclusion and frame invariants hold with the locks and fail without (necessity). "
         "On the race-detector build of the real binary: gated schedules hold one goroutine inside Tunnel.Write / the registry functions (hook gates) and provoke the conflicting one, TLC checks the recorded section events for overlap; "
         "hook-free concurrent soaks of 8..64 tunnels with a start barrier feed race reports / fatal errors / frame integrity into the trace as sensor events.", "DESIGN.md §4 C09",
         "TLC design check with lock-necessity; gated schedule replay + race-detector sensor on the real binary; TLC trace validation"),
 "C10": ("Hostile.tla: catalogue of hostile input classes per entry point, with no action that panics or stops a process. On the real binaries (gateway: TLS on/off, socket buffers unset/set, openid/ntlm/local/kerberos; real "
         "rdpgw-auth) every class of the catalogue enumerated by TLC is sent in several phases and on both transports; after each: panic sensor (hook 'panicking' flag + stderr), liveness of both processes, a probe request on a "
         "new connection, handler exit after close; TLC judges each input (HostileTrace). The panic guards of all other trace specifications feed the same property.", "DESIGN.md §4 C10",
         "TLC-enumerated hostile-input catalogue replayed on the real binaries; TLC trace validation"),
 "C11": ("Teardown.tla (resources of a tunnel, ending causes, release steps) model-checked for both transports incl. the liveness property 'ending ~> released'; on the real binary every point of the exchange x every ending "
         "cause x data in flight x transport, observing within 3 s EOF at the host and on the client connections, loop/relay/unregister hooks, goroutine census and gauges; TLC judges each scenario. "
         "Open known finding: client closing only the legacy OUT connection.", "DESIGN.md §4 C11",
         "TLC design check incl. liveness; fault scenarios replayed on the real binary; TLC trace validation"),
 "C12": ("Oidc.tla session/state machine and Policy!Offered host choice model-checked; on the real binary (fake IdP) every selection mode x host list x host parameter class x session state x splitting x client address: "
         "the file is parsed and its token decoded independently, claims judged by TLC (host by policy, user, ClientAddr, session access token), and the same file then drives a real tunnel from the same address.", "DESIGN.md §4 C12",
         "TLC design check; enumerated downloads on the real binary; TLC trace validation"),
 "C13": ("Oidc.tla (state issue/expiry, every IdP failure point, cookie tampering) model-checked; on the real binary with both session stores: every state class x login failure followed by /connect to observe authentication, "
         "single-character substitutions / truncations / foreign-instance session cookies, identity restoration; TLC judges each scenario.", "DESIGN.md §4 C13",
         "TLC design check; callback/cookie scenarios on the real binary; TLC trace validation"),
 "C14": ("Ntlm.tla (sessions, fresh challenges, proof of password, replay, garbage) model-checked for all histories of <=5 calls over 2 sessions; one script per edge of that state graph plus random histories "
         "executed against the real ntlm.NTLMAuth and through gRPC against the real rdpgw-auth, with genuine NTLMv2 client messages; TLC tracks the pending challenge per session and judges every call.", "DESIGN.md §4 C14",
         "TLC design check; state-graph edge cover replayed on the real verifier; TLC trace validation"),
 "C18": ("Config.tla refusal table over the lattice of 1440 configurations; the real binary started under each enumerated configuration (file / environment / both) and observed as exit vs listening; "
         "keys of length 0/1/31/32: what one instance mints is presented to a second instance of the same configuration; TLC judges with Config!Refuse and KeyKept.", "DESIGN.md §4 C18",
         "TLC-enumerated configurations started on the real binary; TLC trace validation"),
 "C19": ("RdpFile.tla transcribes the reader/writer grammar; round trip and rejection model-checked; the real reader run on every text over the alphabet up to a length and TLC compares with RdpFile!Parse; "
         "real builder with every setting non-default, template handling and gateway-controlled settings through the real download handler.", "DESIGN.md §4 C19",
         "TLA+ transcription of the parser; exhaustive short texts through the real parser; TLC trace validation"),
 "C15": ("Tokens!TokenInfoStatus model-checked over the attribute product (MC_UserTok); minted tokens, every single-character mutation of the five JWE segments, forged tokens from the harness's own JWE writer "
         "(other keys/algs/issuers, expired, plain JWS, cross-mode) and random strings sent to the real /tokeninfo handler and security.UserInfo in both key modes; TLC judges each request.", "DESIGN.md §4 C15",
         "TLC design check; token universe presented to the real handler; TLC trace validation"),
 "C16": ("TSGU.tla response/redirect/idle operators model-checked (MC_Redir: 128 switch sets x idle classes); one real gateway instance per configuration, 8 request outcomes each; "
         "raw responses decoded by an independent MS-TSGU decoder; field-level guards G_C16_* evaluated by TLC per response.", "DESIGN.md §4 C16",
         "TLC design check of flag encoding; configuration sweep on the real binary; TLC trace validation"),
 "C17": ("TSGU!Match checked against a bit-level restatement for all 4 x 65 536 pairs (MC_Caps); real handshakes for every server setting x client value "
         "(quick: structured sample, thorough: all 65 536) with varied version bytes; G_C17_* evaluated by TLC per handshake.", "DESIGN.md §4 C17",
         "TLC exhaustive check of Match; handshakes replayed on the real gateway; TLC trace validation"),
 "C20": ("KdcProxy.tla (validation, fan-out, first reply, deadline; liveness: every request is answered) model-checked; requests enumerated by TLC sent to the real kdcproxy.Handler behind fake TCP+UDP KDCs "
         "(reply/keep-open/partial/close/silent/refuse) with payloads of 0 B..128 KiB; status, latency, bytes seen by the KDCs and the returned KDC-PROXY-MESSAGE judged by TLC.", "DESIGN.md §4 C20",
         "TLC design check incl. liveness; enumerated requests on the real handler; TLC trace validation"),
}

def main():
    props = [json.loads(l) for l in open(os.path.join(VERIF, "properties.jsonl"))]
    repo_hooks = subprocess.run(["git", "-C", "/repo", "log", "--format=%h %s"], stdout=subprocess.PIPE, text=True).stdout.splitlines()
    hook_commits = [l.split()[0] for l in repo_hooks if l.split(" ", 1)[1].startswith("verif:")]
    checks, na = [], []
    pending = json.load(open(os.path.join(VERIF, "tools", "pending.json"))) if os.path.exists(os.path.join(VERIF, "tools", "pending.json")) else {}
    for p in props:
        pid = p["id"]
        if pid in CLAIMS:
            text, ref, tech = CLAIMS[pid]
            checks.append({
                "property_id": pid,
                "quick_cmd": "./bin/check %s --tier quick" % pid,
                "thorough_cmd": "./bin/check %s --tier thorough" % pid,
                "evidence_file": "/verif/evidence/%s.json" % pid,
                "replay_cmd_template": "./bin/check %s --replay {path}" % pid,
                "engine": "tlc",
                "level_claimed": {"category": "model_checking", "text": text, "design_ref": ref},
                "level_note": TRUSTED,
                "technique": tech,
            })
        else:
            na.append({"property_id": pid, "reason": pending.get(pid, "check under construction (DESIGN.md §9); not claimed yet")})
    m = {"version": 1, "setup_cmd": "./bin/setup",
         "hooks": {"guard": "verif", "enable": "go build -tags verif ./cmd/rdpgw (checks do this themselves from /repo's working tree)",
                   "baseline_off_cmd": "cd /repo && GOFLAGS=-mod=mod GOPROXY=off GOSUMDB=off GOTOOLCHAIN=local go test -vet=off -count=1 -timeout 25m ./...",
                   "source_commits": hook_commits, "add_only": True},
         "engines": [{"name": "tlc", "path": "/usr/local/bin/tlc", "serves_properties": sorted(CLAIMS), "kind_free_text": "TLA+ model checker (TLC 1.8): design checks of spec/*.tla and validation of traces recorded from the real code"}],
         "checks": checks, "not_applicable": na,
         "notes": "All checks: ./bin/check <ID> --tier quick|thorough; exit 0 held / 1 VIOLATION / 2 machinery failure. Known findings: known_findings.json."}
    json.dump(m, open(os.path.join(VERIF, "MANIFEST.json"), "w"), indent=1)
    print("claimed:", sorted(CLAIMS), "not claimed:", [x["property_id"] for x in na])

if __name__ == "__main__":
    main()

---------------------------- MODULE TeardownTrace ----------------------------
(* Trace specification for C11: after each way of ending the client side at      *)
(* each point of the exchange, what the loopback host, the client connections,   *)
(* the hooks, the goroutine census and the gauges showed within the time bound.  *)
EXTENDS Integers, Sequences, FiniteSets, Json, TLC, TLCExt, IOUtils
TTraceFile == IF "TRACE" \in DOMAIN IOEnv THEN IOEnv.TRACE ELSE "trace.ndjson"
TraceLog == ndJsonDeserialize(TTraceFile)
VARIABLES l, viol, cover
tvars == <<l, viol, cover>>
Line == TraceLog[l]
\* e: [transport, point, cause, inflight, hadHost, hostClosed, connsClosed (all client connections saw EOF/RST or were closed by the client),
\*     loopExited, relayDone, unregistered, gaugesBack, goroutinesBack, ms]
Bad(e) ==
  (IF e.hadHost /\ ~e.hostClosed THEN {"G_C11_HostConnectionClosed"} ELSE {})
  \cup (IF ~e.connsClosed THEN {"G_C11_ClientConnectionsClosed"} ELSE {})
  \cup (IF ~e.loopExited \/ ~e.relayDone \/ ~e.goroutinesBack THEN {"G_C11_GoroutinesStopped"} ELSE {})
  \cup (IF ~e.unregistered THEN {"G_C11_RegistryEntryRemoved"} ELSE {})
  \cup (IF ~e.gaugesBack THEN {"G_C11_GaugesRestored"} ELSE {})
  \cup (IF e.panicked THEN {"G_C10_NoPanic"} ELSE {})
TInit == l = 1 /\ viol = {} /\ cover = {}
TNext == /\ l <= Len(TraceLog)
         /\ viol' = viol \cup {<<l, g, Line.transport, Line.cause>> : g \in Bad(Line)}
         /\ cover' = cover \cup {<<Line.transport, Line.point, Line.cause>>}
         /\ l' = l + 1
TSpec == TInit /\ [][TNext]_tvars
AtEnd == l = Len(TraceLog) + 1 =>
           PrintT(<<"VERIF_RESULT", ToJson([viol |-> viol, cover |-> cover, lines |-> Len(TraceLog)])>>)
TraceAccepted == TLCGet("stats").diameter = Len(TraceLog) + 1
=============================================================================

SPECIFICATION Spec
CONSTANTS
  Sessions = {"s1", "s2"}
  MaxCh = 3
  MaxSteps = 5
INVARIANTS OnlyProofOfPassword NeverUnknownOrEmpty HonestClientSucceeds NoReplayAfterSuccess ChallengesFresh
CHECK_DEADLOCK FALSE

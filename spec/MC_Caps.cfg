SPECIFICATION Spec
INVARIANTS MatchIsBitwise NoMechanismNoEntry OpenServerOnlyPlainClients
CHECK_DEADLOCK FALSE

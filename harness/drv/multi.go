package drv

import (
	"bytes"
	"fmt"
	"math/rand"
	"time"

	"verifharness/envx"
	"verifharness/tsgu"
)

// MtScript interleaves the steps of several tunnels on one gateway.
type MtScript struct {
	ID       string    `json:"id"`
	Origin   string    `json:"origin"`
	Cfg      ScriptCfg `json:"cfg"`
	Tunnels  []Script  `json:"tunnels"`
	Schedule []int     `json:"schedule"` // tunnel index per step, in execution order
}

type mtTunnel struct {
	ps      *ProtoSession
	next    int
	backend *envx.Backend
	n0      int
	bc      *envx.BConn
	hostPos int
	clientB []byte // DATA payload bytes this client received so far
	sentB   []byte // bytes this tunnel's host sent so far
	rng     *rand.Rand
}

// drain collects DATA payloads that arrived for a tunnel's client (short timeout).
func (m *mtTunnel) drain(d time.Duration) int {
	got := 0
	if m.ps.T == nil || m.ps.T.Exited {
		return 0
	}
	for {
		b, err := m.ps.T.Recv(d)
		if err != nil {
			return got
		}
		dd := tsgu.Decode(b)
		if dd.Type == tsgu.PktData {
			m.clientB = append(m.clientB, dd.Payload...)
			got += len(dd.Payload)
		} else {
			got += len(b)
		}
	}
}

// RunMulti executes the schedule and appends one contiguous trace per tunnel.
func (i *Inst) RunMulti(s *MtScript, tw *TraceWriter, rng *rand.Rand) error {
	var ts []*mtTunnel
	defer func() {
		for _, m := range ts {
			if m.ps != nil {
				m.ps.Finish()
			}
		}
	}()
	for k, sc := range s.Tunnels {
		sc.Cfg = s.Cfg
		sc.ID = fmt.Sprintf("%s.t%d", s.ID, k)
		sc.Origin = s.Origin
		m := &mtTunnel{ps: i.NewSession(sc, rand.New(rand.NewSource(rng.Int63()))), rng: rand.New(rand.NewSource(rng.Int63()))}
		name := map[string]string{"PA": "A", "PB": "B", "PE": "E"}[sc.Tun.HostPort]
		if name == "" {
			name = "A"
		}
		m.backend = i.Backends[name]
		ts = append(ts, m)
	}
	// all tunnels are opened first (in order), then steps follow the schedule
	for _, m := range ts {
		if err := m.ps.Open(); err != nil {
			return err
		}
	}
	var firstErr error
	for _, ti := range s.Schedule {
		if ti < 0 || ti >= len(ts) {
			continue
		}
		m := ts[ti]
		if m.next >= len(m.ps.S.Steps) {
			continue
		}
		st := m.ps.S.Steps[m.next]
		kind := str(st, "k", "")
		m.next++
		if kind == "hostsend" {
			if m.bc == nil {
				continue
			}
			n := num(st, "n", 64)
			chunk := make([]byte, n)
			m.rng.Read(chunk)
			m.sentB = append(m.sentB, chunk...)
			m.bc.Send(chunk)
			// the own client gets exactly these bytes ...
			deadline := time.Now().Add(5 * time.Second)
			for len(m.clientB) < len(m.sentB) && time.Now().Before(deadline) && m.ps.T != nil && !m.ps.T.Exited {
				b, err := m.ps.T.Recv(time.Until(deadline))
				if err != nil {
					break
				}
				if dd := tsgu.Decode(b); dd.Type == tsgu.PktData {
					m.clientB = append(m.clientB, dd.Payload...)
				}
			}
			m.drain(2 * time.Millisecond)
			own := bytes.Equal(m.clientB, m.sentB)
			// ... and nobody else gets anything
			foreign := false
			for oj, o := range ts {
				if oj != ti && o.drain(2*time.Millisecond) > 0 && !bytes.Equal(o.clientB, o.sentB) {
					foreign = true
				}
			}
			m.ps.Lines = append(m.ps.Lines, M{"ev": "iso", "dir": "b2c", "own": own, "foreign": foreign, "n": n})
			continue
		}
		if kind == "chan" {
			m.n0 = m.backend.NConns()
		}
		before := make([]int, len(ts))
		for oj, o := range ts {
			if o.bc != nil {
				before[oj] = o.bc.Len()
			}
		}
		r, err := m.ps.Step(m.next - 1)
		if err != nil {
			if firstErr == nil {
				firstErr = err
			}
			break
		}
		if kind == "chan" && r.Conn {
			if m.backend.WaitConn(m.n0+1, 3*time.Second) {
				m.bc = m.backend.Conn(m.n0)
			}
		}
		if kind == "data" && m.bc != nil && !r.Skipped {
			if r.FwdBytes > 0 {
				m.bc.WaitRecv(m.hostPos+r.FwdBytes, 3*time.Second)
			}
			all := m.bc.Bytes()
			got := all[m.hostPos:]
			m.hostPos = len(all)
			own := len(got) == num(st, "n", 16) // payload content is checked by C06; here: the right amount at the right host
			foreign := false
			time.Sleep(time.Millisecond)
			for oj, o := range ts {
				if oj != ti && o.bc != nil && o.bc.Len() != before[oj] {
					foreign = true
				}
			}
			m.ps.Lines = append(m.ps.Lines, M{"ev": "iso", "dir": "c2b", "own": own, "foreign": foreign, "n": len(got)})
		}
	}
	for _, m := range ts {
		m.ps.Finish()
		for _, l := range m.ps.Lines {
			tw.Line(l)
		}
		m.ps = nil
	}
	return firstErr
}

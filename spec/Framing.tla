-------------------------------- MODULE Framing --------------------------------
(* How rdpgw must turn the client's byte stream into packets (readMessage /     *)
(* readHeader, cmd/rdpgw/protocol/common.go): boundaries come from the length   *)
(* fields alone, whatever the transport reads look like.                        *)
(*                                                                              *)
(* Bytes are counted, not modelled: a stream is a sequence of declared packet   *)
(* sizes; the environment delivers it in reads of arbitrary size.               *)
EXTENDS Integers, Sequences, FiniteSets, TLC

CONSTANTS H,        \* header size (8 on the wire; smaller here to keep the model tiny)
          Sizes,    \* declared sizes a packet may have (values < H are malformed headers)
          MaxPkts   \* packets per stream

RECURSIVE Sum(_)
Sum(s) == IF s = <<>> THEN 0 ELSE s[1] + Sum(Tail(s))
\* a malformed length field is followed by nothing meaningful: it occupies its header only
Wire(sz) == IF sz < H THEN H ELSE sz
WireSeq(s) == [i \in 1..Len(s) |-> Wire(s[i])]
StartOf(s, i) == Sum(SubSeq(WireSeq(s), 1, i - 1))

VARIABLES stream,     \* declared sizes of the packets the client sends
          delivered,  \* bytes handed to the gateway by transport reads so far
          nproc,      \* packets processed so far (always the first nproc of the stream)
          failed,     \* the stream was found unframeable: the tunnel ended with an error
          eof         \* the client closed after sending everything
vars == <<stream, delivered, nproc, failed, eof>>

Total == Sum(WireSeq(stream))
Init == /\ stream \in UNION {[1..n -> Sizes] : n \in 1..MaxPkts}
        /\ delivered = 0 /\ nproc = 0 /\ failed = FALSE /\ eof = FALSE

\* the transport returns the next n bytes, for any n (segmentation is arbitrary)
Read(n) == /\ ~failed /\ ~eof /\ delivered + n <= Total
           /\ delivered' = delivered + n
           /\ UNCHANGED <<stream, nproc, failed, eof>>
Close == /\ ~eof /\ delivered = Total /\ eof' = TRUE /\ UNCHANGED <<stream, delivered, nproc, failed>>

Avail == delivered - StartOf(stream, nproc + 1)
\* G_C08_HeaderFirst: nothing is decided about a packet before its header is complete
\* G_C08_WholePacket: a packet is processed only when all its declared bytes arrived
Frame == /\ ~failed /\ nproc < Len(stream)
         /\ Avail >= H
         /\ LET sz == stream[nproc + 1] IN
              IF sz < H THEN failed' = TRUE /\ UNCHANGED nproc
              ELSE Avail >= sz /\ nproc' = nproc + 1 /\ UNCHANGED failed
         /\ UNCHANGED <<stream, delivered, eof>>
\* a packet that is never completed ends the tunnel with an error
Incomplete == /\ eof /\ ~failed /\ nproc < Len(stream) /\ Avail < (IF Avail >= H THEN stream[nproc + 1] ELSE H)
              /\ failed' = TRUE /\ UNCHANGED <<stream, delivered, nproc, eof>>

Next == (\E n \in 1..Total : Read(n)) \/ Close \/ Frame \/ Incomplete
Spec == Init /\ [][Next]_vars /\ WF_vars(Frame) /\ WF_vars(Incomplete)

\* ---- properties ---------------------------------------------------------------
FirstBad == IF \E i \in 1..Len(stream) : stream[i] < H
              THEN CHOOSE i \in 1..Len(stream) : stream[i] < H /\ \A j \in 1..(i - 1) : stream[j] >= H
              ELSE Len(stream) + 1
NeverEarly      == nproc > 0 => delivered >= StartOf(stream, nproc + 1)
NeverPastBad    == nproc < FirstBad
FailOnlyIfUnframeable == failed => (FirstBad <= Len(stream) \/ eof)
\* quiescence: everything delivered and nothing left to do
Quiescent == delivered = Total /\ ~ENABLED Frame /\ ~ENABLED Incomplete
SameWhateverTheReads == (Quiescent /\ ~failed) => nproc = Len(stream)
BadLengthEnds   == (Quiescent /\ FirstBad <= Len(stream)) => (failed /\ nproc = FirstBad - 1)
EventuallyDecided == <>(failed \/ nproc = Len(stream) \/ ~eof)
=============================================================================

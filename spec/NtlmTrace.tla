------------------------------ MODULE NtlmTrace ------------------------------
(* Trace specification for C14: calls to the real NTLM verifier (directly and   *)
(* through the rdpgw-auth gRPC service) with messages produced by real NTLMv2   *)
(* client sessions. The pending challenge of a session is tracked as            *)
(* <<id, sure>>: after a failed attempt the service may or may not keep it.     *)
EXTENDS Integers, Sequences, FiniteSets, Json, TLC, TLCExt, IOUtils
TTraceFile == IF "TRACE" \in DOMAIN IOEnv THEN IOEnv.TRACE ELSE "trace.ndjson"
TraceLog == ndJsonDeserialize(TTraceFile)
VARIABLES l, viol, cover, ctx
tvars == <<l, viol, cover, ctx>>
Line == TraceLog[l]
None == [id |-> 0, sure |-> TRUE]
Ctx(s) == IF s \in DOMAIN ctx THEN ctx[s] ELSE None
Put(s, v) == [x \in (DOMAIN ctx) \cup {s} |-> IF x = s THEN v ELSE ctx[x]]

TInit == l = 1 /\ viol = {} /\ cover = {} /\ ctx = [x \in {} |-> None]
TReset == Line.ev = "reset" /\ ctx' = [x \in {} |-> None] /\ UNCHANGED <<viol, cover>>
\* e: [kind neg|auth|replay|garbage, s, u, pwOk, ch (challenge id the message answers, 0 = n/a), authed, retUser, chIssued (id of a returned challenge, 0 = none), err]
TCall ==
  /\ Line.ev = "ntlm"
  /\ LET e == Line
         c == Ctx(e.s)
         proves == c.id # 0 /\ e.ch = c.id /\ e.pwOk
         bad == (IF e.authed /\ ~(e.kind \in {"auth", "replay"} /\ proves /\ e.retUser = e.u) THEN {"G_C14_OnlyProofOfPassword"} ELSE {})
                \cup (IF e.kind = "auth" /\ proves /\ c.sure /\ ~e.authed THEN {"G_C14_HonestClientSucceeds"} ELSE {})
                \cup (IF ~e.authed /\ e.retUser # "" THEN {"G_C14_NoNameWithoutProof"} ELSE {})
                \cup (IF e.kind = "neg" /\ e.chIssued = 0 THEN {"G_C14_NegotiateChallenged"} ELSE {})
                \cup (IF e.authed /\ e.chIssued # 0 THEN {"G_C14_OneOutcome"} ELSE {})
                \cup (IF e.panic # "" THEN {"G_C10_NoPanic"} ELSE {})
     IN /\ viol' = viol \cup {<<l, g, e.kind, e.target>> : g \in bad}
        /\ cover' = cover \cup {<<e.kind, IF e.authed THEN "authed" ELSE IF e.chIssued # 0 THEN "challenge" ELSE IF e.err THEN "error" ELSE "refused",
                                 IF c.id = 0 THEN "noctx" ELSE IF e.ch = c.id THEN "thischallenge" ELSE "otherchallenge">>}
        /\ ctx' = IF e.chIssued # 0 THEN Put(e.s, [id |-> e.chIssued, sure |-> TRUE])
                  ELSE IF e.authed THEN Put(e.s, None)
                  ELSE Put(e.s, [id |-> c.id, sure |-> FALSE])
TNext == l <= Len(TraceLog) /\ (TReset \/ TCall) /\ l' = l + 1
TSpec == TInit /\ [][TNext]_tvars
AtEnd == l = Len(TraceLog) + 1 =>
           PrintT(<<"VERIF_RESULT", ToJson([viol |-> viol, cover |-> cover, lines |-> Len(TraceLog)])>>)
TraceAccepted == TLCGet("stats").diameter = Len(TraceLog) + 1
=============================================================================

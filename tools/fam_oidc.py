"""OpenID families: C13 (sessions become authenticated only through a verified login) and C12 (connection files)."""
import json, random
from vlib import *
import fam_api as fa

LOGINS = ["ok", "refuse", "noidtoken", "badsig", "wrongiss", "subissuer", "issuerslash", "wrongaud", "noaud", "emptyaud", "expired", "expired-just", "nousername", "manyclaims", "laterclaims"]


def base(store="cookie", sel="roundrobin", hosts=None, split=False):
    return {"tokenAuth": True, "smartCard": False, "auth": "openid", "sel": sel, "hosts": hosts or [["H1", ":", "PA"]], "verifyIp": True, "idle": 0, "store": store, "split": split}


def c13(work, tier, seed):
    design = design_check("Oidc", "MC_Oidc.cfg", work, workers=8, timeout=600)
    rng = random.Random(seed)
    scripts, slow = [], []
    for store in ("cookie", "file"):
        cfg = base(store)
        for st in ("issued", "unknown", "reused") + (("expired", "expired-after-failed") if tier == "thorough" else ()):
            for lg in LOGINS:
                if st == "expired-after-failed" and lg not in ("ok", "nousername"):
                    continue
                for rep in range((6 if lg in ("manyclaims", "laterclaims") and st == "issued" else 1) if tier == "quick" or st.startswith("expired") else 3):
                    sc = {"id": "cb%04d" % (len(scripts) + len(slow)), "kind": "callback", "cfg": cfg, "state": st, "login": lg, "user": rng.choice(["user1", "Ünï cødé", "bob@corp.example", "x" * 200])}
                    # an expired state means waiting out the two-minute lifetime: these scripts are spread over the
                    # instances instead of queueing up on one
                    (slow if st.startswith("expired") else scripts).append(sc)
        npos = 40 if tier == "quick" else 400
        for k in range(npos):
            scripts.append({"id": "ck%04d" % len(scripts), "kind": "cookie", "cfg": cfg, "mut": "subst", "pos": (k * 9973 + seed) % 100000, "user": "user1"})
        for k in range(8 if tier == "quick" else 60):
            scripts.append({"id": "ck%04d" % len(scripts), "kind": "cookie", "cfg": cfg, "mut": "trunc", "pos": (k * 7919 + seed) % 100000, "user": "user1"})
        for m in ("none", "none", "empty", "garbage", "foreign", "anonymous", "anonymous"):
            scripts.append({"id": "ck%04d" % len(scripts), "kind": "cookie", "cfg": cfg, "mut": m, "pos": 0, "user": rng.choice(["user1", "Ünï cødé", "bob@corp.example"])})
    # gateways that are left to make their own session keys (none configured, or too short), several of them on one
    # machine (same home and temporary directories): the cookie of a session one of them authenticated means nothing
    # to another one started from the very same configuration
    for store in ("cookie", "file"):
        for ko in ({"sess": "-", "sessenc": "-"}, {"sess": "K" * 31, "sessenc": "E" * 31}, {"sess": "K" * 33, "sessenc": "E" * 33}):
            for m in ("none", "foreign-sameconfig", "foreign-sameconfig-later"):
                # (one machine per script: the two gateways of a script are the only ones on it)
                cfg = dict(base(store), keyOverride=ko, sharedEnv="m%d" % len(scripts))
                scripts.append({"id": "ck%04d" % len(scripts), "kind": "cookie", "cfg": cfg, "mut": m, "pos": 0, "user": rng.choice(["user1", "bob@corp.example"])})
    if slow:
        # one slow script at the head of every chunk the driver forms per configuration
        per = max(1, (len(scripts) + len(slow)) // 32)
        merged, bycfg = [], {}
        for sc in scripts:
            bycfg.setdefault(json.dumps(sc["cfg"], sort_keys=True), []).append(sc)
        slowby = {}
        for sc in slow:
            slowby.setdefault(json.dumps(sc["cfg"], sort_keys=True), []).append(sc)
        for k, lst in bycfg.items():
            sl = slowby.get(k, [])
            step = max(1, len(lst) // max(1, len(sl)))
            for j, sc in enumerate(lst):
                if j % step == 0 and sl:
                    merged.append(sl.pop())
                merged.append(sc)
            merged += sl
        scripts = merged
    out, rep, res = fa.generic("C13", work, tier, seed, "oidc", "OidcTrace", scripts, design,
                               lambda v: "%s/%s/%s" % (v["guard"], v["a"], v["b"]),
                               "Oidc.tla: two browsers, state values with expiry, every login outcome, cookie tampering (design). Conformance on the real binary with a fake IdP, both session stores: every (state class x IdP failure point) "
                               "callback followed by /connect to see whether the session became authenticated; single-character substitutions (quick 40 positions, thorough 400), truncations, empty/garbage/foreign-instance session cookies; "
                               "identity restoration for several user names; the two-minute state expiry is waited for in the thorough tier only", jobs=12)
    return out


def c12(work, tier, seed):
    design = design_check("Oidc", "MC_Oidc.cfg", work, workers=8, timeout=600)
    pol = design_check("MC_Policy", "MC_PolicyHost.cfg", work, workers=8, timeout=600)
    rng = random.Random(seed)
    scripts = []
    hostlists = [[["H1", ":", "PA"]], [["H1", ":", "PA"], ["H1", ":", "PB"]], [["H127", "PH", ":", "PA"]], [["H1", ":", "PA"], ["H127", "PH", ":", "PB"]], [["HL", ":", "PA"], ["H1", ":", "PB"]]]
    params = ["absent", "listed", "listed2", "unlisted", "qtok-ok", "qtok-unlisted", "qtok-forged", "qtok-expired", "qtok-wrongiss", "garbage",
              "near-otherport", "near-noport", "near-case", "near-supername", "qtok-near"]
    addrs = [("", ""), ("", "10.1.2.3"), ("127.0.0.2", ""), ("", "10.1.2.3, 192.168.0.1"), ("::1", ""), ("127.0.0.2", " 10.9.9.9 ,10.1.1.1"),
             ("", "2001:db8::17"), ("", "2001:db8::17, 10.0.0.1"), ("::1", "fe80::1%eth0"), ("", "10.1.2.3:4711")]
    for sel in ("roundrobin", "unsigned", "any", "signed"):
        for hi, hosts in enumerate(hostlists):
            for store in (("cookie", "file") if tier == "thorough" else (["cookie", "file"][hi % 2],)):
                for split in (False, True):
                    cfg = base(store, sel, hosts, split)
                    for session in ("new", "unauth", "authed"):
                        for param in params:
                            if session != "authed" and param not in ("absent", "listed", "qtok-ok"):
                                continue
                            if tier == "quick" and split and param not in ("absent", "listed", "qtok-ok"):
                                continue
                            if param == "near-case" and not any("HL" in h for h in hosts):
                                continue
                            # with the user placeholder in a host entry the login name also decides the host: the name with
                            # a domain part (domain splitting on) has to give a file that the tunnel checks accept as well
                            ph = any("PH" in h for h in hosts)
                            user = ("7@corp.example" if split and len(scripts) % 2 == 0 else "7") if ph else ("bob@corp.example" if split else "user1")
                            peer, xff = addrs[len(scripts) % len(addrs)]
                            c2 = cfg
                            if len(scripts) % 5 == 3:
                                # a login-name template: the file carries the rendered name, the token still the user's own
                                c2 = dict(cfg, template=["{{ username }}@corp.example", "CORP\\{{ username }}"][len(scripts) % 2])
                            sc = {"id": "cn%05d" % len(scripts), "kind": "connect", "cfg": c2, "session": session, "param": param, "user": user, "peerIP": peer, "xff": xff,
                                  "replay": session == "authed" and sel != "signed"}
                            if session == "authed" and len(scripts) % 4 == 1:
                                sc["loginXFF"] = "192.0.2.77"   # logged in from one address, asks for the file from another
                            scripts.append(sc)
    # OpenID stacked with basic authentication: a browser that authenticated at the gateway endpoint with basic credentials
    # (and keeps the cookie it got) has not logged in at the identity provider
    for store in ("cookie", "file"):
        for param in ("absent", "listed"):
            cfgm = dict(base(store, "roundrobin", [["H1", ":", "PA"]], False), auths=["openid", "local"], auth="", tls=True)
            scripts.append({"id": "cn%05d" % (80000 + len(scripts)), "kind": "connect", "cfg": cfgm, "session": "othermech", "param": param, "user": "user1", "peerIP": "", "xff": "", "replay": False})
    # signed selection: the same query token inside the verifier's clock-skew allowance and, 15 s later, outside it
    # (these scripts wait; they come first so that they run alongside the others)
    for store in ("cookie", "file"):
        scripts.insert(0, {"id": "cn%05d" % (90000 + len(scripts)), "kind": "connect", "cfg": base(store, "signed", [["H1", ":", "PA"], ["H1", ":", "PB"]], False), "session": "authed", "param": "qtok-ageing",
                           "user": "user1", "peerIP": "", "xff": "", "replay": False})
    # sessions that are not logged in are exercised right after logged-in ones were served on the same gateway (what a
    # request is answered depends on its own session only): interleave them per configuration
    bycfg = {}
    for sc in scripts:
        bycfg.setdefault(json.dumps(sc["cfg"], sort_keys=True), []).append(sc)
    scripts = []
    for k in bycfg:
        au = [x for x in bycfg[k] if x["session"] == "authed"]
        no = [x for x in bycfg[k] if x["session"] != "authed"]
        while au or no:
            if au:
                scripts.append(au.pop(0))
            if no:
                scripts.append(no.pop(0))
    # several logged-in sessions of different users downloading at the same time (with and without an administrator's
    # template file): every file carries its own session's user, host, address and access token
    for sel in ("unsigned", "any"):
        for split in (False, True):
            for defaults in (True, False):
                for store in (("cookie", "file") if tier == "thorough" else (["cookie", "file"][len(scripts) % 2],)):
                    cfg = dict(base(store, sel, [["H1", ":", "PA"], ["H1", ":", "PB"], ["H1", ":", "PE"]], split), rdpDefaults=defaults)
                    scripts.append({"id": "cn%05d" % len(scripts), "kind": "burst", "cfg": cfg, "session": "authed", "param": "listed", "user": "", "peerIP": "", "xff": "", "replay": False})
    out, rep, res = fa.generic("C12", work, tier, seed, "oidc", "OidcTrace", scripts, design,
                               lambda v: "%s/%s" % (v["guard"], v["a"]),
                               "Oidc.tla + Policy!Offered (design). Conformance on the real binary: selection mode x host list (plain, two entries, user placeholder) x host parameter (absent, listed, unlisted, valid/forged/expired/"
                               "wrong-issuer query token, garbage) x session (new, unauthenticated, authenticated) x domain splitting x client address (TCP peers 127.0.0.1/127.0.0.2/::1, forwarded-for chains); the file is parsed and its "
                               "token decoded by the harness; host, user, address and IdP access token claims judged by TLC; the same file then drives a real tunnel (handshake..channel-create) from the same address",
                               owns=lambda v: guard_property(v["guard"]) == "C12", jobs=12)
    out.coverage["policy_model_states"] = pol.get("distinct")
    return out


# ------------------------------------------------------------------ C05

AUTHZ = ["absent", "empty", "bare-ntlm", "bare-negotiate", "bare-basic", "trunc-scheme", "embedded-scheme", "wrongcase-basic", "wrongcase-ntlm", "basic-right", "basic-right-colonpw",
         "basic-wrongpw", "basic-wrongpw-nonutf8", "basic-user-nonutf8", "basic-wrong-while-right-in-flight", "basic-right-while-wrong-in-flight", "basic-unknown", "basic-emptyuser", "basic-nocolon", "basic-notbase64", "basic-locked", "two-invalid", "two-valid-first", "two-good-then-otheruser", "two-wrong-then-good", "three-good-then-others", "ntlm-right", "negotiate-ntlm-right",
         "ntlm-wrongpw", "ntlm-unknown", "ntlm-two-conns", "ntlm-auth-first", "ntlm-garbage", "negotiate-krb-garbage",
         "krb-right", "krb-expired", "krb-notyet", "krb-wrongkey", "krb-otherservice", "krb-expired-4min"]
METHODS = ["RDG_OUT_DATA", "RDG_IN_DATA", "GET", "POST", "PUT", "OPTIONS"]


def c05(work, tier, seed):
    dot = work.path("front.dot")
    design = design_check("Front", "MC_Front.cfg", work, workers=4, timeout=300, extra=["-dump", "dot", dot])
    nodes, roots, edges = parse_dot(dot)
    msets = sorted({tuple(sorted(parse_tla_value(state_vars(nodes[n])["m"]))) for n in nodes})
    rng = random.Random(seed)
    scripts = []
    for ms in msets:
        cfg = {"tokenAuth": "openid" in ms, "smartCard": False, "auths": list(ms), "auth": "", "sel": "roundrobin", "hosts": [["H1", ":", "PA"]], "verifyIp": True, "idle": 0,
               "tls": "local" in ms}
        for az in AUTHZ:
            methods = METHODS if tier == "thorough" else (["RDG_OUT_DATA", "RDG_IN_DATA"] if az in ("basic-right", "ntlm-right", "absent", "negotiate-ntlm-right") else [METHODS[stable_hash(az + str(ms) + str(seed)) % len(METHODS)]])
            for mt in methods:
                scripts.append({"id": "h%05d" % len(scripts), "cfg": cfg, "method": mt, "authz": az})
    # a client that keeps cookies (Front!Handle with jar = TRUE): after a request that was confirmed and reached the
    # handler, every cookie the gateway set is sent along with a second request of each class
    SECOND = ["absent", "empty", "bare-basic", "bare-ntlm", "basic-wrongpw", "basic-unknown", "basic-notbase64", "basic-nocolon", "basic-right-8", "basic-right",
              "ntlm-wrongpw", "ntlm-unknown", "ntlm-garbage", "ntlm-auth-first", "ntlm-right", "embedded-scheme", "negotiate-krb-garbage"]
    jar_states = {tuple(sorted(parse_tla_value(state_vars(nodes[n])["m"]))) for n in nodes if state_vars(nodes[n])["jar"] == "TRUE"}
    for ms in msets:
        if ms not in jar_states or ms == ("openid",):
            continue
        cfg = {"tokenAuth": "openid" in ms, "smartCard": False, "auths": list(ms), "auth": "", "sel": "roundrobin", "hosts": [["H1", ":", "PA"]], "verifyIp": True, "idle": 0,
               "tls": "local" in ms}
        priors = []
        if "local" in ms:
            priors += [[{"method": "GET", "authz": "basic-right"}], [{"method": "RDG_IN_DATA", "authz": "basic-right"}], [{"method": "POST", "authz": "basic-right"}, {"method": "GET", "authz": "basic-wrongpw"}]]
        if "ntlm" in ms:
            priors += [[{"method": "GET", "authz": "ntlm-right"}], [{"method": "PUT", "authz": "negotiate-ntlm-right"}]]
        for pr in priors:
            for az in SECOND:
                if tier == "quick" and stable_hash(az + str(ms) + str(pr) + str(seed)) % 2 and az not in ("basic-wrongpw", "ntlm-wrongpw", "bare-basic", "absent", "basic-right-8"):
                    continue
                mt = ["RDG_OUT_DATA", "RDG_IN_DATA", "GET"][stable_hash(az + str(pr) + str(ms) + str(seed)) % 3] if tier == "quick" else None
                for m2 in ([mt] if mt else ["RDG_OUT_DATA", "RDG_IN_DATA", "GET"]):
                    scripts.append({"id": "h%05d" % len(scripts), "cfg": cfg, "method": m2, "authz": az, "prior": pr})
    # a tunnel opened with confirmed credentials, then requests of other users / without or with wrong credentials, then
    # the tunnel's own packets: the tunnel still acts for the user it was opened as
    for ms in msets:
        if ms == ("openid",):
            continue
        cfg = {"tokenAuth": "openid" in ms, "smartCard": False, "auths": list(ms), "auth": "", "sel": "roundrobin", "hosts": [["H1", ":", "PA"]], "verifyIp": True, "idle": 0,
               "tls": "local" in ms}
        for scheme in [x for x in ("local", "ntlm") if x in ms] + (["local-slow", "local-at"] if "local" in ms else []) + (["ntlm-at", "ntlm-bsl"] if "ntlm" in ms else []):
            others = {"local": ["basic-right-8", "basic-wrongpw", "absent", "basic-unknown"], "ntlm": ["ntlm-wrongpw", "absent", "ntlm-unknown", "ntlm-garbage"],
                      "local-slow": ["absent"], "local-at": ["absent"], "ntlm-at": ["absent"], "ntlm-bsl": ["absent"]}[scheme]
            for tr in ("legacy", "ws"):
                for k in range(2 if tier == "quick" else 6):
                    n = [1, 3, 6, 2, 4, 8][k]
                    interf = [{"method": ["GET", "RDG_OUT_DATA", "RDG_IN_DATA"][(j + k) % 3], "authz": others[(j + k) % len(others)]} for j in range(n)]
                    scripts.append({"id": "h%05d" % len(scripts), "cfg": cfg, "kind": "tunuser", "transport": tr, "scheme": scheme, "interf": interf, "method": "", "authz": ""})
    out, rep, res = fa.generic("C05", work, tier, seed, "front", "FrontTrace", scripts, design,
                               lambda v: "%s/%s/%s" % (v["guard"], v["a"], v["b"]),
                               "Front.tla: ShouldReach / Challenges over every startable mechanism set x request class (design). Conformance: the real binary (TLS where local auth needs it) with the real rdpgw-auth (stub PAM, NTLM "
                               "user file) behind it, one instance per startable subset of {openid, kerberos, local, ntlm} enumerated by TLC; 27 Authorization classes (absent, empty, bare/truncated/embedded/wrong-case schemes, right and "
                               "wrong Basic and NTLM credentials, NTLM on two connections or without negotiate, several headers, garbage SPNEGO) x HTTP methods; 'reached the handler' and the user it was reached as come from the gw.enter hook; "
                               "Kerberos: the harness plays the KDC - service tickets made with the key in the gateway's keytab (valid, expired, not yet valid, inside the clock-skew allowance, made with another key, for another service)", jobs=12)
    out.coverage["mechanism_sets"] = ["+".join(m) for m in msets]
    return out

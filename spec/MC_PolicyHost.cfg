SPECIFICATION Spec
CONSTANT Mode = "host"
INVARIANTS I_SignedAllowsNothing I_TokenHostBinds I_ListMembership I_AnyAllowsAll I_EmptyUserRefused I_PlaceholderIsNotAName I_ExactEntryAllowed
CHECK_DEADLOCK FALSE

--------------------------------- MODULE Oidc ---------------------------------
(* Browser sessions of rdpgw (web/oidc.go, web/session.go, web/web.go): how a   *)
(* session becomes authenticated (C13) and what the download endpoint hands out *)
(* (C12).                                                                       *)
EXTENDS Integers, Sequences, FiniteSets, TLC

CONSTANTS Browsers, MaxAge   \* MaxAge: ticks a state value stays valid (two minutes)

\* what the identity provider does for one login attempt
\* manyclaims / laterclaims: verified ID tokens that carry several of the claims a user name may be taken from (all four,
\* or only the later ones of the documented order) with different values
Logins == {"ok", "refuse", "noidtoken", "badsig", "wrongiss", "subissuer", "issuerslash", "wrongaud", "noaud", "emptyaud", "expired", "expired-just", "nousername", "manyclaims", "laterclaims"}
LoginVerifies(lg) == lg \in {"ok", "manyclaims", "laterclaims"}

VARIABLES sess,    \* browser -> [cookie: "none" | "own" | "tampered" | "foreign", authed, user]
          states,  \* set of [id, owner, age] issued and not yet expired
          nextId, last
vars == <<sess, states, nextId, last>>
Fresh == [cookie |-> "none", authed |-> FALSE, user |-> "none"]
NoLast == [act |-> "none", b |-> "none", status |-> 0, file |-> FALSE, authedBefore |-> FALSE, stateOk |-> FALSE, login |-> "ok"]

Init == sess = [b \in Browsers |-> Fresh] /\ states = {} /\ nextId = 1 /\ last = NoLast

Usable(b) == sess[b].cookie = "own"
\* GET /connect: a file for an authenticated session, otherwise a redirect that issues a state value
Connect(b) ==
  IF Usable(b) /\ sess[b].authed
    THEN /\ last' = [act |-> "connect", b |-> b, status |-> 200, file |-> TRUE, authedBefore |-> TRUE, stateOk |-> FALSE, login |-> "ok"]
         /\ UNCHANGED <<sess, states, nextId>>
    ELSE /\ nextId <= 3
         /\ states' = states \cup {[id |-> nextId, owner |-> b, age |-> 0]}
         /\ nextId' = nextId + 1
         /\ sess' = [sess EXCEPT ![b] = IF sess[b].cookie = "none" THEN [Fresh EXCEPT !.cookie = "own"] ELSE sess[b]]
         /\ last' = [act |-> "connect", b |-> b, status |-> 302, file |-> FALSE, authedBefore |-> FALSE, stateOk |-> FALSE, login |-> "ok"]
\* GET /callback?state=&code= : any browser may present any state value (also unknown ones: id 0)
Callback(b, sid, lg) ==
  LET ok == \E s \in states : s.id = sid IN
  /\ IF ok /\ LoginVerifies(lg) /\ sess[b].cookie \in {"none", "own"}
       THEN sess' = [sess EXCEPT ![b] = [cookie |-> "own", authed |-> TRUE, user |-> "claim"]]
       ELSE UNCHANGED sess
  /\ last' = [act |-> "callback", b |-> b, status |-> IF ok /\ LoginVerifies(lg) THEN 302 ELSE IF ~ok THEN 400 ELSE 500,
              file |-> FALSE, authedBefore |-> sess[b].authed, stateOk |-> ok, login |-> lg]
  /\ UNCHANGED <<states, nextId>>
Tick == /\ states # {}
        /\ states' = {[s EXCEPT !.age = s.age + 1] : s \in {x \in states : x.age < MaxAge}}
        /\ UNCHANGED <<sess, nextId, last>>
\* the browser alters its cookie, or presents one made by another gateway instance
Tamper(b, k) == /\ sess[b].cookie = "own"
                /\ sess' = [sess EXCEPT ![b] = [cookie |-> k, authed |-> FALSE, user |-> "none"]]
                /\ last' = NoLast
                /\ UNCHANGED <<states, nextId>>
Next == \E b \in Browsers : Connect(b) \/ (\E sid \in 0..3, lg \in Logins : Callback(b, sid, lg)) \/ (\E k \in {"tampered", "foreign"} : Tamper(b, k))
        \/ Tick
Spec == Init /\ [][Next]_vars

\* C13
AuthedOnlyByVerifiedCallback ==
  \A b \in Browsers : sess[b].authed => sess[b].cookie = "own"
CallbackDecides ==
  (last.act = "callback" /\ sess[last.b].authed /\ ~last.authedBefore) => (last.stateOk /\ LoginVerifies(last.login))
FailingCallbackChangesNothing ==
  (last.act = "callback" /\ ~(last.stateOk /\ LoginVerifies(last.login))) => sess[last.b].authed = last.authedBefore
TamperedNeverAuthed == \A b \in Browsers : sess[b].cookie \in {"tampered", "foreign"} => ~sess[b].authed
\* C12
FileOnlyForAuthenticated == last.file => last.authedBefore
=============================================================================

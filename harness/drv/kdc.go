package drv

import (
	"sync"
	"bufio"
	"bytes"
	"encoding/binary"
	"fmt"
	"io"
	"math/rand"
	"net"
	"net/http"
	"net/http/httptest"
	"os"
	"path/filepath"
	"strings"
	"time"

	"github.com/bolkedebruin/rdpgw/cmd/rdpgw/kdcproxy"
	"github.com/jcmturner/gofork/encoding/asn1"

	"verifharness/envx"
)

// KdcScript is one request to the KDC proxy with a KDC environment.
type KdcScript struct {
	ID     string `json:"id"`
	Method string `json:"method"`
	Len    string `json:"len"`   // ok | none | big
	Body   string `json:"body"`  // valid | notder | trailing | empty
	Realm  string `json:"realm"` // default | configured | unknown
	Size   int    `json:"size"`  // Kerberos message size
	// SizeCls: class of the kerb-message field: s0 (empty field), s3 (1..3 bytes: not even a length prefix),
	// s4 (a prefix announcing an empty message), otherwise prefix + Size bytes
	SizeCls string `json:"sizecls"`
	KDCs   []struct {
		TCP string `json:"tcp"` // reply-close | reply-keepopen | partial | close | silent | refuse
		UDP string `json:"udp"` // reply | silent | refuse
	} `json:"kdcs"`
	Target string `json:"target"` // handler | binary
	// Overlap: this many further requests with the same content are sent to the same proxy instance while the first
	// is still waiting for its KDC (every KDC delays its reply); each request is recorded and judged on its own
	Overlap int `json:"overlap,omitempty"`
	// After: what the same proxy instance served right before the judged request: "" / "nothing", "other-realm" (a
	// request naming OTHER.TEST, a second configured realm with a KDC of its own), "unknown-realm"
	After string `json:"after,omitempty"`
	// ReplyLen: length of every KDC's reply in bytes (0 = some length between 40 and 440): the wrapping of a reply has
	// length fields whose encoding changes at 128, 256 and 65536
	ReplyLen int `json:"replyLen,omitempty"`
}

type kdcProxyMsg struct {
	Message []byte `asn1:"tag:0,explicit"`
	Realm   string `asn1:"tag:1,optional"`
	Flags   int    `asn1:"tag:2,optional"`
}

// RunKdc executes one scenario against the real handler (in-process) or the
// real binary's /KdcProxy route.
func (r *Runner) RunKdc(s *KdcScript, tw *TraceWriter, rng *rand.Rand) error {
	var kdcs []*envx.KDC
	var addrs []string
	defer func() {
		for _, k := range kdcs {
			if k != nil {
				k.Close()
			}
		}
	}()
	for i, kd := range s.KDCs {
		if kd.TCP == "refuse" {
			kdcs = append(kdcs, nil)
			addrs = append(addrs, envx.RefusedAddr())
			continue
		}
		rl := 40 + rng.Intn(400)
		if s.ReplyLen > 0 {
			rl = s.ReplyLen
		}
		reply := make([]byte, rl)
		rng.Read(reply)
		reply[0] = byte(i + 1)
		k, err := envx.NewKDC(kd.TCP, kd.UDP, reply)
		if err != nil {
			return err
		}
		kdcs = append(kdcs, k)
		addrs = append(addrs, k.Addr)
	}
	// the KDC of the other realm: it answers, and it must never see anything of a request for another realm
	var otherKDC *envx.KDC
	var otherAddrs []string
	if s.After == "other-realm" {
		oreply := make([]byte, 64)
		rng.Read(oreply)
		oreply[0] = 0xEE
		ok, err := envx.NewKDC("reply-close", "silent", oreply)
		if err != nil {
			return err
		}
		otherKDC = ok
		defer ok.Close()
		otherAddrs = []string{ok.Addr}
	}
	kt, conf, err := r.KerberosFilesRealms(addrs, otherAddrs)
	if err != nil {
		return err
	}
	defer os.RemoveAll(filepath.Dir(kt))
	msg := make([]byte, s.Size)
	rng.Read(msg)
	kerb := make([]byte, 4+len(msg))
	binary.BigEndian.PutUint32(kerb, uint32(len(msg)))
	copy(kerb[4:], msg)
	switch s.SizeCls {
	case "s0":
		kerb, msg = []byte{}, nil
	case "s3":
		kerb, msg = make([]byte, 1+rng.Intn(3)), nil
		rng.Read(kerb)
	case "s4":
		kerb, msg = []byte{0, 0, 0, 0}, []byte{}
	}
	if s.SizeCls == "" {
		s.SizeCls = "s1400"
	}
	pm := kdcProxyMsg{Message: kerb}
	switch s.Realm {
	case "configured":
		pm.Realm = "EXAMPLE.ORG"
	case "unknown":
		pm.Realm = "NOPE.EXAMPLE"
	}
	body, err := asn1.Marshal(pm)
	if err != nil {
		return err
	}
	switch s.Body {
	case "notder":
		body = make([]byte, 30+rng.Intn(100))
		rng.Read(body)
		body[0] = 0x04
	case "trailing":
		body = append(body, 0x05, 0x00, byte(rng.Intn(256)))
	case "empty":
		body = []byte{}
	}
	if s.Len == "big" {
		body = append(body, make([]byte, 128*1024+1+rng.Intn(1000))...)
	}
	panicked := false
	logw := &strings.Builder{}
	k := kdcproxy.InitKdcProxy(conf)
	srv := httptest.NewUnstartedServer(http.HandlerFunc(k.Handler))
	srv.Config.ErrorLog = newLogger(logw)
	srv.Start()
	defer func() { srv.CloseClientConnections(); go srv.Close() }()

	// raw HTTP/1.1 exchange: the response is read even when the server stops
	// reading a large request body early
	type extraRes struct {
		status, ms int
		rb         []byte
	}
	var extras []extraRes
	var ewg sync.WaitGroup
	if s.Overlap > 0 {
		for _, kd := range kdcs {
			if kd != nil {
				kd.Delay = 400 * time.Millisecond
			}
		}
		extras = make([]extraRes, s.Overlap)
		for k := 0; k < s.Overlap; k++ {
			ewg.Add(1)
			go func(k int) {
				defer ewg.Done()
				time.Sleep(time.Duration(60*(k+1)) * time.Millisecond)
				t1 := time.Now()
				st, b := rawExchange(strings.TrimPrefix(srv.URL, "http://"), s.Method, "/KdcProxy", body, s.Len == "none", 10*time.Second)
				extras[k] = extraRes{st, int(time.Since(t1) / time.Millisecond), b}
			}(k)
		}
	}
	if s.After == "many-unknown" {
		// forty requests for unknown realms, one after the other, each answered (503) - then the judged request
		for k := 0; k < 40; k++ {
			pmsg := make([]byte, 4+16)
			binary.BigEndian.PutUint32(pmsg, 16)
			pb, _ := asn1.Marshal(kdcProxyMsg{Message: pmsg, Realm: fmt.Sprintf("NOPE%d.EXAMPLE", k)})
			if st, _ := rawExchange(strings.TrimPrefix(srv.URL, "http://"), "POST", "/KdcProxy", pb, false, 2*time.Second); st <= 0 {
				break // the proxy has stopped answering already: the judged request will show it
			}
		}
	}
	if s.After == "other-realm" || s.After == "unknown-realm" {
		pmsg := make([]byte, 4+32)
		binary.BigEndian.PutUint32(pmsg, 32)
		rng.Read(pmsg[4:])
		pb, _ := asn1.Marshal(kdcProxyMsg{Message: pmsg, Realm: map[string]string{"other-realm": "OTHER.TEST", "unknown-realm": "NOPE.EXAMPLE"}[s.After]})
		rawExchange(strings.TrimPrefix(srv.URL, "http://"), "POST", "/KdcProxy", pb, false, 10*time.Second)
	}
	foreign0 := 0
	if otherKDC != nil {
		tcp0, udp0 := otherKDC.Snapshot()
		foreign0 = len(tcp0) + len(udp0)
	}
	t0 := time.Now()
	status, rb := rawExchange(strings.TrimPrefix(srv.URL, "http://"), s.Method, "/KdcProxy", body, s.Len == "none", 10*time.Second)
	ms := int(time.Since(t0) / time.Millisecond)
	ewg.Wait()
	time.Sleep(5 * time.Millisecond)
	if strings.Contains(logw.String(), "panic serving") {
		panicked = true
	}
	// what did the KDCs see / what may the reply be
	sentOK, anySent, replyOK, partialOnly := true, false, false, false
	var expected [][]byte
	nPartial, nReply := 0, 0
	for i, kd := range kdcs {
		if kd == nil {
			continue
		}
		tcp, udp := kd.Snapshot()
		for _, g := range tcp {
			if len(g) == 0 {
				continue
			}
			anySent = true
			// the proxy hangs up on the other KDCs once the first reply is in: a KDC may have seen only a prefix
			// of the message by then - but never anything else
			if !bytes.HasPrefix(kerb, g) {
				sentOK = false
			}
		}
		for _, g := range udp {
			anySent = true
			if !bytes.Equal(g, msg) {
				sentOK = false
			}
		}
		pre := make([]byte, 4)
		binary.BigEndian.PutUint32(pre, uint32(len(kd.Reply)))
		full := append(pre, kd.Reply...)
		switch s.KDCs[i].TCP {
		case "reply-close", "reply-keepopen":
			expected = append(expected, full)
			nReply++
		case "partial":
			nPartial++
			expected = append(expected, append(append([]byte{}, pre...), kd.Reply[:len(kd.Reply)/2]...))
		}
		if s.KDCs[i].UDP == "reply" {
			expected = append(expected, full)
			nReply++
		}
	}
	partialOnly = nReply == 0 && nPartial > 0
	if status == 200 {
		var out kdcProxyMsg
		rest, err := asn1.Unmarshal(rb, &out)
		if err == nil && len(rest) == 0 {
			for _, e := range expected {
				if bytes.Equal(out.Message, e) {
					replyOK = true
				}
			}
		}
	}
	var kd []M
	for _, x := range s.KDCs {
		udp := x.UDP
		if udp == "reply" && len(msg) > 65000 {
			udp = "silent" // the message does not fit a datagram: this KDC never sees it over UDP
		}
		kd = append(kd, M{"tcp": x.TCP, "udp": udp})
	}
	if kd == nil {
		kd = []M{}
	}
	// (by content, not by count: what the other realm's KDC still receives of the EARLIER request - its datagram copy
	// may be recorded late - is that request's business)
	sentForeign := false
	_ = foreign0
	if otherKDC != nil && s.Realm != "unknown" {
		tcp1, udp1 := otherKDC.Snapshot()
		for _, g := range tcp1 {
			if len(g) >= len(kerb) && len(kerb) > 4 && bytes.HasPrefix(g, kerb) || len(g) > 4 && bytes.HasPrefix(kerb, g) {
				sentForeign = true
			}
		}
		for _, g := range udp1 {
			if len(msg) > 0 && bytes.Equal(g, msg) {
				sentForeign = true
			}
		}
	}
	after := s.After
	if after == "" {
		after = "nothing"
	}
	cls := s.Method + "." + s.Len + "." + s.Body + "." + s.Realm
	tw.Line(M{"ev": "kdc", "script": s.ID, "cls": cls, "target": "handler", "after": after, "sentForeign": sentForeign, "method": s.Method, "len": s.Len, "body": s.Body, "realm": s.Realm, "kdcs": kd, "size": s.Size, "sizecls": s.SizeCls,
		"status": status, "ms": ms, "replyOK": replyOK, "sentOK": sentOK, "anySent": anySent, "panicked": panicked, "partialOnly": partialOnly})
	// the overlapping requests: same proxy, same KDCs, same expectations - each judged on its own
	for _, x := range extras {
		rok := false
		if x.status == 200 {
			var out kdcProxyMsg
			rest, err := asn1.Unmarshal(x.rb, &out)
			if err == nil && len(rest) == 0 {
				for _, e := range expected {
					if bytes.Equal(out.Message, e) {
						rok = true
					}
				}
			}
		}
		tw.Line(M{"ev": "kdc", "script": s.ID, "cls": cls, "target": "overlapping", "after": after, "sentForeign": false, "method": s.Method, "len": s.Len, "body": s.Body, "realm": s.Realm, "kdcs": kd, "size": s.Size, "sizecls": s.SizeCls,
			"status": x.status, "ms": x.ms, "replyOK": rok, "sentOK": sentOK, "anySent": anySent, "panicked": panicked, "partialOnly": partialOnly})
	}
	return nil
}


// rawExchange performs one HTTP/1.1 request over a fresh TCP connection and
// returns the status (-1 if no response arrived in time) and the body.
func rawExchange(addr, method, path string, body []byte, chunked bool, timeout time.Duration) (int, []byte) {
	c, err := net.DialTimeout("tcp", addr, 3*time.Second)
	if err != nil {
		return -1, nil
	}
	defer c.Close()
	c.SetDeadline(time.Now().Add(timeout))
	var sb strings.Builder
	fmt.Fprintf(&sb, "%s %s HTTP/1.1\r\nHost: %s\r\nConnection: close\r\n", method, path, addr)
	if chunked {
		sb.WriteString("Transfer-Encoding: chunked\r\n\r\n")
	} else {
		fmt.Fprintf(&sb, "Content-Length: %d\r\n\r\n", len(body))
	}
	go func() {
		c.Write([]byte(sb.String()))
		if chunked {
			if len(body) > 0 {
				fmt.Fprintf(c, "%x\r\n", len(body))
				c.Write(body)
				c.Write([]byte("\r\n"))
			}
			c.Write([]byte("0\r\n\r\n"))
		} else {
			c.Write(body)
		}
	}()
	br := bufio.NewReader(c)
	resp, err := http.ReadResponse(br, nil)
	if err != nil {
		return -1, nil
	}
	defer resp.Body.Close()
	rb, _ := io.ReadAll(io.LimitReader(resp.Body, 1<<20))
	return resp.StatusCode, rb
}

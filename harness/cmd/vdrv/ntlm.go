package main

import (
	"math/rand"

	"verifharness/drv"
)

func init() {
	commands["ntlm"] = func(rep *report) error {
		var ss []*drv.NtScript
		if err := loadJSONL(*fScripts, func() interface{} { return &drv.NtScript{} }, func(v interface{}) { ss = append(ss, v.(*drv.NtScript)) }); err != nil {
			return err
		}
		rep.Scripts = len(ss)
		tw, err := drv.NewTraceWriter(*fOut)
		if err != nil {
			return err
		}
		defer tw.Close()
		r := runner()
		var ap *drv.AuthProc
		needGrpc := false
		for _, s := range ss {
			if s.Target == "grpc" {
				needGrpc = true
			}
		}
		var conn interface{ Close() error }
		var gc = (*drvConn)(nil)
		_ = conn
		if needGrpc {
			ap, err = r.StartAuth(drv.NtUsers())
			if err != nil {
				return err
			}
			defer ap.Stop()
			c, err := drv.DialAuth(ap.Sock)
			if err != nil {
				return err
			}
			defer c.Close()
			gc = &drvConn{c}
		}
		for _, s := range ss {
			rng := rand.New(rand.NewSource(*fSeed*1000003 + int64(hash(s.ID))))
			var e error
			if gc != nil {
				e = drv.RunNtlm(s, tw, rng, gc.c)
			} else {
				e = drv.RunNtlm(s, tw, rng, nil)
			}
			if e != nil {
				rep.Errors = append(rep.Errors, s.ID+": "+e.Error())
			} else {
				rep.Done++
			}
			if ap != nil && !ap.Alive() {
				rep.Faults = append(rep.Faults, "rdpgw-auth exited: "+ap.Log())
				break
			}
		}
		rep.Lines = tw.N
		return nil
	}
}

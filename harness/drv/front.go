package drv

import (
	"path/filepath"
	"bufio"
	"crypto/tls"
	"encoding/base64"
	"fmt"
	"io"
	"math/rand"
	"net"
	"net/textproto"
	"sort"
	"strconv"
	"strings"
	"time"

	"github.com/bolkedebruin/gokrb5/v8/client"
	krbconfig "github.com/bolkedebruin/gokrb5/v8/config"
	"github.com/bolkedebruin/gokrb5/v8/iana/etypeID"
	"github.com/bolkedebruin/gokrb5/v8/iana/nametype"
	"github.com/bolkedebruin/gokrb5/v8/keytab"
	"github.com/bolkedebruin/gokrb5/v8/messages"
	"github.com/bolkedebruin/gokrb5/v8/spnego"
	"github.com/bolkedebruin/gokrb5/v8/types"
	"github.com/m7913d/go-ntlm/ntlm"

	"verifharness/gw"
	"verifharness/tsgu"
	"verifharness/wsraw"
)

// FrScriptHTTP is one request (or NTLM exchange) to the gateway endpoint.
type FrontScript struct {
	ID     string    `json:"id"`
	Cfg    ScriptCfg `json:"cfg"`
	Method string    `json:"method"`
	Authz  string    `json:"authz"` // class name, see frontRequest
	// Prior: requests the same client made before this one; every cookie the gateway set in their
	// responses is sent along with the later requests (a client that keeps cookies)
	Prior []FrontStep `json:"prior,omitempty"`
	// kind "tunuser": a tunnel is opened with right credentials of Scheme over Transport, then the requests of Interf
	// are made (other users, wrong credentials, no credentials), then the tunnel's own packets follow: at every packet
	// the tunnel acts for the user the backend confirmed when it was opened
	Kind      string      `json:"kind,omitempty"`
	Transport string      `json:"transport,omitempty"`
	Scheme    string      `json:"scheme,omitempty"`
	Interf    []FrontStep `json:"interf,omitempty"`
}

type FrontStep struct {
	Method string `json:"method"`
	Authz  string `json:"authz"`
}

// hconn is a persistent HTTP/1.1 client connection.
type hconn struct {
	c  net.Conn
	br *bufio.Reader
}

func (i *Inst) hdial() (*hconn, error) {
	c, err := net.DialTimeout("tcp", i.P.Addr, 5*time.Second)
	if err != nil {
		return nil, err
	}
	if i.P.TLS {
		tc := tls.Client(c, &tls.Config{InsecureSkipVerify: true})
		if err := tc.Handshake(); err != nil {
			c.Close()
			return nil, err
		}
		c = tc
	}
	return &hconn{c: c, br: bufio.NewReader(c)}, nil
}

type hreply struct {
	status int
	hdr    textproto.MIMEHeader
}

// do sends one request and reads the reply head (and a Content-Length body).
func (h *hconn) do(method, host, cid string, hdrs [][2]string, upgrade bool) (*hreply, error) {
	var sb strings.Builder
	fmt.Fprintf(&sb, "%s /remoteDesktopGateway/ HTTP/1.1\r\nHost: %s\r\nRdg-Connection-Id: %s\r\nContent-Length: 0\r\n", method, host, cid)
	if upgrade {
		sb.WriteString("Connection: Upgrade\r\nUpgrade: websocket\r\nSec-WebSocket-Version: 13\r\nSec-WebSocket-Key: dGhlIHNhbXBsZSBub25jZQ==\r\n")
	}
	for _, x := range hdrs {
		fmt.Fprintf(&sb, "%s: %s\r\n", x[0], x[1])
	}
	sb.WriteString("\r\n")
	h.c.SetDeadline(time.Now().Add(8 * time.Second))
	defer h.c.SetDeadline(time.Time{})
	if _, err := h.c.Write([]byte(sb.String())); err != nil {
		return nil, err
	}
	tp := textproto.NewReader(h.br)
	line, err := tp.ReadLine()
	if err != nil {
		return nil, err
	}
	parts := strings.SplitN(line, " ", 3)
	st := 0
	if len(parts) >= 2 {
		st, _ = strconv.Atoi(parts[1])
	}
	mh, _ := tp.ReadMIMEHeader()
	if n, _ := strconv.Atoi(mh.Get("Content-Length")); n > 0 && st != 101 {
		io.CopyN(io.Discard, h.br, int64(n))
	}
	return &hreply{status: st, hdr: mh}, nil
}

// get sends a GET request for a web endpoint with extra headers and reads the reply head.
func (h *hconn) get(path, host string, hdrs [][2]string) (*hreply, error) {
	var sb strings.Builder
	fmt.Fprintf(&sb, "GET %s HTTP/1.1\r\nHost: %s\r\n", path, host)
	for _, x := range hdrs {
		fmt.Fprintf(&sb, "%s: %s\r\n", x[0], x[1])
	}
	sb.WriteString("\r\n")
	h.c.SetDeadline(time.Now().Add(8 * time.Second))
	defer h.c.SetDeadline(time.Time{})
	if _, err := h.c.Write([]byte(sb.String())); err != nil {
		return nil, err
	}
	tp := textproto.NewReader(h.br)
	line, err := tp.ReadLine()
	if err != nil {
		return nil, err
	}
	parts := strings.SplitN(line, " ", 3)
	st := 0
	if len(parts) >= 2 {
		st, _ = strconv.Atoi(parts[1])
	}
	mh, _ := tp.ReadMIMEHeader()
	if n, _ := strconv.Atoi(mh.Get("Content-Length")); n > 0 {
		io.CopyN(io.Discard, h.br, int64(n))
	}
	return &hreply{status: st, hdr: mh}, nil
}

// challengeSchemes lists the scheme words of the WWW-Authenticate headers.
func challengeSchemes(h textproto.MIMEHeader) []string {
	set := map[string]bool{}
	for _, v := range h.Values("Www-Authenticate") {
		set[strings.SplitN(strings.TrimSpace(v), " ", 2)[0]] = true
	}
	out := []string{}
	for k := range set {
		out = append(out, k)
	}
	sort.Strings(out)
	return out
}

func ntlmNegotiate() (*ntlm.V2ClientSession, string) {
	cl := &ntlm.V2ClientSession{}
	cl.SetUserInfo("x", "x", "")
	nm, _ := cl.GenerateNegotiateMessage()
	return cl, base64.StdEncoding.EncodeToString(nm.Bytes())
}

func ntlmAuthenticate(user, pass, challengeB64 string) (string, error) {
	b, err := base64.StdEncoding.DecodeString(challengeB64)
	if err != nil {
		return "", err
	}
	cm, err := ntlm.ParseChallengeMessage(b)
	if err != nil {
		return "", err
	}
	cl := &ntlm.V2ClientSession{}
	cl.SetUserInfo(user, pass, "")
	if err := cl.ProcessChallengeMessage(cm); err != nil {
		return "", err
	}
	am, err := cl.GenerateAuthenticateMessage()
	if err != nil {
		return "", err
	}
	return base64.StdEncoding.EncodeToString(am.Bytes()), nil
}

func getChallenge(rep *hreply, scheme string) string {
	for _, v := range rep.hdr.Values("Www-Authenticate") {
		if strings.HasPrefix(v, scheme+" ") {
			return strings.TrimPrefix(v, scheme+" ")
		}
	}
	return ""
}

// RunFront performs the scenario and records status, challenges and whether
// the tunnel handler was reached (hook gw.enter), and as whom.
func (i *Inst) RunFront(s *FrontScript, tw *TraceWriter, rng *rand.Rand) error {
	if s.Kind == "tunuser" {
		return i.runTunUser(s, tw, rng)
	}
	jar := map[string]string{}
	prior := []string{}
	for k, st := range s.Prior {
		ps := &FrontScript{ID: fmt.Sprintf("%s.p%d", s.ID, k), Cfg: s.Cfg, Method: st.Method, Authz: st.Authz}
		if err := i.runFrontStep(ps, tw, rng, jar, append([]string{}, prior...)); err != nil {
			return err
		}
		prior = append(prior, st.Method+":"+st.Authz)
	}
	return i.runFrontStep(s, tw, rng, jar, prior)
}

func (i *Inst) runFrontStep(s *FrontScript, tw *TraceWriter, rng *rand.Rand, jar map[string]string, prior []string) error {
	cookieHdr := func() [][2]string {
		if len(jar) == 0 {
			return nil
		}
		names := []string{}
		for n := range jar {
			names = append(names, n)
		}
		sort.Strings(names)
		parts := []string{}
		for _, n := range names {
			parts = append(parts, n+"="+jar[n])
		}
		return [][2]string{{"Cookie", strings.Join(parts, "; ")}}
	}
	keep := func(r *hreply) {
		if r == nil {
			return
		}
		for _, v := range r.hdr.Values("Set-Cookie") {
			nv := strings.SplitN(strings.SplitN(v, ";", 2)[0], "=", 2)
			if len(nv) == 2 {
				jar[strings.TrimSpace(nv[0])] = nv[1]
			}
		}
	}
	cid := i.R.NextCid("h")
	host := i.P.Addr
	mechs := append([]string{}, i.Cfg.Auths...)
	sort.Strings(mechs)
	faults0 := len(i.P.Faults())
	mark := i.P.Mark()
	upgrade := s.Method == "RDG_OUT_DATA"
	ev := M{"ev": "http", "script": s.ID, "cls": strings.Join(mechs, "+"), "mechs": mechs, "method": s.Method, "authz": s.Authz, "prior": append([]string{}, prior...), "cookies": len(jar),
		"scheme": "other", "wellFormed": false, "confirmed": false, "free": false, "wantUser": ""}
	var final *hreply
	var ferr error
	one := func(hdrs ...[2]string) {
		c, err := i.hdial()
		if err != nil {
			ferr = err
			return
		}
		defer c.c.Close()
		final, ferr = c.do(s.Method, host, cid, append(hdrs, cookieHdr()...), upgrade)
		keep(final)
	}
	az := func(v string) [2]string { return [2]string{"Authorization", v} }
	b64 := func(x string) string { return base64.StdEncoding.EncodeToString([]byte(x)) }
	goodNTLM := func(scheme, user, pass string, twoConns bool) {
		c, err := i.hdial()
		if err != nil {
			ferr = err
			return
		}
		defer c.c.Close()
		_, neg := ntlmNegotiate()
		r1, err := c.do(s.Method, host, cid, append([][2]string{az(scheme + " " + neg)}, cookieHdr()...), false)
		if err != nil {
			ferr = err
			return
		}
		keep(r1)
		ch := getChallenge(r1, scheme)
		if ch == "" {
			final = r1 // no challenge: the scheme is not served
			return
		}
		am, err := ntlmAuthenticate(user, pass, ch)
		if err != nil {
			ferr = err
			return
		}
		if twoConns {
			c2, err := i.hdial()
			if err != nil {
				ferr = err
				return
			}
			defer c2.c.Close()
			final, ferr = c2.do(s.Method, host, cid, append([][2]string{az(scheme + " " + am)}, cookieHdr()...), upgrade)
			keep(final)
			return
		}
		final, ferr = c.do(s.Method, host, cid, append([][2]string{az(scheme + " " + am)}, cookieHdr()...), upgrade)
		keep(final)
	}
	set := func(scheme string, wf, conf bool, want string) {
		ev["scheme"], ev["wellFormed"], ev["confirmed"], ev["wantUser"] = scheme, wf, conf, want
	}
	switch s.Authz {
	case "absent":
		set("none", false, false, "")
		one()
	case "empty":
		set("empty", false, false, "")
		one(az(""))
	case "bare-ntlm":
		set("ntlm", false, false, "")
		one(az("NTLM"))
	case "bare-negotiate":
		set("negotiate-ntlm", false, false, "")
		one(az("Negotiate"))
	case "bare-basic":
		set("basic", false, false, "")
		one(az("Basic"))
	case "trunc-scheme":
		set("other", false, false, "")
		one(az([]string{"NTL", "Basi", "Negotiat", "N", "B"}[rng.Intn(5)]))
	case "embedded-scheme":
		set("other", false, false, "")
		one(az([]string{"xNTLM", "Bearer NTLM", "xBasic abc", "MyNegotiate", "Digest Basic"}[rng.Intn(5)]))
	case "wrongcase-basic":
		// scheme names are case-insensitive in HTTP: a gateway may treat this as Basic or not
		set("basic", true, true, "7")
		ev["free"] = true
		one(az("basic " + b64("7:pw-7")))
	case "wrongcase-ntlm":
		set("other", false, false, "")
		_, neg := ntlmNegotiate()
		one(az("ntlm " + neg))
	case "basic-right":
		set("basic", true, true, "7")
		one(az("Basic " + b64("7:pw-7")))
	case "basic-right-8":
		set("basic", true, true, "8")
		one(az("Basic " + b64("8:pw-8")))
	case "basic-right-colonpw":
		set("basic", true, false, "8") // password with a colon: whole rest is the password, which is wrong
		one(az("Basic " + b64("8:pw-8:extra")))
	case "basic-wrongpw":
		set("basic", true, false, "")
		one(az("Basic " + b64("7:wrong")))
	case "basic-wrongpw-nonutf8":
		// wrong passwords that differ from the right one only by bytes that are not valid UTF-8 (a client using another
		// code page): they are wrong passwords, whatever a layer in between makes of the bytes
		set("basic", true, false, "")
		one(az("Basic " + b64([]string{"7:pw-7\xff", "7:pw\xe9-7", "7:\xc0pw-7", "7:pw-7\xf0\x28"}[rng.Intn(4)])))
	case "basic-user-nonutf8":
		// a user name that is the right one plus such bytes, with the right user's password: that user does not exist
		set("basic", true, false, "")
		one(az("Basic " + b64([]string{"7\xff:pw-7", "\xc07:pw-7", "7\xe9:pw-7"}[rng.Intn(3)])))
	case "basic-wrong-while-right-in-flight", "basic-right-while-wrong-in-flight":
		// two requests of the same user from the same client address at the same time, one with the right and one with
		// a wrong password, while the authentication backend takes its time over the first: each gets its own verdict
		first, second := "slow7:pw-slow7", "slow7:not-the-password"
		if s.Authz == "basic-right-while-wrong-in-flight" {
			first, second = second, first
			set("basic", true, true, "slow7")
		} else {
			set("basic", true, false, "")
		}
		go func() {
			if c, err := i.hdial(); err == nil {
				c.do("GET", host, i.R.NextCid("h"), [][2]string{az("Basic " + b64(first))}, false)
				c.c.Close()
			}
		}()
		time.Sleep(120 * time.Millisecond)
		one(az("Basic " + b64(second)))
		time.Sleep(350 * time.Millisecond)
	case "basic-unknown":
		set("basic", true, false, "")
		one(az("Basic " + b64("nobody:pw-nobody-x")))
	case "basic-emptyuser":
		set("basic", true, false, "")
		one(az("Basic " + b64(":pw-")))
	case "basic-nocolon":
		set("basic", false, false, "")
		one(az("Basic " + b64("7pw-7")))
	case "basic-notbase64":
		set("basic", false, false, "")
		one(az("Basic !!!!"))
	case "basic-locked":
		set("basic", true, false, "")
		one(az("Basic " + b64("locked1:pw-locked1")))
	case "two-invalid":
		set("basic", false, false, "")
		one(az("Basic !!!!"), az("Basic "+b64("7:wrong")))
	case "two-valid-first":
		set("basic", true, true, "7")
		ev["free"] = true
		one(az("Basic "+b64("7:pw-7")), az("Basic !!!!"))
	case "two-good-then-otheruser":
		// the first header is confirmed; a second one names another user with a wrong password: the request may be
		// served or refused, but never as that other user
		set("basic", true, true, "7")
		ev["free"] = true
		one(az("Basic "+b64("7:pw-7")), az("Basic "+b64("8:not-the-password")))
	case "two-wrong-then-good":
		set("basic", true, true, "8")
		ev["free"] = true
		one(az("Basic "+b64("7:not-the-password")), az("Basic "+b64("8:pw-8")))
	case "three-good-then-others":
		set("basic", true, true, "7")
		ev["free"] = true
		one(az("Basic "+b64("7:pw-7")), az("Basic "+b64("8:nope")), az("Basic "+b64("root:toor")))
	case "ntlm-right":
		set("ntlm", true, true, "nuser1")
		goodNTLM("NTLM", "nuser1", i.Users["nuser1"], false)
	case "negotiate-ntlm-right":
		set("negotiate-ntlm", true, true, "nuser2")
		goodNTLM("Negotiate", "nuser2", i.Users["nuser2"], false)
	case "ntlm-wrongpw":
		set("ntlm", true, false, "")
		goodNTLM("NTLM", "nuser1", "not-the-password", false)
	case "ntlm-unknown":
		set("ntlm", true, false, "")
		goodNTLM("NTLM", "ghost", "whatever", false)
	case "ntlm-two-conns":
		set("ntlm", true, false, "") // right password, but the proof arrives on another connection
		goodNTLM("NTLM", "nuser1", i.Users["nuser1"], true)
	case "ntlm-auth-first":
		set("ntlm", true, false, "")
		// an authenticate message without any negotiate on this connection (computed against a made-up challenge)
		cm := append([]byte("NTLMSSP\x00\x02\x00\x00\x00"), make([]byte, 44)...)
		copy(cm[20:], []byte{0x05, 0x02, 0x88, 0xa2})
		am, err := ntlmAuthenticate("nuser1", i.Users["nuser1"], base64.StdEncoding.EncodeToString(cm))
		if err != nil {
			am = base64.StdEncoding.EncodeToString(append([]byte("NTLMSSP\x00\x03\x00\x00\x00"), make([]byte, 60)...))
		}
		one(az("NTLM " + am))
	case "ntlm-garbage":
		set("ntlm", false, false, "")
		one(az("NTLM " + b64("garbage-not-ntlm")))
	case "krb-right", "krb-expired", "krb-notyet", "krb-wrongkey", "krb-otherservice", "krb-expired-4min":
		// the harness plays the KDC: service tickets for the gateway's principal, made with the key in the gateway's keytab
		// (or with another key / for another service), valid now, expired half an hour ago, not valid for another half
		// hour, or expired four minutes ago (inside the five minutes of clock skew Kerberos allows: either verdict)
		now := time.Now()
		start, end := now.Add(-10*time.Minute), now.Add(8*time.Hour)
		conf := s.Authz == "krb-right"
		switch s.Authz {
		case "krb-expired":
			start, end = now.Add(-9*time.Hour), now.Add(-30*time.Minute)
		case "krb-notyet":
			start, end = now.Add(30*time.Minute), now.Add(9*time.Hour)
		case "krb-expired-4min":
			start, end = now.Add(-9*time.Hour), now.Add(-4*time.Minute)
			ev["free"] = true
		}
		set("negotiate-krb", true, conf, "alice")
		hdr, err := i.negotiateHeader("alice", s.Authz, start, end)
		if err != nil {
			if i.krbDir == "" {
				// no keytab in this configuration: kerberos is not enabled; a token made with some key stands in
				set("negotiate-krb", true, false, "")
				hdr = "Negotiate " + b64("\x60\x82no-kerberos-here")
			} else {
				return err
			}
		}
		one(az(hdr))
	case "negotiate-krb-garbage":
		set("negotiate-krb", false, false, "")
		one(az("Negotiate " + b64("\x60\x82not-a-spnego-token")))
	default:
		return fmt.Errorf("unknown authz class %q", s.Authz)
	}
	status, chal := -1, []string{}
	if final != nil {
		status = final.status
		chal = challengeSchemes(final.hdr)
	}
	if ferr != nil {
		time.Sleep(10 * time.Millisecond) // let the gateway's stderr (panic traces) arrive
	}
	i.P.Sync(cid)
	reached, user := false, ""
	panicked := false
	for _, e := range i.P.Since(mark) {
		if e.Cid == cid && e.Pt == "gw.enter" {
			reached = true
			user = e.Str(2)
		}
		if e.Cid == cid && e.Panicking {
			panicked = true
		}
	}
	if len(i.P.Faults()) > faults0 {
		panicked = true
	}
	ev["status"], ev["challenges"], ev["reached"], ev["user"], ev["panicked"] = status, chal, reached, user, panicked
	tw.Line(ev)
	return nil
}

var _ = gw.Event{}


// runTunUser: see FrontScript.Kind.
func (i *Inst) runTunUser(s *FrontScript, tw *TraceWriter, rng *rand.Rand) error {
	oo := OpenOpts{Transport: s.Transport}
	user := ""
	switch s.Scheme {
	case "local-slow":
		// the backend takes its time over this user; meanwhile another user's request (right credentials) is handled
		user = "slow7"
		oo.Basic = user + ":" + i.Users[user]
		go func() {
			time.Sleep(120 * time.Millisecond)
			if c, err := i.hdial(); err == nil {
				c.do("GET", i.P.Addr, i.R.NextCid("h"), [][2]string{{"Authorization", "Basic " + base64.StdEncoding.EncodeToString([]byte("slow8:"+i.Users["slow8"]))}}, false)
				c.c.Close()
			}
		}()
	case "local":
		user = "7"
		oo.Basic = user + ":" + i.Users[user]
	case "ntlm":
		user = "nuser1"
		oo.NTLM = &wsraw.NTLMCreds{User: user, Pass: i.Users[user]}
	case "ntlm-at", "ntlm-bsl":
		// an account whose name carries a realm / a domain; the bare name is another account of the same user file
		user = map[string]string{"ntlm-at": "nuser1@contractors.example", "ntlm-bsl": "CONTRACTORS\\nuser1"}[s.Scheme]
		oo.NTLM = &wsraw.NTLMCreds{User: user, Pass: i.Users[user]}
	case "local-at":
		user = "7@o.example"
		oo.Basic = user + ":" + i.Users[user]
	default:
		return fmt.Errorf("tunuser: scheme %q", s.Scheme)
	}
	mechs := append([]string{}, i.Cfg.Auths...)
	sort.Strings(mechs)
	mark := i.P.Mark()
	t, rep, err := i.Open(oo)
	if err != nil || t == nil {
		if !i.P.Alive() {
			return fmt.Errorf("open: %v", err)
		}
		// right credentials did not get a tunnel (or not in the way the mechanism works): recorded, judged by the spec
		st := 0
		if rep != nil {
			st = rep.Status
		}
		tw.Line(M{"ev": "tunuser", "script": s.ID, "cls": strings.Join(mechs, "+"), "mechs": mechs, "transport": s.Transport, "scheme": s.Scheme, "confirmed": user,
			"seen": []string{fmt.Sprintf("<no tunnel: status %d %v>", st, err)}, "interf": []string{}, "ended": true})
		return nil
	}
	defer t.Close()
	for k, st := range s.Interf {
		ps := &FrontScript{ID: fmt.Sprintf("%s.i%d", s.ID, k), Cfg: s.Cfg, Method: st.Method, Authz: st.Authz}
		if err := i.runFrontStep(ps, tw, rng, map[string]string{}, nil); err != nil {
			return err
		}
	}
	// the tunnel's own packets (with cookie authentication on as well they stop at the tunnel request, which has no cookie)
	ended := false
	for _, pkt := range [][]byte{tsgu.Handshake(1, 0, 0, 0), tsgu.TunnelCreate(0, "", false), tsgu.TunnelAuth("c")} {
		r, err := t.Step(pkt)
		if err != nil || r.End {
			ended = true
			break
		}
	}
	seen := []string{}
	for _, e := range i.P.Since(mark) {
		if e.Cid == t.Cid && e.Pt == "proc.recv" && e.User != nil {
			seen = append(seen, *e.User)
		}
	}
	if len(seen) == 0 {
		return fmt.Errorf("tunuser: the packet loop saw no packet of the tunnel")
	}
	interf := []string{}
	for _, st := range s.Interf {
		interf = append(interf, st.Method+":"+st.Authz)
	}
	tw.Line(M{"ev": "tunuser", "script": s.ID, "cls": strings.Join(mechs, "+"), "mechs": mechs, "transport": s.Transport, "scheme": s.Scheme, "confirmed": user, "seen": seen, "interf": interf, "ended": ended})
	return nil
}


// negotiateHeader plays KDC and client: a service ticket for the gateway's principal with the given validity, wrapped
// with a fresh authenticator in a SPNEGO token.
func (i *Inst) negotiateHeader(user, cls string, start, end time.Time) (string, error) {
	if i.krbDir == "" {
		return "", fmt.Errorf("no keytab")
	}
	kt, err := keytab.Load(filepath.Join(i.krbDir, "gw.keytab"))
	if err != nil {
		return "", err
	}
	realm, spn := "EXAMPLE.ORG", "HTTP/gw.example.org"
	switch cls {
	case "krb-wrongkey":
		kt = keytab.New()
		kt.AddEntry(spn, realm, "some-other-password", time.Now(), 1, 18)
	case "krb-otherservice":
		spn = "HTTP/other.example.org"
		kt = keytab.New()
		kt.AddEntry(spn, realm, "keytab-password", time.Now(), 1, 18)
	}
	cname := types.NewPrincipalName(nametype.KRB_NT_PRINCIPAL, user)
	sname := types.NewPrincipalName(nametype.KRB_NT_SRV_INST, spn)
	tkt, sessionKey, err := messages.NewTicket(cname, realm, sname, realm, types.NewKrbFlags(), kt, etypeID.AES256_CTS_HMAC_SHA1_96, 1, start, start, end, end)
	if err != nil {
		return "", err
	}
	cl := client.NewWithPassword(user, realm, "irrelevant", krbconfig.New())
	nti, err := spnego.NewNegTokenInitKRB5(cl, tkt, sessionKey)
	if err != nil {
		return "", err
	}
	st := spnego.SPNEGOToken{Init: true, NegTokenInit: nti}
	b, err := st.Marshal()
	if err != nil {
		return "", err
	}
	return "Negotiate " + base64.StdEncoding.EncodeToString(b), nil
}

------------------------------ MODULE OidcTrace ------------------------------
(* Trace specification for C12 / C13: login callbacks, session cookies and      *)
(* downloads observed on the real binary with a fake identity provider.         *)
EXTENDS Oidc, Json, TLCExt, IOUtils
TTraceFile == IF "TRACE" \in DOMAIN IOEnv THEN IOEnv.TRACE ELSE "trace.ndjson"
TraceLog == ndJsonDeserialize(TTraceFile)
VARIABLES l, viol, cover
tvars == <<sess, states, nextId, last, l, viol, cover>>
Line == TraceLog[l]
Pol == INSTANCE Policy
Tok == INSTANCE Tokens
Range(s) == {s[i] : i \in 1..Len(s)}

Bad(e) ==
  CASE e.ev = "callback" ->
         \* state: issued | unknown | expired | reused ; login as in Logins; authedAfter: a following /connect returned a file
         LET stateOk == e.state \in {"issued", "reused"}
             good == stateOk /\ LoginVerifies(e.login) IN
         (IF e.authedAfter /\ ~good THEN {"G_C13_OnlyVerifiedLogin"} ELSE {})
         \* the liveness side is demanded only for a state used for the first time: a gateway may well make a state single-use
         \cup (IF good /\ e.state = "issued" /\ ~e.authedAfter THEN {"G_C13_VerifiedLoginWorks"} ELSE {})
         \cup (IF e.authedAfter /\ ~e.userIsClaim THEN {"G_C13_UserIsTheClaim"} ELSE {})
         \cup (IF ~stateOk /\ e.status \notin {400, 500, 403} THEN {"G_C13_UnknownStateRefused"} ELSE {})
    [] e.ev = "cookie" ->
         \* mut: none | subst | trunc | foreign | empty | garbage ; authed: /connect with that cookie returned a file
         (IF e.mut # "none" /\ e.authed THEN {"G_C13_AlteredCookieNeverAuthed"} ELSE {})
         \cup (IF e.mut = "none" /\ ~(e.authed /\ e.sameUser) THEN {"G_C13_IdentityRestored"} ELSE {})
    [] e.ev = "connect" ->
         \* session: new | unauth | authed
         LET offered == Pol!Offered(e.sel, e.hosts, e.param, e.qOk, e.qSub)
             want == {Pol!Subst(h, e.user) : h \in offered} IN
         (IF e.session # "authed" /\ (e.status = 200 \/ e.hasToken \/ ~e.toIdp) THEN {"G_C12_OnlyLoggedIn"} ELSE {})
         \cup (IF e.session = "authed" /\ offered = {} /\ e.status = 200 THEN {"G_C12_HostByPolicy"} ELSE {})
         \cup (IF e.session = "authed" /\ offered # {} /\ e.status # 200 THEN {"G_C12_FileForLoggedIn"} ELSE {})
         \cup (IF e.status = 200 /\ e.fileHost \notin want THEN {"G_C12_HostByPolicy"} ELSE {})
         \cup (IF e.status = 200 /\ ~(e.claimHostIsFileHost /\ e.claimUserOk /\ e.claimAddr = Pol!ClientAddr(e.xff, e.peer).text /\ e.claimAtIsSession)
                THEN {"G_C12_ClaimsBindUserHostAddress"} ELSE {})
         \cup (IF e.status = 200 /\ ~e.gatewayNamed THEN {"G_C12_GatewayNamed"} ELSE {})
         \cup (IF e.status = 200 /\ e.sel \in {"roundrobin", "unsigned", "any"} /\ e.replayed /\ ~e.tunnelAccepted THEN {"G_C12_FileIsUsable"} ELSE {})
         \* the user token a file carries (login name rendered as name::token) is one minted for that file's user
         \cup (IF "userTokSubOK" \in DOMAIN e /\ ~e.userTokSubOK THEN {"G_C15_TokenInFileIsTheUsers"} ELSE {})
         \cup (IF e.status = 200 /\ ~(e.expIn >= 0 /\ e.expIn <= Tok!Lifetime) THEN {"G_C02_MintLifetime"} ELSE {})
    [] e.ev = "usertokx" ->
         \* the running gateway's /tokeninfo answers as the keys of its configuration say
         (IF e.status # Tok!TokenInfoStatus(e.vm, "GET", TRUE, e.tok) THEN {"G_C15_StatusAsConfigured"} ELSE {})
    [] OTHER -> {"G_UnknownEvent"}
TInit == l = 1 /\ viol = {} /\ cover = {} /\ sess = [b \in Browsers |-> Fresh] /\ states = {} /\ nextId = 1 /\ last = NoLast
TNext == /\ l <= Len(TraceLog)
         /\ viol' = viol \cup {<<l, g, Line.ev, Line.cls>> : g \in Bad(Line)}
         /\ cover' = cover \cup {<<Line.ev, Line.cls, Line.store>>}
         /\ l' = l + 1 /\ UNCHANGED <<sess, states, nextId, last>>
TSpec == TInit /\ [][TNext]_tvars
AtEnd == l = Len(TraceLog) + 1 =>
           PrintT(<<"VERIF_RESULT", ToJson([viol |-> viol, cover |-> cover, lines |-> Len(TraceLog)])>>)
TraceAccepted == TLCGet("stats").diameter = Len(TraceLog) + 1
=============================================================================

SPECIFICATION Spec
CONSTANTS
  NC = 3
  NB = 3
  Lens = {"eq", "short", "long"}
INVARIANTS ToHostNoInvention ToClientPrefix
CHECK_DEADLOCK FALSE

package envx

import (
	"fmt"
	"encoding/binary"
	"io"
	"net"
	"sync"
	"time"
)

// KDC is a fake Kerberos KDC listening on the same port over TCP and UDP.
// Behaviours: "reply-close", "reply-keepopen", "partial", "close", "silent";
// "refuse" is modelled by not starting a KDC at all (see RefusedAddr).
type KDC struct {
	Addr   string
	TCPBeh string
	UDPBeh string // "reply" | "silent"
	Reply  []byte // Kerberos message (without length prefix) this KDC answers with
	Delay  time.Duration
	ln     net.Listener
	pc     net.PacketConn
	mu     sync.Mutex
	TCPGot [][]byte // bytes received per TCP connection
	UDPGot [][]byte // datagrams received
	conns  []net.Conn
}

func NewKDC(tcpBeh, udpBeh string, reply []byte) (*KDC, error) {
	for try := 0; try < 20; try++ {
		ln, err := net.Listen("tcp4", "127.0.0.1:0")
		if err != nil {
			return nil, err
		}
		pc, err := net.ListenPacket("udp4", ln.Addr().String())
		if err != nil {
			ln.Close()
			continue
		}
		k := &KDC{Addr: ln.Addr().String(), TCPBeh: tcpBeh, UDPBeh: udpBeh, Reply: reply, ln: ln, pc: pc}
		go k.tcpLoop()
		go k.udpLoop()
		return k, nil
	}
	return nil, io.ErrNoProgress
}

func (k *KDC) tcpLoop() {
	for {
		c, err := k.ln.Accept()
		if err != nil {
			return
		}
		k.mu.Lock()
		idx := len(k.TCPGot)
		k.TCPGot = append(k.TCPGot, nil)
		k.conns = append(k.conns, c)
		k.mu.Unlock()
		go func() {
			if k.TCPBeh == "close" {
				c.Close()
				return
			}
			// read one framed request (or whatever arrives within a moment)
			c.SetReadDeadline(time.Now().Add(2 * time.Second))
			hdr := make([]byte, 4)
			var got []byte
			framed := false
			if hn, err := io.ReadFull(c, hdr); err == nil {
				framed = true
				got = append(got, hdr...)
				n := binary.BigEndian.Uint32(hdr)
				if n < 1<<20 {
					body := make([]byte, n)
					m, _ := io.ReadFull(c, body)
					got = append(got, body[:m]...)
					if m < int(n) {
						framed = false // the request never arrived completely: nothing to answer
					}
				}
			} else {
				got = append(got, hdr[:hn]...)
			}
			k.mu.Lock()
			k.TCPGot[idx] = got
			k.mu.Unlock()
			if !framed {
				// fewer than four bytes arrived: no KDC can frame a request from that, it keeps waiting
				return
			}
			if k.Delay > 0 {
				time.Sleep(k.Delay)
			}
			pre := make([]byte, 4)
			binary.BigEndian.PutUint32(pre, uint32(len(k.Reply)))
			switch k.TCPBeh {
			case "reply-close":
				c.Write(append(pre, k.Reply...))
				c.Close()
			case "reply-keepopen":
				c.Write(append(pre, k.Reply...))
				// keep the connection open; the proxy has to frame the reply itself
			case "partial":
				c.Write(append(pre, k.Reply[:len(k.Reply)/2]...))
				c.Close()
			case "silent":
				// never answer
			}
		}()
	}
}

func (k *KDC) udpLoop() {
	buf := make([]byte, 1<<17)
	for {
		n, addr, err := k.pc.ReadFrom(buf)
		if err != nil {
			return
		}
		k.mu.Lock()
		k.UDPGot = append(k.UDPGot, append([]byte(nil), buf[:n]...))
		k.mu.Unlock()
		if k.UDPBeh == "reply" {
			if k.Delay > 0 {
				time.Sleep(k.Delay)
			}
			k.pc.WriteTo(k.Reply, addr)
		}
	}
}

func (k *KDC) Snapshot() (tcp [][]byte, udp [][]byte) {
	k.mu.Lock()
	defer k.mu.Unlock()
	return append([][]byte(nil), k.TCPGot...), append([][]byte(nil), k.UDPGot...)
}

func (k *KDC) Close() {
	k.ln.Close()
	k.pc.Close()
	k.mu.Lock()
	for _, c := range k.conns {
		c.Close()
	}
	k.mu.Unlock()
}

// RefusedAddr returns a loopback address on which nothing listens (TCP and UDP).
func RefusedAddr() string {
	// (from below the kernel's ephemeral range, handed out once: a port that was merely free a moment ago is given to the
	// next fake KDC of a script running alongside, and "refuses" then answers - with somebody else's reply)
	return fmt.Sprintf("127.0.0.1:%d", ClosedPort())
}

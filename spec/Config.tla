-------------------------------- MODULE Config --------------------------------
(* Start-up decisions of rdpgw (config.Load, main.go, web.NewHandler): which    *)
(* configurations are refused, and which keys are replaced by fresh random      *)
(* ones.                                                                        *)
EXTENDS Integers, Sequences, FiniteSets, TLC

Auths == {"openid", "kerberos", "local", "ntlm"}
\* c: [auth, tlsDisabled, tokenAuth, sel, queryKey, keytab, nhosts]
\* sel is the host-selection mode: the four documented ones, and "other" for a word that is none of them (the gateway
\* may refuse it or start; if it starts, the refusal reasons below still apply - in particular a host list is needed
\* whatever the mode)
Sels == {"roundrobin", "signed", "unsigned", "any", "other"}
Reasons(c) ==
  (IF "openid" \in c.auth /\ ~c.tokenAuth THEN {"openid-without-tokenauth"} ELSE {})
  \cup (IF "local" \in c.auth /\ c.tlsDisabled THEN {"local-without-tls"} ELSE {})
  \cup (IF "ntlm" \in c.auth /\ "kerberos" \in c.auth THEN {"ntlm-with-kerberos"} ELSE {})
  \cup (IF "kerberos" \in c.auth /\ ~c.keytab THEN {"kerberos-without-keytab"} ELSE {})
  \cup (IF c.sel = "signed" /\ ~c.queryKey THEN {"signed-without-querykey"} ELSE {})
  \cup (IF c.nhosts = 0 THEN {"no-hosts"} ELSE {})
Refuse(c) == Reasons(c) # {}

\* Keyword values (mechanism names, `disable`, `signed`) can be written in other spellings: another letter case, or
\* the documented alias `basic` for `local`.  What such a spelling means is the implementation's business - it may be
\* refused, ignored or understood - but whatever it is taken to mean, the gateway that ends up RUNNING must not be in
\* one of the unsafe states.  e is what was observed of a running gateway by probing it from outside:
\*   [tlsOff, auth (mechanisms that answer), tokenAuth \in {"yes","no","unknown"}, signedNoKey (signed selection
\*    accepting a query token made with the empty key)]
Spellings == {"canon", "mixed", "upper", "alias"}
EffReasons(e) ==
  (IF "openid" \in e.auth /\ e.tokenAuth = "no" THEN {"openid-without-tokenauth"} ELSE {})
  \cup (IF "local" \in e.auth /\ e.tlsOff THEN {"local-without-tls"} ELSE {})
  \cup (IF "ntlm" \in e.auth /\ "kerberos" \in e.auth THEN {"ntlm-with-kerberos"} ELSE {})
  \cup (IF e.signedNoKey THEN {"signed-without-querykey"} ELSE {})
Unsafe(e) == EffReasons(e) # {}

\* a key of the configured length is used as it is only when it has exactly 32 characters
KeyKept(len) == len = 32

\* ---- the lattice as a model: every configuration is an initial state ----------
VARIABLE c
Cfgs == [auth : (SUBSET Auths) \ {{}}, tlsDisabled : BOOLEAN, tokenAuth : BOOLEAN, sel : Sels, queryKey : BOOLEAN,
         keytab : BOOLEAN, nhosts : 0..2, spell : Spellings]
Init == c \in Cfgs
Next == UNCHANGED c
Spec == Init /\ [][Next]_c
\* sanity of the decision table
OpenIdAloneNeedsCookie == (c.auth = {"openid"} /\ ~Refuse(c)) => c.tokenAuth
StackableSets == ~Refuse(c) => ~({"ntlm", "kerberos"} \subseteq c.auth)
StartableExists == TRUE
=============================================================================

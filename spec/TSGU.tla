-------------------------------- MODULE TSGU --------------------------------
(* Vocabulary shared by the rdpgw specifications: MS-TSGU packet kinds,      *)
(* response types, status codes, capability matching and the redirect-flag   *)
(* encoding. 32-bit quantities are written as pairs <<hi16, lo16>> because    *)
(* TLC integers are 32-bit signed.                                           *)
EXTENDS Integers, Sequences, FiniteSets, Bitwise

\* client packet kinds (abstract) and their wire types
Kinds == {"hs", "create", "auth", "chan", "data", "keepalive", "close", "other"}
Steps == {"hs", "create", "auth", "chan", "close"}

WireType(k) == CASE k = "hs" -> 1 [] k = "create" -> 4 [] k = "auth" -> 6 [] k = "chan" -> 8
                 [] k = "data" -> 10 [] k = "keepalive" -> 13 [] k = "close" -> 16
                 [] OTHER -> -1

\* type of the response that answers a request kind (0 = the kind has no response)
RespType(k) == CASE k = "hs" -> 2 [] k = "create" -> 5 [] k = "auth" -> 7 [] k = "chan" -> 9
                 [] k = "close" -> 17 [] OTHER -> 0

\* status codes as <<hi16, lo16>>
S_OK        == <<0, 0>>
S_MISMATCH  == <<32775, 23017>>   \* 0x800759E9 E_PROXY_CAPABILITYMISMATCH
S_COOKIE    == <<32775, 23032>>   \* 0x800759F8 E_PROXY_COOKIE_AUTHENTICATION_ACCESS_DENIED
S_RAP       == <<32775, 23002>>   \* 0x800759DA E_PROXY_RAP_ACCESSDENIED
S_INTERNAL  == <<32775, 23000>>   \* 0x800759D8 E_PROXY_INTERNALERROR
S_DENIED    == <<0, 5>>           \* ERROR_ACCESS_DENIED

\* abstract class of a status
StatusClass(st) == IF st = S_OK THEN "ok"
                   ELSE IF st = S_MISMATCH THEN "mismatch"
                   ELSE IF st = S_COOKIE THEN "cookie"
                   ELSE IF st = S_RAP THEN "rap"
                   ELSE "err"

\* ------------------------------------------------------------------ C17
CAP_SC  == 1
CAP_PAA == 2
ServerCaps(tokenAuth, smartCard) == (IF smartCard THEN CAP_SC ELSE 0) + (IF tokenAuth THEN CAP_PAA ELSE 0)
\* both empty, or at least one common bit
Match(s, c) == (s = 0 /\ c = 0) \/ (s & c) # 0

\* ------------------------------------------------------------------ C16
\* redirect switches: record of seven booleans
RedirCfgs == [clipboard : BOOLEAN, port : BOOLEAN, drive : BOOLEAN, printer : BOOLEAN,
              pnp : BOOLEAN, disableAll : BOOLEAN, enableAll : BOOLEAN]
\* HTTP_TUNNEL_REDIR_* : ENABLE_ALL 0x80000000, DISABLE_ALL 0x40000000,
\* DISABLE_DRIVE 1, PRINTER 2, PORT 4, CLIPBOARD 8, PNP 0x10
RedirFlags(r) ==
  IF r.disableAll THEN <<16384, 0>>
  ELSE IF r.enableAll THEN <<32768, 0>>
  ELSE <<0, (IF r.drive THEN 0 ELSE 1) + (IF r.printer THEN 0 ELSE 2) + (IF r.port THEN 0 ELSE 4)
            + (IF r.clipboard THEN 0 ELSE 8) + (IF r.pnp THEN 0 ELSE 16)>>

\* a device class is redirectable according to a reported flag word
Redirectable(flags, bit) == /\ flags[1] # 16384
                            /\ (flags[1] = 32768 \/ (flags[2] & bit) = 0)

\* idle timeout reported for a configured value (int32): negatives as 0
IdleOf(n) == IF n < 0 THEN <<0, 0>> ELSE <<n \div 65536, n % 65536>>
=============================================================================
